"""
Symbolic executor / verification-condition generator for the accepted Python subset (DESIGN §2).

One `FunctionRun` executes one real function (AST re-read from $REPO) against one sidecar contract:
paths are split at branches (no merging), loops are cut by their invariants, calls to contracted
functions are replaced by assert-pre / havoc-frame / assume-post, calls to externals use the models
of `models.py`.  The output is a list of `Obligation`s; nothing is decided here.
"""
import ast
import z3

from . import ops
from .ops import Unsupported, TRUE, FALSE
from .types import (TInt, TReal, TBool, TStr, TNone, TList, TTuple, TDict, TOpt, TGraph, TOpaque, TRecord,
                    Val, lift, fresh, const, fresh_name, parse_type)
from .heap import Heap
from . import contract as C
from . import extract

EXC_PARENTS = {
    'KeyError': 'LookupError', 'IndexError': 'LookupError', 'LookupError': 'Exception',
    'IOError': 'OSError', 'OSError': 'Exception', 'ValueError': 'Exception', 'TypeError': 'Exception',
    'SyntaxError': 'Exception', 'StopIteration': 'Exception', 'NameError': 'Exception',
    'ZeroDivisionError': 'ArithmeticError', 'ArithmeticError': 'Exception', 'AssertionError': 'Exception',
    'AttributeError': 'Exception', 'RuntimeError': 'Exception', 'Exception': 'BaseException',
}
EXC_ALIASES = {'IOError': 'OSError'}


def exc_canon(name):
    return EXC_ALIASES.get(name, name)


def exc_matches(raised, handler):
    raised, handler = exc_canon(raised), exc_canon(handler)
    while raised is not None:
        if raised == handler:
            return True
        raised = EXC_PARENTS.get(raised)
        if raised is not None:
            raised = exc_canon(raised)
    return False


class Obligation:
    def __init__(self, func, kind, label, hyps, goal, line, expect='unsat', detail=''):
        self.func = func
        self.kind = kind
        self.label = label
        self.hyps = list(hyps)
        self.goal = goal
        self.line = line
        self.expect = expect      # 'unsat' (a proof obligation) or 'sat' (a cover / vacuity check)
        self.detail = detail
        self.name = None

    @staticmethod
    def _heap_kinds(term, cache={}):
        """Kinds of heap components (nodes, hase, nv:weight, ...) mentioned by a term."""
        kinds = set()
        seen = set()
        stack = [term]
        while stack:
            t = stack.pop()
            i = t.get_id()
            if i in seen:
                continue
            seen.add(i)
            if z3.is_quantifier(t):
                stack.append(t.body())
                continue
            if z3.is_const(t) and t.decl().kind() == z3.Z3_OP_UNINTERPRETED:
                name = t.decl().name()
                if name.startswith('H!') and '.' in name:
                    kinds.add(name.split('.', 1)[1])
            elif z3.is_app(t):
                stack.extend(t.children())
        return kinds

    def relevant_hyps(self):
        """Sound weakening: drop hypotheses that only talk about heap components the goal never mentions
        (fewer hypotheses can only make `unsat` harder, never wrong)."""
        base = {'nodes', 'hasn', 'nidx', 'next_gid'}
        rel = self._heap_kinds(self.goal) | base
        hyps = list(getattr(self, 'axioms', [])) + list(self.hyps)
        info = [(h, self._heap_kinds(h)) for h in hyps]
        # hypotheses without quantifiers connect components (e.g. x == heap read): let them extend the relevant set once
        for h, k in info:
            if k and (k & (rel - base)) and not z3.is_quantifier(h):
                rel |= k
        return [h for h, k in info if not k or (k & (rel - base)) or k <= base]

    def smt2(self, logic=None, filtered=False, tail=None):
        s = z3.Solver()
        if tail is not None:
            # the most recent hypotheses only (sound weakening: a subset of the hypotheses)
            for h in list(getattr(self, 'axioms', [])) + self.hyps[-tail:]:
                s.add(h)
            s.add(z3.Not(self.goal))
            return s.to_smt2()
        if filtered:
            for h in self.relevant_hyps():
                s.add(h)
            s.add(z3.Not(self.goal))
            return s.to_smt2()
        for h in getattr(self, 'axioms', []):
            s.add(h)
        for h in self.hyps:
            s.add(h)
        if self.expect == 'unsat':
            s.add(z3.Not(self.goal))
        else:
            s.add(self.goal)
        return s.to_smt2()


def _immutable_type(ty):
    if isinstance(ty, TOpt):
        return _immutable_type(ty.inner)
    if isinstance(ty, TTuple):
        return all(_immutable_type(e) for e in ty.elems)
    return ty in (TInt, TReal, TBool, TStr, TNone) or isinstance(ty, TGraph)       # a graph value is a reference


class State:
    __slots__ = ('env', 'pc', 'heap', 'exc', 'ret', 'writable', 'ghost_log', 'flow')

    def __init__(self):
        self.env = {}
        self.pc = []
        self.heap = Heap(tag=fresh_name('H'))
        self.exc = None
        self.ret = None
        self.writable = None
        self.flow = None          # None / 'break' / 'continue' / 'return' / 'raise'

    def copy(self):
        s = State()
        s.env = {k: (v.copy() if isinstance(v, AttrRec) else v) for k, v in self.env.items()}
        s.pc = list(self.pc)
        s.heap = self.heap
        s.exc = self.exc
        s.ret = self.ret
        s.writable = self.writable
        s.flow = self.flow
        return s

    def assume(self, *conds):
        for c in conds:
            if c is True:
                continue
            if c is False:
                c = FALSE
            self.pc.append(c)


# pseudo-values that never live in SMT arrays -------------------------------------------------------
class NodesOf:
    def __init__(self, g, data=None):
        self.g = g
        self.data = data       # None / True / attribute name


class NodeView:
    def __init__(self, g, n):
        self.g = g
        self.n = n


class EdgesOf:
    def __init__(self, g, data=None):
        self.g = g
        self.data = data


class EdgeView:
    def __init__(self, g, u, v):
        self.g, self.u, self.v = g, u, v


class ContractionView:
    """G.nodes[k]['contraction'] (see heap.NODE_SCHEMAS): [removed] -> ContractionEntry -> ['fragid' | 'mapping']."""

    def __init__(self, val, removed=None):
        self.val = val
        self.removed = removed


class AttrRec:
    """A detached attribute dict (result of deepcopy(G.nodes[n]) or of **kwargs construction)."""

    def __init__(self, schema, attrs=None, rest=None, known_empty=False):
        self.schema = schema
        self.attrs = dict(attrs or {})      # suffix -> (has: BoolRef, Val)
        self.rest = rest
        self.known_empty = known_empty

    def copy(self):
        return AttrRec(self.schema, self.attrs, self.rest, self.known_empty)


class ModuleRef:
    def __init__(self, name):
        self.name = name


class FuncRef:
    def __init__(self, canonical):
        self.canonical = canonical


class SeqView:
    """A read-only iterable: length + element getter (+ element type)."""

    def __init__(self, length, getter, desc=''):
        self.length = length
        self.getter = getter
        self.desc = desc


class FunctionRun:
    def __init__(self, modinfo, contract, modules, models, spec_funcs):
        self.mod = modinfo
        self.c = contract
        self.modules = modules            # modname -> ModuleInfo (for callee defaults)
        self.models = models
        self.spec_funcs = spec_funcs
        self.fn = modinfo.function(contract.qualname)
        self.fname = contract.target + (('#' + contract.variant) if contract.variant else '')
        self.obligations = []
        self.dropped = []
        self.assumptions = set(contract.assumes)
        self.loop_ordinals = {}
        self.counter = {}
        self.entry = None
        self.ghost_entry = {}
        k = 0
        for node in ast.walk(self.fn):
            pass
        self._number_loops(extract.body_without_docstring(self.fn))
        self.is_method = '.' in contract.qualname
        self.trusted_used = set()
        self.bound_names = []
        self.qenv = {}
        self.after_hits = set()
        self.axioms = []
        self.axiom_keys = set()
        self.callees_used = set()

    # ------------------------------------------------------------------ helpers
    def _number_loops(self, stmts):
        for s in stmts:
            if isinstance(s, (ast.For, ast.While)):
                self.loop_ordinals[id(s)] = len(self.loop_ordinals)
            for field in ('body', 'orelse', 'finalbody'):
                if hasattr(s, field):
                    self._number_loops(getattr(s, field))
            if isinstance(s, ast.Try):
                for h in s.handlers:
                    self._number_loops(h.body)

    def oblige(self, st, kind, goal, node=None, label='', expect='unsat', detail=''):
        line = getattr(node, 'lineno', 0) if node is not None else 0
        if ops.CTX.pending:
            # definitional axioms of array symbols created since the last drain belong to every later obligation
            st.assume(*ops.CTX.pending)
            del ops.CTX.pending[:]
        n = self.counter.get(kind, 0)
        self.counter[kind] = n + 1
        ob = Obligation(self.fname, kind, label, st.pc, goal, line, expect, detail)
        ob.axioms = self.axioms          # shared list: definitional axioms of opaque spec functions (complete at the end)
        ob.name = '%s/%s#%d%s' % (self.fname, kind, n, ('[' + label + ']') if label else '')
        self.obligations.append(ob)
        return ob

    def safety(self, st, cond, node, what, spec=False):
        """A partial operation: in code mode the condition becomes a no-exc obligation (and is then assumed)."""
        if spec:
            return
        if z3.is_true(z3.simplify(cond)) if isinstance(cond, z3.BoolRef) else cond is True:
            return
        self.oblige(st, 'no-exc', cond, node, what)
        st.assume(cond)

    # ------------------------------------------------------------------ entry
    def run(self):
        c = self.c
        st = State()
        names, defaults = extract.param_defaults(self.fn)
        records = {}
        if self.is_method and names and names[0] == 'self':
            rec = TRecord('self', {k: parse_type(t) for k, t in c.self_fields.items()})
            for k, t in rec.fields.items():
                st.env['self.' + k] = const(t, 'self.' + k)
            names = names[1:]
        for p in names:
            if p in c.fix and p not in c.types:
                st.env[p] = self.models.lift_constant(self, c.fix[p])     # parameter fixed to a constant (e.g. a default list)
                continue
            if p not in c.types:
                raise Unsupported('parameter %s has no declared type' % p)
            st.env[p] = const(parse_type(c.types[p]), p)
        for p, value in c.fix.items():
            if p not in c.types:
                continue
            st.assume(ops.equal(st.env[p], lift(value)))
            st.env[p] = lift(value)
        for v in list(st.env.values()):
            if isinstance(v, Val):
                st.assume(*ops.wf_axioms(v))
        # heap: every graph reachable from the inputs is older than everything allocated here
        self.entry_next_gid = st.heap.get('next_gid')
        for name, v in st.env.items():
            if isinstance(v, Val) and isinstance(v.ty, TGraph):
                st.assume(v.t >= 0, v.t < self.entry_next_gid)
                st.assume(*st.heap.wf_graph(v.t))
        if any(isinstance(v.ty, TGraph) for v in st.env.values() if isinstance(v, Val)):
            st.assume(*st.heap.wf_refs())
            if self.c.wf_all_graphs:
                st.assume(*st.heap.wf_all())
            st.assume(*self.bonding_invariant(st, st.heap))
            st.assume(*self.fragid_invariant(st.heap))
        # graph references held in dict-valued inputs point at graphs that exist on entry
        for name, v in list(st.env.items()):
            if isinstance(v, Val) and isinstance(v.ty, TDict) and isinstance(v.ty.val, TGraph):
                k = z3.Const(fresh_name('dg'), v.ty.key.sort())
                vv = v.ty.valmap(v.t)[k]
                st.assume(z3.ForAll([k], z3.Implies(v.ty.has(v.t)[k], z3.And(vv >= 0, vv < st.heap.get('next_gid'))), patterns=[vv]))
            if isinstance(v, Val) and isinstance(v.ty, TList) and isinstance(v.ty.elem, TDict) and isinstance(v.ty.elem.val, TGraph):
                dty = v.ty.elem
                i = z3.Int(fresh_name('li'))
                k = z3.Const(fresh_name('dg'), dty.key.sort())
                d = v.ty.arr(v.t)[i]
                vv = dty.valmap(d)[k]
                st.assume(z3.ForAll([i, k], z3.Implies(z3.And(0 <= i, i < v.ty.length(v.t), dty.has(d)[k]),
                                                       z3.And(vv >= 0, vv < st.heap.get('next_gid'))), patterns=[vv]))
        # ghosts
        for g, (ty, init) in c.ghosts.items():
            st.env[g] = ops.coerce(self.spec_expr(init, st, None), parse_type(ty))
        # parameters the body rebinds (`p = ...`): in a postcondition the name of a parameter denotes the object that was
        # passed in, as it does for the caller and for the run-time monitor, not whatever the local name is bound to at the end
        self.rebound = {}
        clauses = ' '.join(list(c.ensures) + [sp.get('when') or '' for sp in c.raises.values()])
        for node in ast.walk(self.fn):
            if isinstance(node, ast.Name) and isinstance(node.ctx, ast.Store) and node.id in names and node.id in st.env \
                    and node.id not in self.rebound:
                v = st.env[node.id]
                if isinstance(v, Val) and not _immutable_type(v.ty):
                    import re as _re
                    if _re.search(r'(?<![\w.])%s(?![\w])' % _re.escape(node.id), clauses):
                        raise Unsupported('parameter %s (mutable type %s) is rebound in the body and named in a postcondition' % (node.id, v.ty))
                    continue
                self.rebound[node.id] = v
        self.entry = st.copy()
        self.mod_terms = self.parse_mods(c.modifies, st, None)
        st.writable = self._writable_pred(self.mod_terms, self.entry_next_gid)
        for r in c.requires:
            st.assume(self.spec_bool(r, st, None))
        # vacuity guard: the precondition must be satisfiable
        self.oblige(st, 'cover', TRUE, self.fn, 'requires-satisfiable', expect='sat')
        self.entry.pc = list(st.pc)
        outs = self.exec_block(extract.body_without_docstring(self.fn), [st])
        for text in c.after:
            if text not in self.after_hits:
                raise StaleContract('no statement matches the anchor %r of an intermediate assertion' % text)
        self.finish(outs)
        return self.obligations

    # ---- data (type) invariant of the 'bonding' attribute: every stored descriptor is kind + label + order digit
    def descr_ok_term(self, st, d):
        sf = self.spec_funcs
        dv = Val(TStr, d)
        parts = []
        for name in ('kind_ok', 'ends_in_digit'):
            sp = sf[name]
            parts.append((sp.opaque(self, st, dv) if name in self.c.opaque else sp.smt(self, st, dv)).t)
        return z3.And(*parts)

    def bonding_invariant(self, st, heap):
        if 'descriptors' not in self.c.heap_invariants:
            return []
        from .heap import T_LSTR
        g, n, j = z3.Int(fresh_name('ig')), z3.Int(fresh_name('in')), z3.Int(fresh_name('ij'))
        lst = heap.get('nv:bonding')[g][n]
        self.bound_names.extend([g.decl().name(), n.decl().name(), j.decl().name()])
        try:
            ok = self.descr_ok_term(st, T_LSTR.arr(lst)[j])
        finally:
            del self.bound_names[-3:]
        return [z3.ForAll([g, n, j], z3.Implies(z3.And(heap.get('nh:bonding')[g][n], 0 <= j, j < T_LSTR.length(lst)), ok),
                          patterns=[T_LSTR.arr(lst)[j]])]

    def fragid_invariant(self, heap):
        if 'fragid' not in self.c.heap_invariants:
            return []
        from .heap import T_LINT
        g, n = z3.Int(fresh_name('fg')), z3.Int(fresh_name('fn'))
        lst = heap.get('nv:fragid#l')[g][n]
        return [z3.ForAll([g, n], z3.Implies(heap.get('nh:fragid#l')[g][n], T_LINT.length(lst) >= 1), patterns=[T_LINT.length(lst)])]

    def check_fragid_write(self, st, list_term, node):
        if 'fragid' not in self.c.heap_invariants:
            return
        from .heap import T_LINT
        self.oblige(st, 'type-inv', T_LINT.length(list_term) >= 1, node, 'fragid-nonempty',
                    detail='a membership list written to a node is never empty')

    def check_bonding_write(self, st, list_term, node):
        if 'descriptors' not in self.c.heap_invariants:
            return
        from .heap import T_LSTR
        j = z3.Int(fresh_name('wj'))
        self.bound_names.append(j.decl().name())
        try:
            ok = self.descr_ok_term(st, T_LSTR.arr(list_term)[j])
        finally:
            del self.bound_names[-1:]
        goal = z3.ForAll([j], z3.Implies(z3.And(0 <= j, j < T_LSTR.length(list_term)), ok))
        self.oblige(st, 'type-inv', goal, node, 'bonding-descriptors', detail='every element written to a bonding list is a well-formed descriptor')

    def truth(self, v, st):
        """Python truthiness; a networkx graph is falsy when it has no nodes (needs the heap)."""
        if isinstance(v, Val) and isinstance(v.ty, TGraph):
            return st.heap.n_nodes(v.t) > 0
        if isinstance(v, Val) and isinstance(v.ty, TOpt) and isinstance(v.ty.inner, TGraph):
            return z3.And(z3.Not(v.ty.is_none(v.t)), st.heap.n_nodes(v.ty.get(v.t)) > 0)
        return ops.truthy(v)

    def _writable_pred(self, mod_terms, fresh_from):
        def pred(g, comps=None):
            alts = [g >= fresh_from]
            for m, cs in mod_terms:
                if cs is None or (comps is not None and all(c in cs for c in comps)):
                    alts.append(m(g) if callable(m) else g == m)
            return z3.Or(*alts)
        return pred

    def parse_mods(self, texts, st, old):
        """'G' (whole graph) or 'G:attr:position,nodes,edges,eattr:order' (listed components only)."""
        out = []
        for text in texts:
            if ':' in text:
                expr, comps = text.split(':', 1)
                cs = set()
                text = expr
                for c in comps.split(','):
                    c = c.strip()
                    if c.startswith('attr:'):
                        name = c[5:]
                        for sch in ('mol', 'tmpl'):
                            from .heap import NODE_SCHEMAS
                            if name in NODE_SCHEMAS[sch]:
                                cs.add('nh:' + NODE_SCHEMAS[sch][name][0])
                                cs.add('nv:' + NODE_SCHEMAS[sch][name][0])
                    elif c.startswith('eattr:'):
                        from .heap import EDGE_SCHEMA
                        cs.add('eh:' + EDGE_SCHEMA[c[6:]][0])
                        cs.add('ev:' + EDGE_SCHEMA[c[6:]][0])
                    elif c == 'attrs':
                        from .heap import _ATTR_SORTS
                        for a in _ATTR_SORTS:
                            cs.update(['nh:' + a, 'nv:' + a])
                        cs.add('rest')
                    elif c == 'eattrs':
                        from .heap import _EATTR_SORTS
                        for a in _EATTR_SORTS:
                            cs.update(['eh:' + a, 'ev:' + a])
                    elif c == 'nodes':
                        cs.update(['nodes', 'hasn', 'nidx', 'rest'])
                    elif c == 'edges':
                        cs.update(['hase', 'elist', 'eidx'])
                    else:
                        raise Unsupported('unknown frame component ' + c)
            else:
                cs = None
            text = text.strip()
            if text.startswith('graphs_of(') and text.endswith(')'):
                # every graph stored under the 'graph' attribute of a node of G (in the state the frame is evaluated in)
                owner = self.spec_expr(text[len('graphs_of('):-1], st, old).t
                heap = st.heap

                def member(g, owner=owner, heap=heap):
                    k = z3.Int(fresh_name('gk'))
                    return z3.Exists([k], z3.And(heap.has_node(owner, k), heap.nhas(owner, k, 'graph'),
                                                 heap.nval(owner, k, 'graph') == g))
                out.append((member, cs))
            else:
                out.append((self.spec_expr(text, st, old).t, cs))
        return out

    def finish(self, outs):
        c = self.c
        n_ret = 0
        for st in outs:
            for p, v in self.rebound.items():
                st.env[p] = v
            if st.flow == 'raise':
                name = exc_canon(st.exc)
                spec = None
                for en, sp in c.raises.items():
                    if exc_matches(name, en):
                        spec = sp
                        break
                if spec is None:
                    self.oblige(st, 'no-exc', FALSE, self.fn, 'unexpected-' + name,
                                detail='path raises %s which the contract does not allow' % name)
                    continue
                if spec.get('when'):
                    cond = self.spec_bool(spec['when'], st, self.entry)
                    self.oblige(st, 'exc-post', cond, self.fn, name)
                self.oblige(st, 'cover', TRUE, self.fn, 'raise-path-' + name, expect='sat')
                continue
            # normal return (falling off the end returns None)
            n_ret += 1
            res = st.ret if st.ret is not None else lift(None)
            if c.returns:
                try:
                    res = ops.coerce(res, parse_type(c.returns)) if isinstance(res, Val) else res
                except Unsupported:
                    self.oblige(st, 'post', FALSE, self.fn, 'result-type', detail='result type %s, declared %s' % (getattr(res, 'ty', '?'), c.returns))
                    continue
            st.env['result'] = res
            for k, e in enumerate(c.ensures):
                self.oblige(st, 'post', self.spec_bool(e, st, self.entry), self.fn, 'ensures%d' % k, detail=e)
            for en, sp in c.raises.items():
                if sp.get('when') and sp.get('iff'):
                    self.oblige(st, 'post', z3.Not(self.spec_bool(sp['when'], st, self.entry)), self.fn,
                                'returns-only-if-not-' + en, detail='not (' + sp['when'] + ')')
        if n_ret:
            pass

    # ------------------------------------------------------------------ spec expressions
    def spec_expr(self, text, st, old):
        tree = ast.parse(text.strip(), mode='eval').body
        return self.ev(tree, st, spec=True, old=old)

    def spec_bool(self, text, st, old):
        v = self.spec_expr(text, st, old)
        return ops.truthy(v)

    # ------------------------------------------------------------------ statements
    def exec_block(self, stmts, states):
        """Execute statements over all states whose flow is None; others pass through."""
        for s in stmts:
            live = [x for x in states if x.flow is None]
            rest = [x for x in states if x.flow is not None]
            if not live:
                return states
            new = []
            for st in live:
                new += self.exec_stmt(s, st)
            states = rest + new
        return states

    def exec_stmt(self, s, st):
        m = getattr(self, 'st_' + type(s).__name__, None)
        if m is None:
            raise Unsupported('statement %s at line %d' % (type(s).__name__, s.lineno))
        outs = m(s, st)
        if self.c.after and not isinstance(s, (ast.For, ast.While, ast.If, ast.Try)):
            key = ''.join(ast.unparse(s).split())
            for text, lemmas in self.c.after.items():
                if ''.join(text.split()) == key:
                    self.after_hits.add(text)
                    for x in outs:
                        if x.flow is None:
                            for j, lm in enumerate(lemmas):
                                goal = self.spec_bool(lm, x, self.entry)
                                self.oblige(x, 'lemma', goal, s, 'after-L%d.%d' % (s.lineno, j), detail=lm)
                                x.assume(goal)
        return outs

    def st_Pass(self, s, st):
        return [st]

    def st_Expr(self, s, st):
        d = extract.is_dropped_call(s)
        if d:
            self.dropped.append('%s at line %d' % (d, s.lineno))
            return [st]
        if isinstance(s.value, ast.Constant):
            return [st]
        if isinstance(s.value, ast.Call):
            return [x for x, _ in self.call_stmt(s.value, st)]
        self.ev(s.value, st)
        return [st]

    def st_Assert(self, s, st):
        cond = self.truth(self.ev(s.test, st), st)
        self.oblige(st, 'no-exc', cond, s, 'assert')
        st.assume(cond)
        return [st]

    def st_Return(self, s, st):
        if s.value is None:
            st.ret = lift(None)
            st.flow = 'return'
            return [st]
        outs = []
        for x, v in self.eval_rhs(s.value, st):
            if x.flow is None:
                x.ret = v
                x.flow = 'return'
            outs.append(x)
        return outs

    def st_Raise(self, s, st):
        if s.exc is None:
            raise Unsupported('bare raise')
        e = s.exc
        if isinstance(e, ast.Call):
            e = e.func
        if not isinstance(e, ast.Name):
            raise Unsupported('raise of a non-name')
        st.exc = e.id
        st.flow = 'raise'
        return [st]

    def st_Break(self, s, st):
        st.flow = 'break'
        return [st]

    def st_Continue(self, s, st):
        st.flow = 'continue'
        return [st]

    def st_If(self, s, st):
        cond = self.truth(self.ev(s.test, st), st)
        cond_s = z3.simplify(cond)
        outs = []
        if not z3.is_false(cond_s):
            a = st.copy()
            a.assume(cond)
            outs += self.exec_block(s.body, [a])
        if not z3.is_true(cond_s):
            b = st.copy()
            b.assume(z3.Not(cond))
            outs += self.exec_block(s.orelse, [b]) if s.orelse else [b]
        return outs

    def st_Assign(self, s, st):
        outs = []
        if len(s.targets) == 1:
            t = s.targets[0]
            tname = t.id if isinstance(t, ast.Name) else ('self.' + t.attr if isinstance(t, ast.Attribute) and isinstance(t.value, ast.Name) and t.value.id == 'self' else None)
            if tname:
                for sub in ast.walk(s.value):
                    sub._assigned_name = tname
        for x, v in self.eval_rhs(s.value, st):
            if x.flow is None:
                for tgt in s.targets:
                    self.assign(tgt, v, x, s)
            outs.append(x)
        return outs

    def st_AugAssign(self, s, st):
        cur = self.ev(s.target, st)
        rhs = self.ev(s.value, st)
        new = self.binop(type(s.op).__name__, cur, rhs, st, s)
        self.assign(s.target, new, st, s)
        return [st]

    def st_Delete(self, s, st):
        for tgt in s.targets:
            if isinstance(tgt, ast.Subscript):
                base = self.ev(tgt.value, st)
                key = self.ev(tgt.slice, st)
                self.models.delete_item(self, st, base, key, tgt)
            else:
                raise Unsupported('del of %s' % type(tgt).__name__)
        return [st]

    def st_Try(self, s, st):
        if s.finalbody:
            raise Unsupported('try/finally')
        outs = []
        for x in self.exec_block(s.body, [st]):
            if x.flow == 'raise':
                handled = False
                for h in s.handlers:
                    names = []
                    if h.type is None:
                        names = ['BaseException']
                    elif isinstance(h.type, ast.Tuple):
                        names = [e.id for e in h.type.elts]
                    else:
                        names = [h.type.id]
                    if any(exc_matches(x.exc, n) for n in names):
                        x.flow = None
                        x.exc = None
                        if h.name:
                            x.env[h.name] = Val(TOpaque('exc'), z3.Const(fresh_name('exc'), TOpaque('exc').sort()))
                        outs += self.exec_block(h.body, [x])
                        handled = True
                        break
                if not handled:
                    outs.append(x)
            elif x.flow is None and s.orelse:
                outs += self.exec_block(s.orelse, [x])
            else:
                outs.append(x)
        return outs

    # ------------------------------------------------------------------ loops
    def _assigned_names(self, stmts):
        names = set()
        rebound = set()
        self._rebound = rebound

        def base_name(t):
            while isinstance(t, (ast.Subscript, ast.Attribute)):
                if isinstance(t, ast.Attribute) and isinstance(t.value, ast.Name) and t.value.id == 'self':
                    return 'self.' + t.attr
                t = t.value
            return t.id if isinstance(t, ast.Name) else None

        def tgt(t):
            if isinstance(t, ast.Name):
                names.add(t.id)
                rebound.add(t.id)
            elif isinstance(t, (ast.Tuple, ast.List)):
                for e in t.elts:
                    tgt(e)
            elif isinstance(t, ast.Starred):
                tgt(t.value)
            else:
                b = base_name(t)
                if b:
                    names.add(b)
        for s in stmts:
            for node in ast.walk(s):
                if isinstance(node, ast.Assign):
                    for t in node.targets:
                        tgt(t)
                elif isinstance(node, (ast.AugAssign, ast.AnnAssign)):
                    tgt(node.target)
                elif isinstance(node, ast.For):
                    tgt(node.target)
                elif isinstance(node, ast.Delete):
                    for t in node.targets:
                        tgt(t)
                elif isinstance(node, ast.Call) and isinstance(node.func, ast.Attribute) and \
                        node.func.attr in ('append', 'remove', 'pop', 'extend', 'update', 'setdefault', 'insert', 'clear'):
                    b = base_name(node.func.value)
                    if b:
                        names.add(b)
                elif isinstance(node, ast.ExceptHandler) and node.name:
                    names.add(node.name)
        return names

    HEAP_MUTATORS = {'add_node', 'add_edge', 'add_nodes_from', 'add_edges_from', 'remove_node', 'remove_edge',
                     'remove_nodes_from', 'clear'}
    HEAP_CANON = {'networkx.Graph', 'networkx.set_node_attributes', 'networkx.relabel_nodes', 'networkx.contracted_nodes',
                  'networkx.set_edge_attributes'}

    def _touches_heap(self, stmts):
        """Conservative syntactic test: may these statements write the graph heap?"""
        def mentions_graph_view(e):
            return any(isinstance(n, ast.Attribute) and n.attr in ('nodes', 'edges') for n in ast.walk(e))
        for s in stmts:
            for node in ast.walk(s):
                if isinstance(node, (ast.Assign, ast.AugAssign, ast.Delete)):
                    tgts = node.targets if isinstance(node, (ast.Assign, ast.Delete)) else [node.target]
                    for t in tgts:
                        if isinstance(t, ast.Subscript) and mentions_graph_view(t):
                            return True
                if isinstance(node, ast.Call):
                    f = node.func
                    if isinstance(f, ast.Attribute):
                        if f.attr in self.HEAP_MUTATORS:
                            return True
                        if f.attr in ('append', 'remove', 'pop', 'extend', 'insert', 'update') and mentions_graph_view(f.value):
                            return True
                        if isinstance(f.value, ast.Name) and f.value.id == 'self':
                            cls = self.c.qualname.split('.')[0]
                            con = C.lookup('%s:%s.%s' % (self.c.module, cls, f.attr))
                            if con is None or con.modifies or con.allocates or con.rebinds:
                                return True
                        if isinstance(f.value, ast.Name) and f.value.id in self.mod.imports and ':' not in self.mod.imports[f.value.id]:
                            canon = self.mod.imports[f.value.id] + '.' + f.attr
                            if canon in self.HEAP_CANON:
                                return True
                            con = C.lookup(canon)
                            if con is not None and (con.modifies or con.allocates):
                                return True
                    elif isinstance(f, ast.Name) and f.id in self.mod.imports:
                        con = C.lookup(self.mod.imports[f.id])
                        if con is not None and (con.modifies or con.allocates):
                            return True
                        if con is None and ':' in self.mod.imports[f.id] and self.mod.imports[f.id].split(':')[0].startswith('cgsmiles'):
                            return True      # uncontracted repo function: assume the worst
        return False

    def _havoc(self, st, names, loop_mod_terms, entry_heap):
        for n in sorted(names):
            if n in st.env and isinstance(st.env[n], Val):
                if isinstance(st.env[n].ty, TGraph) and n not in getattr(self, '_rebound_now', set()):
                    continue      # a graph reference that is only written through (heap write), never re-bound
                nv = fresh(st.env[n].ty, n)
                st.env[n] = nv
                st.assume(*ops.wf_axioms(nv))
                if isinstance(nv.ty, TGraph):
                    st.assume(nv.t >= 0)
            elif n in st.env:
                raise Unsupported('loop assigns pseudo-value %s' % n)
            elif n in self.c.locals:
                nv = fresh(parse_type(self.c.locals[n]), n)
                st.env[n] = nv
                st.assume(*ops.wf_axioms(nv))
        if loop_mod_terms is not None:
            self._havoc_heap(st, loop_mod_terms, entry_heap)

    def _havoc_heap(self, st, mod_terms, before, fresh_from=None):
        """Replace the heap by an arbitrary one that agrees with `before` on every graph outside the frame."""
        new = Heap(tag=fresh_name('H'), parent=before)
        g = z3.Int(fresh_name('fg'))
        old_next = before.get('next_gid')
        fresh_from = fresh_from if fresh_from is not None else old_next
        # every component the frame allows to change (for some graph) gets a fresh value; all others stay shared
        touched_now = [c for c in before.components() if any(cs is None or c in cs for m, cs in mod_terms)]
        for comp in touched_now:
            new.c[comp] = z3.Const('%s.%s' % (new.tag, comp), new.sort_of(comp))
        new.c['next_gid'] = z3.Const('%s.next_gid' % new.tag, z3.IntSort())
        for comp in touched_now:
            may_change = [m for m, cs in mod_terms if cs is None or comp in cs]
            outside = z3.And(g < fresh_from, *[(z3.Not(m(g)) if callable(m) else g != m) for m in may_change])
            st.assume(z3.ForAll([g], z3.Implies(outside, new.get(comp)[g] == before.get(comp)[g]),
                                patterns=[new.get(comp)[g]]))
        st.assume(new.get('next_gid') >= old_next)
        st.assume(*new.wf_refs())
        st.assume(*self.bonding_invariant(st, new))
        st.assume(*self.fragid_invariant(new))
        # the graphs that may have changed are still well-formed graphs (data-structure invariant of the models)
        if self.c.wf_all_graphs:
            st.assume(*new.wf_all())
        for m, cs in mod_terms:
            if not callable(m) and (cs is None or cs & {'nodes', 'hasn', 'nidx', 'hase', 'elist', 'eidx'} or any(c.startswith('e') for c in cs)):
                st.assume(*new.wf_graph(m))
        st.heap = new

    def loop_spec(self, s):
        k = self.loop_ordinals[id(s)]
        spec = self.c.loops.get(k)
        return k, spec

    def st_For(self, s, st):
        if s.orelse:
            raise Unsupported('for/else')
        k, spec = self.loop_spec(s)
        it = self.ev(s.iter, st)
        items = None
        if isinstance(it, Val) and isinstance(it.ty, TTuple):
            items = [Val(e, it.ty.field(it.t, j)) for j, e in enumerate(it.ty.elems)]
        elif type(it).__name__ == 'PyList':
            items = list(it.items)
        if items is not None and spec is None:
            # a loop over a fixed, statically known number of items is unrolled (no invariant needed)
            live, done = [st], []
            for item in items:
                nxt = []
                for x in live:
                    self.assign(s.target, item, x, s)
                    for y in self.exec_block(s.body, [x]):
                        if y.flow in (None, 'continue'):
                            y.flow = None
                            nxt.append(y)
                        elif y.flow == 'break':
                            y.flow = None
                            done.append(y)
                        else:
                            done.append(y)
                live = nxt
            return live + done
        seq = self.models.as_sequence(self, st, it, s.iter)
        if spec is not None and spec.over is not None:
            src = ast.unparse(s.iter)
            if ''.join(spec.over.split()) != ''.join(src.split()):
                raise StaleContract('loop %d iterates over %r, contract written for %r' % (k, src, spec.over))
        if spec is not None and spec.kind == 'while':
            raise StaleContract('loop %d is a for loop, contract expects while' % k)
        ghost = '_i%d' % k
        inv = spec.invariant if spec else []
        for gname in self.c.ghosts:
            st.env['_e%d_%s' % (k, gname)] = st.env[gname]      # value of each ghost at this activation's entry
        # the container this activation iterates over, under a name of its own (`_itK`): the code may re-bind the variable it came from
        base_expr = s.iter
        if isinstance(base_expr, ast.Call) and isinstance(base_expr.func, ast.Attribute) and base_expr.func.attr in ('items', 'keys', 'values') \
                and not base_expr.args:
            base_expr = base_expr.func.value
        try:
            base_val = self.ev(base_expr, st)
            if isinstance(base_val, Val):
                st.env['_it%d' % k] = base_val
        except Unsupported:
            pass
        # 1. invariant on entry
        st.env[ghost] = Val(TInt, z3.IntVal(0))
        for j, e in enumerate(inv):
            self.oblige(st, 'inv-init', self.spec_bool(e, st, self.entry), s, 'L%d.%d' % (k, j), detail=e)
        # 2. arbitrary iteration
        names = self._assigned_names(s.body)
        rb = set(self._rebound)
        names = names | self._assigned_names([ast.Assign(targets=[s.target], value=ast.Constant(0))])
        self._rebound_now = rb | set(self._rebound)
        mods = self._loop_mods(spec, st) if self._touches_heap(s.body) else None
        head = st.copy()
        self._havoc(head, names, mods, st.heap)
        i = z3.Int(fresh_name(ghost))
        head.env[ghost] = Val(TInt, i)
        head.assume(0 <= i, i <= seq.length)
        for e in inv:
            head.assume(self.spec_bool(e, head, self.entry))
        # 2a. one more iteration
        body = head.copy()
        body.assume(i < seq.length)
        if spec is not None and spec.modifies is not None and mods is not None:
            body.writable = self._writable_pred(mods, st.heap.get('next_gid'))
        self.assign(s.target, seq.getter(i), body, s)
        for j, lm in enumerate(spec.pre_lemmas if spec else []):
            goal = self.spec_bool(lm, body, self.entry)
            self.oblige(body, 'lemma', goal, s, 'L%d.pre%d' % (k, j), detail=lm)
            body.assume(goal)
        outs = []
        after_loop = []
        for x in self.exec_block(s.body, [body]):
            if x.flow in (None, 'continue'):
                x.flow = None
                for h in (spec.hints if spec else []):
                    self.spec_expr(h, x, self.entry)      # seeds ground instances of opaque spec functions
                for j, lm in enumerate(spec.lemmas if spec else []):
                    try:
                        goal = self.spec_bool(lm, x, self.entry)
                    except Unsupported as e:
                        if 'unknown name' in str(e):
                            continue          # the lemma talks about a local this path never bound (e.g. an early `continue`)
                        raise
                    self.oblige(x, 'lemma', goal, s, 'L%d.lemma%d' % (k, j), detail=lm)
                    x.assume(goal)
                x.env[ghost] = Val(TInt, i + 1)
                for j, e in enumerate(inv):
                    self.oblige(x, 'inv-preserve', self.spec_bool(e, x, self.entry), s, 'L%d.%d' % (k, j), detail=e)
            elif x.flow == 'break':
                x.flow = None
                x.writable = st.writable
                after_loop.append(x)
            else:
                outs.append(x)
        # 2b. exit
        ex = head.copy()
        ex.assume(i == seq.length)
        ex.writable = st.writable
        for j, lm in enumerate(spec.exit_lemmas if spec else []):
            goal = self.spec_bool(lm, ex, self.entry)
            self.oblige(ex, 'lemma', goal, s, 'L%d.exit%d' % (k, j), detail=lm)
            ex.assume(goal)
        after_loop.append(ex)
        return outs + after_loop

    def _loop_mods(self, spec, st):
        if spec is not None and spec.modifies is not None:
            return self.parse_mods(spec.modifies, st, self.entry)
        return list(self.mod_terms)

    def st_While(self, s, st):
        if s.orelse:
            raise Unsupported('while/else')
        k, spec = self.loop_spec(s)
        if spec is not None and spec.kind == 'for':
            raise StaleContract('loop %d is a while loop, contract expects for' % k)
        if spec is not None and spec.over is not None:
            src = ast.unparse(s.test)
            if ''.join(spec.over.split()) != ''.join(src.split()):
                raise StaleContract('loop %d tests %r, contract written for %r' % (k, src, spec.over))
        inv = spec.invariant if spec else []
        ghost = '_i%d' % k
        st.env[ghost] = Val(TInt, z3.IntVal(0))
        for j, e in enumerate(inv):
            self.oblige(st, 'inv-init', self.spec_bool(e, st, self.entry), s, 'L%d.%d' % (k, j), detail=e)
        names = self._assigned_names(s.body)
        self._rebound_now = set(self._rebound)
        mods = self._loop_mods(spec, st) if self._touches_heap(s.body) else None
        head = st.copy()
        self._havoc(head, names, mods, st.heap)
        i = z3.Int(fresh_name(ghost))
        head.env[ghost] = Val(TInt, i)
        head.assume(0 <= i)
        for e in inv:
            head.assume(self.spec_bool(e, head, self.entry))
        cond = self.truth(self.ev(s.test, head), head)
        body = head.copy()
        body.assume(cond)
        outs, after_loop = [], []
        for x in self.exec_block(s.body, [body]):
            if x.flow in (None, 'continue'):
                x.flow = None
                x.env[ghost] = Val(TInt, i + 1)
                for j, e in enumerate(inv):
                    self.oblige(x, 'inv-preserve', self.spec_bool(e, x, self.entry), s, 'L%d.%d' % (k, j), detail=e)
            elif x.flow == 'break':
                x.flow = None
                after_loop.append(x)
            else:
                outs.append(x)
        ex = head.copy()
        ex.assume(z3.Not(cond))
        after_loop.append(ex)
        return outs + after_loop

    # ------------------------------------------------------------------ assignment
    def assign(self, tgt, v, st, node):
        if isinstance(tgt, ast.Name):
            st.env[tgt.id] = v
            return
        if isinstance(tgt, (ast.Tuple, ast.List)):
            if any(isinstance(e, ast.Starred) for e in tgt.elts):
                raise Unsupported('starred assignment')
            parts = self.models.unpack(self, st, v, len(tgt.elts), node)
            for e, p in zip(tgt.elts, parts):
                self.assign(e, p, st, node)
            return
        if isinstance(tgt, ast.Attribute):
            if isinstance(tgt.value, ast.Name) and tgt.value.id == 'self':
                st.env['self.' + tgt.attr] = v
                return
            raise Unsupported('attribute assignment on non-self')
        if isinstance(tgt, ast.Subscript):
            base = self.ev(tgt.value, st)
            key = self.ev(tgt.slice, st)
            new_base = self.models.set_item(self, st, base, key, v, tgt)
            if new_base is not None:
                self.write_back(tgt.value, new_base, st, node)
            return
        raise Unsupported('assignment target %s' % type(tgt).__name__)

    def write_back(self, target_expr, new_val, st, node):
        """After an in-place update of a value-semantics container, store the new value where it came from."""
        if isinstance(new_val, Val) and new_val.loc is not None:
            new_val.loc(st, new_val)
            return
        if isinstance(target_expr, ast.Name):
            st.env[target_expr.id] = new_val
        elif isinstance(target_expr, ast.Attribute) and isinstance(target_expr.value, ast.Name) and target_expr.value.id == 'self':
            st.env['self.' + target_expr.attr] = new_val
        elif isinstance(target_expr, ast.Subscript):
            self.assign(target_expr, new_val, st, node)
        else:
            raise Unsupported('cannot write back through %s' % ast.unparse(target_expr))

    # ------------------------------------------------------------------ right-hand sides that may raise (calls)
    def eval_rhs(self, e, st):
        """Yield (state, value) pairs; only a call at statement level may fork into a raising path."""
        if isinstance(e, ast.Call):
            return self.call_stmt(e, st)
        if isinstance(e, ast.Subscript) and isinstance(e.value, ast.Call) and not isinstance(e.slice, ast.Slice):
            outs = []
            for x, v in self.call_stmt(e.value, st):
                if x.flow is None:
                    key = self.ev(e.slice, x)
                    v = self.models.get_item(self, x, v, key, e, False)
                outs.append((x, v))
            return outs
        return [(st, self.ev(e, st))]

    def call_stmt(self, call, st):
        return self.models.call(self, st, call, allow_raise=True)

    # ------------------------------------------------------------------ expressions
    def ev(self, e, st, spec=False, old=None):
        m = getattr(self, 'ex_' + type(e).__name__, None)
        if m is None:
            raise Unsupported('expression %s' % type(e).__name__)
        ops.CTX.depth = len(self.bound_names)
        v = m(e, st, spec, old)
        if ops.CTX.pending:
            st.assume(*ops.CTX.pending)
            del ops.CTX.pending[:]
        return v

    def ex_Constant(self, e, st, spec, old):
        return lift(e.value)

    def ex_Name(self, e, st, spec, old):
        n = e.id
        if n in st.env:
            return st.env[n]
        if n in ('True', 'False', 'None'):
            return lift({'True': True, 'False': False, 'None': None}[n])
        if n in self.mod.constants:
            return self.models.lift_constant(self, self.mod.constants[n])
        if n in self.mod.imports:
            canon = self.mod.imports[n]
            if ':' in canon:
                return FuncRef(canon)
            return ModuleRef(canon)
        if spec and n in self.spec_funcs:
            return FuncRef('spec:' + n)
        if n in ('LookupError', 'KeyError', 'IndexError', 'ValueError', 'TypeError', 'SyntaxError', 'IOError', 'OSError'):
            return FuncRef('exc:' + n)
        if spec:
            raise Unsupported('unknown name %s in contract text' % n)
        # reading an unbound local is a NameError on every execution of this path
        self.oblige(st, 'no-exc', FALSE, e, 'unbound-name-' + n, detail='name %s is not bound on this path' % n)
        st.assume(FALSE)
        return lift(0)

    def ex_Attribute(self, e, st, spec, old):
        if isinstance(e.value, ast.Name) and e.value.id == 'self' and ('self.' + e.attr) in st.env:
            return st.env['self.' + e.attr]
        base = self.ev(e.value, st, spec, old)
        return self.models.get_attr(self, st, base, e.attr, e, spec)

    def ex_Tuple(self, e, st, spec, old):
        vals = [self.ev(x, st, spec, old) for x in e.elts]
        if all(isinstance(v, Val) for v in vals):
            ty = TTuple(*[v.ty for v in vals])
            return Val(ty, ty.mk(*[v.t for v in vals]))
        raise Unsupported('tuple of pseudo-values')

    def ex_List(self, e, st, spec, old):
        vals = [self.ev(x, st, spec, old) for x in e.elts]
        if not vals:
            return self.models.empty_container(self, st, e, 'list')
        ty = TList(vals[0].ty)
        return ops.list_literal(ty, vals)

    def ex_Dict(self, e, st, spec, old):
        if not e.keys:
            return self.models.empty_container(self, st, e, 'dict')
        raise Unsupported('dict display')

    def ex_BoolOp(self, e, st, spec, old):
        # Python and/or return operands; we support them where the result is used as a truth value
        # or where all operands have the same static type.
        vals = []
        guard_st = st
        conds = []
        for k, x in enumerate(e.values):
            sub = guard_st.copy() if k else guard_st
            v = self.ev_guarded(x, st, conds, spec, old)
            vals.append(v)
            t = ops.truthy(v)
            conds.append(t if isinstance(e.op, ast.And) else z3.Not(t))
        if all(isinstance(v, Val) and v.ty == vals[0].ty for v in vals) and vals[0].ty is not TBool:
            out = vals[-1].t
            for v in reversed(vals[:-1]):
                t = ops.truthy(v)
                out = z3.If(t, out, v.t) if isinstance(e.op, ast.And) else z3.If(t, v.t, out)
            return Val(vals[0].ty, out)
        ts = [ops.truthy(v) for v in vals]
        return Val(TBool, z3.And(*ts) if isinstance(e.op, ast.And) else z3.Or(*ts))

    def ev_guarded(self, x, st, conds, spec, old):
        """Evaluate x under the extra guards `conds` (short-circuit): obligations get the guards as hypotheses."""
        if not conds or spec:
            return self.ev(x, st, spec, old)
        sub = st.copy()
        sub.assume(*conds)
        n0 = len(sub.pc)
        v = self.ev(x, sub, spec, old)
        # facts learned under the guard (axioms of fresh symbols) are kept as implications
        for extra in sub.pc[n0:]:
            st.assume(z3.Implies(z3.And(*conds), extra))
        st.heap = sub.heap
        return v

    def ex_UnaryOp(self, e, st, spec, old):
        v = self.ev(e.operand, st, spec, old)
        if isinstance(e.op, ast.Not):
            return Val(TBool, z3.Not(self.truth(v, st)))
        if isinstance(e.op, ast.USub):
            return Val(v.ty if v.ty in (TInt, TReal) else TInt, -(v.t if v.ty in (TInt, TReal) else ops.to_int(v)))
        if isinstance(e.op, ast.UAdd):
            return v
        raise Unsupported('unary op')

    def ex_BinOp(self, e, st, spec, old):
        a = self.ev(e.left, st, spec, old)
        b = self.ev(e.right, st, spec, old)
        return self.binop(type(e.op).__name__, a, b, st, e, spec)

    def binop(self, opname, a, b, st, node, spec=False):
        a, b = (lift(a) if not isinstance(a, (AttrRec,)) else a), lift(b)
        if opname == 'Add':
            if a.ty is TStr and b.ty is TStr:
                return Val(TStr, z3.Concat(a.t, b.t))
            if isinstance(a.ty, TList) and isinstance(b.ty, TList):
                return ops.list_concat(a, ops.coerce(b, a.ty) if a.ty != b.ty else b)
        if opname == 'Div' and isinstance(a.ty, TList) and a.ty.elem in (TReal, TInt) and ops.is_num(b):
            # numpy: array / scalar, elementwise.  Division by zero yields nan/inf entries (no exception): recorded as a
            # side condition that random.choices turns into its ValueError.
            i = z3.Int(fresh_name('dv'))
            den = ops.to_real(b)
            elem = ops.list_arr(a)[i]
            if a.ty.elem is TInt:
                elem = z3.ToReal(elem)
            ty = TList(TReal)
            out = Val(ty, ty.mk(ops.mk_array(i, elem / den, 'npdiv'), ops.list_len(a)))
            out.finite_cond = den != 0
            return out
        if opname == 'Mult' and a.ty is TStr and b.ty is TInt:
            raise Unsupported('string repetition')
        sym = {'Add': '+', 'Sub': '-', 'Mult': '*', 'Div': '/', 'FloorDiv': '//', 'Mod': '%'}.get(opname)
        if sym and (isinstance(a.ty, TOpt) or isinstance(b.ty, TOpt)):
            a, sa = ops.unwrap_opt(a)
            b, sb = ops.unwrap_opt(b)
            self.safety(st, z3.And(sa, sb), node, 'arith-on-None', spec)
        if sym and ops.is_num(a) and ops.is_num(b):
            v, safe = ops.arith(sym, a, b)
            self.safety(st, safe, node, 'arith-' + opname, spec)
            return v
        if opname == 'Pow' and ops.is_num(a) and b.ty is TInt:
            bs = z3.simplify(b.t)
            if z3.is_int_value(bs) and 0 <= bs.as_long() <= 4:
                out = lift(1)
                for _ in range(bs.as_long()):
                    out, _s = ops.arith('*', out, a)
                return out
        raise Unsupported('binary %s on %s, %s' % (opname, a.ty, b.ty))

    def ex_Compare(self, e, st, spec, old):
        left = self.ev(e.left, st, spec, old)
        parts = []
        for op, right_e in zip(e.ops, e.comparators):
            right = self.ev(right_e, st, spec, old)
            parts.append(self.compare_op(op, left, right, st, e, spec))
            left = right
        if len(parts) == 1 and isinstance(parts[0], Val):
            return parts[0]           # elementwise numpy comparison: a boolean array
        return Val(TBool, z3.And(*parts) if len(parts) > 1 else parts[0])

    def compare_op(self, op, a, b, st, node, spec):
        name = type(op).__name__
        if name in ('In', 'NotIn'):
            r = self.models.contains(self, st, b, a, node, spec)
            return r if name == 'In' else z3.Not(r)
        if name in ('Is', 'IsNot'):
            a, b = lift(a), lift(b)
            if b.ty is TNone or a.ty is TNone:
                r = ops.equal(a, b)
            elif isinstance(a.ty, TGraph) and isinstance(b.ty, TGraph):
                r = a.t == b.t
            else:
                raise Unsupported('is on non-None')
            return r if name == 'Is' else z3.Not(r)
        sym = {'Eq': '==', 'NotEq': '!=', 'Lt': '<', 'LtE': '<=', 'Gt': '>', 'GtE': '>='}[name]
        if isinstance(a, Val) and a.np and isinstance(a.ty, TList) and isinstance(lift(b), Val) and not isinstance(lift(b).ty, TList):
            # numpy: array <op> scalar is elementwise and yields a boolean array
            i = z3.Int(fresh_name('npc'))
            elem = Val(a.ty.elem, ops.list_arr(a)[i])
            ops.CTX.depth = len(self.bound_names)
            ty = TList(TBool)
            out = Val(ty, ty.mk(ops.mk_array(i, ops.compare(sym, elem, lift(b)), 'npcmp'), ops.list_len(a)))
            out.np = True
            return out
        return ops.compare(sym, a, b)

    def ex_IfExp(self, e, st, spec, old):
        c = ops.truthy(self.ev(e.test, st, spec, old))
        a = self.ev_guarded(e.body, st, [c], spec, old)
        b = self.ev_guarded(e.orelse, st, [z3.Not(c)], spec, old)
        a, b = lift(a), lift(b)
        if a.ty != b.ty:
            if ops.is_num(a) and ops.is_num(b):
                return Val(TReal, z3.If(c, ops.to_real(a), ops.to_real(b)))
            if b.ty is TNone or a.ty is TNone:
                inner = a.ty if b.ty is TNone else b.ty
                ot = TOpt(inner)
                return Val(ot, z3.If(c, ops.coerce(a, ot).t, ops.coerce(b, ot).t))
            raise Unsupported('conditional expression with branches of types %s / %s' % (a.ty, b.ty))
        return Val(a.ty, z3.If(c, a.t, b.t))

    def ex_Subscript(self, e, st, spec, old):
        base = self.ev(e.value, st, spec, old)
        if isinstance(e.slice, ast.Slice):
            lo = self.ev(e.slice.lower, st, spec, old) if e.slice.lower else None
            hi = self.ev(e.slice.upper, st, spec, old) if e.slice.upper else None
            if e.slice.step is not None:
                raise Unsupported('slice step')
            return self.models.get_slice(self, st, base, lo, hi, e, spec)
        key = self.ev(e.slice, st, spec, old)
        return self.models.get_item(self, st, base, key, e, spec)

    def ex_Call(self, e, st, spec, old):
        if spec:
            return self.models.spec_call(self, st, e, old)
        outs = self.models.call(self, st, e, allow_raise=False)
        assert len(outs) == 1
        return outs[0][1]

    def ex_JoinedStr(self, e, st, spec, old):
        # f-string: only used for messages; an opaque string
        return fresh(TStr, 'fstr')

    def ex_ListComp(self, e, st, spec, old):
        return self.models.comprehension(self, st, e, spec, old, kind='list')

    def ex_GeneratorExp(self, e, st, spec, old):
        return self.models.comprehension(self, st, e, spec, old, kind='gen')

    def ex_DictComp(self, e, st, spec, old):
        raise Unsupported('dict comprehension')

    def ex_Starred(self, e, st, spec, old):
        raise Unsupported('starred expression')

    def ex_Lambda(self, e, st, spec, old):
        raise Unsupported('lambda')


class StaleContract(Exception):
    """The contract's loop anchoring no longer matches the code: undecided, never a violation."""
