"""
Driver of the deductive tier: extract -> symbolic execution -> obligations -> discharge (z3, then cvc5)
-> refutation handling (counterexample search + replay on the real code) -> report.
"""
import importlib
import json
import multiprocessing as mp
import os
import subprocess
import sys
import tempfile
import time
import traceback

import z3

from . import contract as C
from . import extract
from .engine import FunctionRun, StaleContract, exc_matches as engine_exc_matches
from .ops import Unsupported

# Budgets are RESOURCE limits (deterministic: the verdict does not depend on machine load); the wall-clock values
# are only backstops.  ~400k z3 rlimit units per second on an idle core of this sandbox.
Z3_RLIMIT = int(os.environ.get('PYVC_Z3_RLIMIT', '6000000'))
Z3_TIMEOUT_MS = int(os.environ.get('PYVC_Z3_TIMEOUT_MS', '900000'))
CVC5_RLIMIT = int(os.environ.get('PYVC_CVC5_RLIMIT', '400000'))
CVC5_TIMEOUT_MS = int(os.environ.get('PYVC_CVC5_TIMEOUT_MS', '900000'))
# Solver results are memoised by the SHA-256 of the exact query text (+ solver versions and budgets) under .cache/smt.
# The verification conditions themselves are regenerated from $REPO's working tree on every run; a changed body gives a
# different query text and is solved afresh.  .cache/smt is the run-time store (not committed); memo/smt_memo.json.gz is a
# committed read-only seed with the verdicts of the obligations of the unchanged tree (tools/mkmemo.py), so that the quick tier
# of a fresh restore re-solves only what differs.  The thorough tier (and PYVC_NO_CACHE=1) ignores both and solves everything.
_ROOT = os.path.dirname(os.path.dirname(os.path.abspath(__file__)))
CACHE_DIR = os.path.join(_ROOT, '.cache', 'smt')
SEED_PATH = os.path.join(_ROOT, 'memo', 'smt_memo.json.gz')
USED_LOG = os.path.join(_ROOT, '.cache', 'used_keys.log')
USE_CACHE = os.environ.get('PYVC_NO_CACHE', '') == ''
_SEED = None


def _seed():
    global _SEED
    if _SEED is None:
        try:
            import gzip
            with gzip.open(SEED_PATH, 'rt') as fh:
                _SEED = json.load(fh)
        except Exception:  # noqa
            _SEED = {}
    return _SEED


def _log_used(key):
    if os.environ.get('PYVC_LOG_USED'):
        try:
            with open(USED_LOG, 'a') as fh:
                fh.write(key + '\n')
        except Exception:  # noqa
            pass
CVC5_BIN = '/usr/bin/cvc5'

_MODULE_CACHE = {}


def load_contracts():
    importlib.import_module('contracts')
    return C.REGISTRY


def module_loader(repo):
    def load(modname):
        key = (repo, modname)
        if key not in _MODULE_CACHE:
            _MODULE_CACHE[key] = extract.ModuleInfo(repo, modname)
        return _MODULE_CACHE[key]
    return load


# ------------------------------------------------------------------------------------------------ solving
def _cache_key(smt2, expect):
    import hashlib
    h = hashlib.sha256()
    h.update(('%s|%s|%s|%d|%d|%s\n' % (z3.get_version_string(), CVC5_BIN, expect, Z3_RLIMIT, CVC5_RLIMIT, 'v3')).encode())
    h.update(smt2.encode())
    return h.hexdigest()


def _solve_one(job):
    """Worker: memoised wrapper around the solver attempts."""
    idx, smt2, expect, weakened = job
    if not USE_CACHE:
        return _solve_one_uncached(job)
    key = _cache_key(smt2, expect)
    _log_used(key)
    path = os.path.join(CACHE_DIR, key[:2], key + '.json')
    try:
        with open(path) as fh:
            d = json.load(fh)
        return idx, d['verdict'], d['backend'] + '+memo', 0.0, d.get('reason', '')
    except Exception:  # noqa
        pass
    d = _seed().get(key)
    if d is not None:
        return idx, d[0], d[1] + '+memo', 0.0, ''
    out = _solve_one_uncached(job)
    if out[1] in ('sat', 'unsat'):
        try:
            os.makedirs(os.path.dirname(path), exist_ok=True)
            tmp = path + '.%d.tmp' % os.getpid()
            with open(tmp, 'w') as fh:
                json.dump({'verdict': out[1], 'backend': out[2], 'secs': out[3], 'reason': out[4]}, fh)
            os.replace(tmp, path)
        except Exception:  # noqa
            pass
    return out


def _solve_one_uncached(job):
    """Worker: returns (index, verdict, backend, seconds, reason)."""
    idx, smt2, expect, weakened = job
    t0 = time.time()
    verdict, backend, reason = 'unknown', 'z3', ''
    for label, text, share in weakened or []:
        # attempts on SUBSETS of the hypotheses (most recent ones / relevance-filtered): sound for `unsat`, any other
        # answer is discarded and the full query below decides
        try:
            ctx = z3.Context()
            s = z3.Solver(ctx=ctx)
            s.set('timeout', Z3_TIMEOUT_MS)
            s.set('rlimit', int(Z3_RLIMIT * share))
            s.from_string(text)
            if str(s.check()) == 'unsat':
                return idx, 'unsat', 'z3-' + label, time.time() - t0, ''
        except Exception:  # noqa
            pass
    try:
        ctx = z3.Context()
        s = z3.Solver(ctx=ctx)
        s.set('timeout', Z3_TIMEOUT_MS)
        s.set('rlimit', Z3_RLIMIT if expect == 'unsat' else 600000)
        s.from_string(smt2)
        r = s.check()
        verdict = str(r)
        if verdict == 'unknown':
            reason = s.reason_unknown()
    except Exception as e:  # noqa
        verdict, reason = 'unknown', 'z3 error: %s' % e
    if verdict == 'unknown' and expect == 'unsat' and os.path.exists(CVC5_BIN):
        try:
            with tempfile.NamedTemporaryFile('w', suffix='.smt2', delete=False) as fh:
                fh.write('(set-logic ALL)\n' + smt2)
                path = fh.name
            try:
                out = subprocess.run([CVC5_BIN, '--strings-exp', '--tlimit=%d' % CVC5_TIMEOUT_MS, '--rlimit=%d' % CVC5_RLIMIT, path],
                                     capture_output=True, text=True, timeout=CVC5_TIMEOUT_MS / 1000.0 + 10)
                first = (out.stdout.strip().splitlines() or [''])[0].strip()
                if first in ('sat', 'unsat'):
                    verdict, backend, reason = first, 'cvc5', ''
                else:
                    reason += ' | cvc5: ' + (first or out.stderr.strip()[:200])
            finally:
                os.unlink(path)
        except Exception as e:  # noqa
            reason += ' | cvc5 error: %s' % e
    return idx, verdict, backend, time.time() - t0, reason


_OBS = []          # obligations of the current discharge() call, inherited by the forked workers


def _weakened_for(ob):
    out = []
    if ob.expect == 'unsat' and len(ob.hyps) > 40:
        try:
            for k, share in ((8, 0.04), (12, 0.05), (16, 0.06), (25, 0.08), (45, 0.12)):
                if k < len(ob.hyps):
                    out.append(('tail%d' % k, ob.smt2(tail=k), share))
            out.append(('filtered', ob.smt2(filtered=True), 0.5))
        except Exception:  # noqa
            pass
    return out


def _solve_job(job):
    """Worker: builds the weakened variants of its obligation itself (from the inherited objects), then solves."""
    idx, smt2, expect = job
    return _solve_one((idx, smt2, expect, _weakened_for(_OBS[idx])))


def _memo_lookup(smt2, expect):
    key = _cache_key(smt2, expect)
    _log_used(key)
    path = os.path.join(CACHE_DIR, key[:2], key + '.json')
    try:
        with open(path) as fh:
            d = json.load(fh)
        return {'verdict': d['verdict'], 'backend': d['backend'] + '+memo', 'secs': 0.0, 'reason': d.get('reason', '')}
    except Exception:  # noqa
        pass
    d = _seed().get(key)
    if d is not None:
        return {'verdict': d[0], 'backend': d[1] + '+memo', 'secs': 0.0, 'reason': ''}
    return None


def discharge(obligations, nproc=None, use_cache=True):
    global USE_CACHE, _OBS
    USE_CACHE = USE_CACHE and use_cache          # inherited by the forked workers
    _seed()
    results = [None] * len(obligations)
    jobs = []
    for i, ob in enumerate(obligations):
        text = ob.smt2()
        if USE_CACHE:
            hit = _memo_lookup(text, ob.expect)
            if hit is not None:
                results[i] = hit
                continue
        jobs.append((i, text, ob.expect))
    if not jobs:
        return results
    nproc = nproc or min(16, os.cpu_count() or 4)
    _OBS = obligations
    ctx = mp.get_context('fork')
    with ctx.Pool(min(nproc, len(jobs))) as pool:
        for idx, verdict, backend, secs, reason in pool.imap_unordered(_solve_job, jobs, chunksize=1):
            results[idx] = {'verdict': verdict, 'backend': backend, 'secs': secs, 'reason': reason}
    _OBS = []
    return results


# ------------------------------------------------------------------------------------------------ verification
def verify_contract(con, repo, models, spec_funcs):
    """Generate the obligations of one contract from the current source.  Returns a dict."""
    from . import types as _types
    _types._COUNTER[0] = 0        # names are per contract: the query text (and its memo key) does not depend on what ran before
    load = module_loader(repo)
    info = {'target': con.target, 'variant': con.variant, 'status': 'ok', 'obligations': [], 'detail': '',
            'dropped': [], 'assumptions': [], 'callees': [], 'trusted_callees': []}
    try:
        mod = load(con.module)
        fn = mod.function(con.qualname)
    except (KeyError, FileNotFoundError, SyntaxError) as e:
        info['status'] = 'missing'
        info['detail'] = 'function not found in the working tree: %s' % e
        return info
    info['source_sha'] = extract.source_hash(mod.segment(fn) or '')
    info['lines'] = '%s:%d-%d' % (os.path.relpath(mod.path, repo), fn.lineno, fn.end_lineno)
    try:
        run = FunctionRun(mod, con, load, models, spec_funcs)
        obs = run.run()
        info['obligations'] = obs
        info['dropped'] = run.dropped
        info['assumptions'] = sorted(run.assumptions)
        info['callees'] = sorted(run.callees_used)
        info['trusted_callees'] = sorted(run.trusted_used)
    except StaleContract as e:
        info['status'] = 'stale'
        info['detail'] = str(e)
    except Unsupported as e:
        info['status'] = 'out-of-subset'
        info['detail'] = str(e)
    except RecursionError as e:
        info['status'] = 'out-of-subset'
        info['detail'] = 'recursion limit: %s' % e
    return info


TRUSTED_BASE_COMMON = [
    'pyvc itself (symbolic executor, encoding of the Python subset, models in pyvc/models.py) — guarded by seeded-fault self-tests and the native/SMT cross-check of contract text, not verified',
    'z3 5.1 / cvc5 1.0.3 soundness',
    'Python ints as mathematical integers (exact); floats and numpy scalars as mathematical reals (no rounding, NaN, inf)',
    'termination is not proved: all results are partial correctness',
    'value semantics for lists / dicts stored in graphs and passed as parameters (aliasing covered only by frame obligations on graphs and by the bounded tier)',
]


def verify_targets(targets, repo, tier='quick', property_id=None, native=True):
    from . import models, speclib
    load_contracts()
    t0 = time.time()
    infos = []
    for tgt in targets:
        cons = C.variants(tgt)
        if not cons:
            infos.append({'target': tgt, 'variant': '', 'status': 'no-contract', 'obligations': [], 'detail': 'no contract registered',
                          'dropped': [], 'assumptions': [], 'callees': [], 'trusted_callees': []})
        for con in cons:
            if con.trusted:
                continue
            try:
                infos.append(verify_contract(con, repo, models, speclib.SPEC_FUNCS))
            except Exception:
                infos.append({'target': con.target, 'variant': con.variant, 'status': 'checker-error', 'obligations': [],
                              'detail': traceback.format_exc()[-1500:], 'dropped': [], 'assumptions': [], 'callees': [], 'trusted_callees': []})
    all_obs = [ob for inf in infos for ob in inf['obligations']]
    t_gen = time.time() - t0
    results = discharge(all_obs, use_cache=(tier != 'thorough'))
    from . import monitor
    witnesses = {}
    if native:
        try:
            # callees under contract are wrapped too: a call outside their precondition from a function whose own precondition
            # holds is reported as a violation of that function's call-pre obligation
            monitor.install_all()
        except Exception:  # noqa
            pass
    for inf in infos:
        con = C.lookup(inf['target'], inf['variant'])
        if con is not None and inf['status'] in ('ok', 'stale', 'out-of-subset') and native:
            try:
                witnesses[(inf['target'], inf['variant'])] = monitor.witness_run(con, 1500 if tier == 'quick' else 20000)
            except Exception:
                witnesses[(inf['target'], inf['variant'])] = {'error': traceback.format_exc()[-600:], 'examples': 0, 'pre_ok': 0,
                                                             'returned': 0, 'raised': {}, 'violations': []}
    report = {'obligations': 0, 'discharged': 0, 'undecided': 0, 'refuted': [], 'functions': [], 'backends': {},
              'solver_s': 0.0, 'samples': [], 'covers': {'total': 0, 'reachable': 0, 'vacuous': []}, 'out_of_subset': [], 'stale': [],
              'dropped': [], 'assumptions': list(TRUSTED_BASE_COMMON), 'trusted_base': [], 'undecided_list': [],
              'checker_cmd': './check %s --tier %s   (pyvc: ast -> VC -> z3 %s in-process, then %s --strings-exp on unknown)' % (
                  property_id or '<id>', tier, z3.get_version_string(), CVC5_BIN),
              'generation_s': round(t_gen, 2)}
    k = 0
    trusted = set()
    for inf in infos:
        f = {'target': inf['target'] + (('#' + inf['variant']) if inf['variant'] else ''), 'status': inf['status'],
             'source_sha256_16': inf.get('source_sha'), 'where': inf.get('lines'), 'obligations': 0, 'discharged': 0,
             'callees_by_contract': inf['callees']}
        if inf['status'] in ('out-of-subset', 'missing', 'no-contract', 'checker-error'):
            report['out_of_subset'].append('%s: %s (%s)' % (f['target'], inf['status'], inf['detail']))
        if inf['status'] == 'stale':
            report['stale'].append('%s: %s' % (f['target'], inf['detail']))
        report['dropped'] += ['%s: %s' % (f['target'], d) for d in inf['dropped']]
        for a in inf['assumptions']:
            if a not in report['assumptions']:
                report['assumptions'].append(a)
        trusted.update(inf['trusted_callees'])
        for ob in inf['obligations']:
            res = results[k]
            k += 1
            report['solver_s'] += res['secs']
            if ob.expect == 'sat':
                report['covers']['total'] += 1
                w = witnesses.get((inf['target'], inf['variant']), {})
                by_witness = False
                if ob.label == 'requires-satisfiable':
                    by_witness = w.get('pre_ok', 0) > 0
                elif ob.label.startswith('raise-path-'):
                    by_witness = any(engine_exc_matches(r, ob.label[len('raise-path-'):]) for r in w.get('raised', {}))
                if by_witness:
                    report['covers']['reachable'] += 1
                    report['covers'].setdefault('by_concrete_witness', 0)
                    report['covers']['by_concrete_witness'] += 1
                elif res['verdict'] == 'sat':
                    report['covers']['reachable'] += 1
                elif res['verdict'] == 'unsat' and not ob.label.startswith('requires-satisfiable'):
                    # an allowed exception that no path can raise: harmless (the contract merely permits it)
                    report['covers'].setdefault('unreachable_raise_paths', []).append(ob.name)
                elif res['verdict'] == 'unsat':
                    report['covers']['vacuous'].append(ob.name)
                    report['refuted'].append({'obligation': ob.name, 'kind': 'vacuity', 'line': ob.line,
                                              'detail': 'cover check is unreachable: contract or path condition is contradictory',
                                              'solver': res, 'replay_confirmed': False, 'target': inf['target']})
                continue
            report['obligations'] += 1
            f['obligations'] += 1
            if res['verdict'] == 'unsat':
                report['discharged'] += 1
                f['discharged'] += 1
                report['backends'][res['backend']] = report['backends'].get(res['backend'], 0) + 1
                if len(report['samples']) < 8 and ob.kind in ('post', 'inv-preserve', 'call-pre', 'exc-post'):
                    report['samples'].append({'obligation': ob.name, 'clause': ob.detail, 'line': ob.line,
                                              'verdict': 'unsat', 'backend': res['backend'], 'secs': round(res['secs'], 3)})
            elif res['verdict'] == 'sat':
                rec = {'obligation': ob.name, 'kind': ob.kind, 'line': ob.line, 'detail': ob.detail, 'solver': res,
                       'target': inf['target'], 'variant': inf['variant'], 'replay_confirmed': False}
                report['refuted'].append(rec)
            else:
                report['undecided'] += 1
                report['undecided_list'].append({'obligation': ob.name, 'reason': res['reason'][:200]})
        _c = C.lookup(inf['target'], inf['variant'])
        if _c is not None and getattr(_c, 'native_ensures', None):
            f['clauses_checked_at_run_time_only'] = len(_c.native_ensures)     # never counted as proved
        report['functions'].append(f)
    # native cross-check: the same contract text evaluated on the real code over the concrete examples
    cc = {'examples': 0, 'precondition_true': 0, 'native_violations': 0}
    for (tgt, var), w in witnesses.items():
        cc['examples'] += w.get('examples', 0)
        cc['precondition_true'] += w.get('pre_ok', 0)
        cc['native_violations'] += len(w.get('violations', []))
        already = any(r['target'] == tgt and r.get('replay_confirmed') for r in report['refuted'])
        for v in w.get('violations', []):
            if not any(r['target'] == tgt for r in report['refuted']):
                report['refuted'].append({'obligation': tgt + '/native-contract-check', 'kind': 'native', 'line': 0,
                                          'detail': 'contract violated natively on a concrete example although no obligation was refuted',
                                          'solver': {}, 'target': tgt, 'variant': var, 'replay_confirmed': True,
                                          'input': v['input'], 'violated': v['violated'], 'observed': v['observed']})
                break
    report['cross_check'] = cc
    # counterexample search + replay for refuted obligations
    if report['refuted'] and native:
        for rec in report['refuted']:
            if rec['kind'] in ('vacuity', 'native'):
                continue
            try:
                monitor.find_failing_input(rec, repo)
            except Exception:
                rec['replay_error'] = traceback.format_exc()[-800:]
    for t in sorted(trusted):
        con = C.lookup(t)
        report['trusted_base'].append('%s (assumed contract%s)' % (t, ': ' + con.notes if con and con.notes else ''))
    report['trusted_base'] += TRUSTED_BASE_COMMON
    n_memo = sum(v for k, v in report['backends'].items() if k.endswith('+memo'))
    if n_memo:
        report['assumptions'].append(
            'quick tier: %d of %d solver verdicts were looked up under the SHA-256 of the byte-identical query text (memo/smt_memo.json.gz, '
            '.cache/smt) instead of being recomputed; the conditions themselves were regenerated from the working tree; the thorough tier '
            're-solves everything' % (n_memo, report['obligations']))
    report['wall_s'] = time.time() - t0
    return report


def replay_record(rec, repo):
    from . import monitor
    load_contracts()
    ok = monitor.replay(rec, repo)
    print(json.dumps(rec, indent=1, default=str)[:4000])
    if ok:
        print('VIOLATION property=%s replay=<this file>' % rec.get('property'))
        return 1
    print('replay: the recorded input does not violate the contract on the current tree')
    return 0
