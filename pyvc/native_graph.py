"""Native (networkx) implementations of the graph spec helpers usable in contract text."""
import networkx as nx


def nodes(g):
    return list(g.nodes)


def has_node(g, n):
    return n in g.nodes


class Num:
    """Real number (or numpy vector, treated componentwise) with tolerant equality: contract text over reals is
    evaluated natively in floating point, so `==` means equal up to rounding (rtol 1e-9, atol 1e-9)."""
    __slots__ = ('v',)

    def __init__(self, v):
        self.v = v.v if isinstance(v, Num) else v

    @staticmethod
    def _u(x):
        return x.v if isinstance(x, Num) else x

    def __add__(self, o): return Num(self.v + Num._u(o))
    __radd__ = __add__
    def __sub__(self, o): return Num(self.v - Num._u(o))
    def __rsub__(self, o): return Num(Num._u(o) - self.v)
    def __mul__(self, o): return Num(self.v * Num._u(o))
    __rmul__ = __mul__
    def __truediv__(self, o): return Num(self.v / Num._u(o))
    def __rtruediv__(self, o): return Num(Num._u(o) / self.v)
    def __neg__(self): return Num(-self.v)

    def __eq__(self, o):
        import numpy as np
        return bool(np.allclose(self.v, Num._u(o), rtol=1e-9, atol=1e-9))

    def __ne__(self, o): return not self.__eq__(o)
    def __lt__(self, o): return bool(self.v < Num._u(o)) and not self.__eq__(o)
    def __le__(self, o): return bool(self.v <= Num._u(o)) or self.__eq__(o)
    def __gt__(self, o): return bool(self.v > Num._u(o)) and not self.__eq__(o)
    def __ge__(self, o): return bool(self.v >= Num._u(o)) or self.__eq__(o)
    def __hash__(self): return 0
    def __repr__(self): return 'Num(%r)' % (self.v,)


def wrap(v):
    import numpy as np
    if isinstance(v, (float, np.ndarray, np.floating)):
        return Num(v)
    return v


def attr(g, n, k):
    return wrap(g.nodes[n][k])


def has_attr(g, n, k):
    return n in g.nodes and k in g.nodes[n]


def has_edge(g, u, v):
    return g.has_edge(u, v)


def eattr(g, u, v, k):
    return wrap(g.edges[u, v][k])


def has_eattr(g, u, v, k):
    return g.has_edge(u, v) and k in g.edges[u, v]


def n_nodes(g):
    return g.number_of_nodes()


def n_edges(g):
    return g.number_of_edges()


NATIVE = {'nodes': nodes, 'has_node': has_node, 'attr': attr, 'has_attr': has_attr, 'has_edge': has_edge,
          'eattr': eattr, 'has_eattr': has_eattr, 'n_nodes': n_nodes, 'n_edges': n_edges}
