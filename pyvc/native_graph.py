"""Native (networkx) implementations of the graph spec helpers usable in contract text."""
import networkx as nx


def nodes(g):
    return list(g.nodes)


def has_node(g, n):
    return n in g.nodes


def attr(g, n, k):
    return g.nodes[n][k]


def has_attr(g, n, k):
    return n in g.nodes and k in g.nodes[n]


def has_edge(g, u, v):
    return g.has_edge(u, v)


def eattr(g, u, v, k):
    return g.edges[u, v][k]


def has_eattr(g, u, v, k):
    return g.has_edge(u, v) and k in g.edges[u, v]


def n_nodes(g):
    return g.number_of_nodes()


def n_edges(g):
    return g.number_of_edges()


NATIVE = {'nodes': nodes, 'has_node': has_node, 'attr': attr, 'has_attr': has_attr, 'has_edge': has_edge,
          'eattr': eattr, 'has_eattr': has_eattr, 'n_nodes': n_nodes, 'n_edges': n_edges}
