"""
Seeded-fault self-test of the deductive tier (DESIGN §2.8): for every contract a few small,
compiling changes of the real function body are applied to a scratch copy of the tree (outside
/repo and /verif, removed afterwards); each must turn at least one obligation of that function
from discharged into refuted.  A fault that no obligation notices is reported as a weak contract.

    python -m pyvc.selftest [target-substring ...]
"""
import json
import os
import shutil
import subprocess
import sys
import tempfile

HERE = os.path.dirname(os.path.dirname(os.path.abspath(__file__)))

FAULTS = [
    # (target, file, old text, new text, what)
    ('cgsmiles.resolve:compatible', 'cgsmiles/resolve.py',
     "            return left[1:] == right[1:]\n        return False\n    else:",
     "            return left[2:] == right[2:]\n        return False\n    else:", 'label comparison skips a character'),
    ('cgsmiles.resolve:compatible', 'cgsmiles/resolve.py',
     "if left == right and left[0] not in '> <':", "if left[0] == right[0] and left[0] not in '> <':", 'legacy $ ignores the label'),
    ('cgsmiles.resolve:compatible', 'cgsmiles/resolve.py',
     "        if left[0] == right[0] == '$' or left[0] == right[0] == '!':", "        if left[0] == right[0]:", 'non-legacy: < matches <'),
    ('cgsmiles.resolve:match_bonding_descriptors', 'cgsmiles/resolve.py',
     "return ((source_node, target_node), (bond_source, bond_target))", "return ((source_node, target_node), (bond_target, bond_source))",
     'descriptors returned swapped'),
    ('cgsmiles.resolve:match_bonding_descriptors', 'cgsmiles/resolve.py',
     "                for bond_target in bond_targets:", "                for bond_target in bond_targets[1:]:", 'first target descriptor never tried'),
    ('cgsmiles.resolve:match_bonding_descriptors', 'cgsmiles/resolve.py',
     "                    if compatible(bond_source, bond_target, legacy=legacy):", "                    if compatible(bond_source, bond_target):",
     'legacy flag dropped'),
    ('cgsmiles.resolve:MoleculeResolver.edges_from_bonding_descrpt', 'cgsmiles/resolve.py',
     "                node_graph.nodes[edge[1]]['bonding'].remove(bonding[1])\n", "", 'second descriptor not consumed'),
    ('cgsmiles.resolve:MoleculeResolver.edges_from_bonding_descrpt', 'cgsmiles/resolve.py',
     'for _ in range(0, self.meta_graph.edges[(prev_node, node)]["order"]):', 'for _ in range(0, self.meta_graph.edges[(prev_node, node)]["order"] + 1):',
     'one bond too many per base-graph edge'),
    ('cgsmiles.resolve:MoleculeResolver.edges_from_bonding_descrpt', 'cgsmiles/resolve.py',
     "                order = int(bonding[0][-1])\n", "                order = 1\n", 'annotated order ignored'),
    ('cgsmiles.resolve:MoleculeResolver.edges_from_bonding_descrpt', 'cgsmiles/resolve.py',
     "self.molecule.add_edge(edge[0], edge[1], bonding=bonding, order=order)", "self.molecule.add_edge(edge[0], edge[0] + 1, bonding=bonding, order=order)",
     'bond attached to a neighbouring key'),
    ('cgsmiles.resolve:MoleculeResolver.edges_from_bonding_descrpt', 'cgsmiles/resolve.py',
     "                                                              legacy=self.legacy)", "                                                              legacy=True)",
     'matching convention ignored'),
    ('cgsmiles.graph_utils:merge_graphs', 'cgsmiles/graph_utils.py',
     "        new_atom = copy.deepcopy(target_graph.nodes[node])", "        new_atom = target_graph.nodes[node]", 'template attributes not copied (shared and modified)'),
    ('cgsmiles.graph_utils:merge_graphs', 'cgsmiles/graph_utils.py',
     "fragment_offset = max(source_graph.nodes[last_node_idx].get('fragid', [0])) + 1", "fragment_offset = max(source_graph.nodes[last_node_idx].get('fragid', [0]))",
     'membership index not advanced'),
    ('cgsmiles.graph_utils:merge_graphs', 'cgsmiles/graph_utils.py',
     "    for idx, node in enumerate(target_graph.nodes(), start=offset + 1):", "    for idx, node in enumerate(target_graph.nodes(), start=offset + 2):", 'keys leave a gap'),
    ('cgsmiles.graph_utils:merge_graphs', 'cgsmiles/graph_utils.py',
     "            source_graph.add_edge(correspondence[node1], correspondence[node2], **attrs)", "            source_graph.add_edge(correspondence[node1], correspondence[node2])",
     'edge attributes (bond order) not copied'),
    ('cgsmiles.coordinates:forward_map_molecule', 'cgsmiles/coordinates.py',
     "            cg_pos += aa_mol.nodes[aa_node]['position']*weight", "            cg_pos += aa_mol.nodes[aa_node]['position']", 'weights ignored in the numerator'),
    ('cgsmiles.cgsmiles_utils:find_complementary_bonding_descriptor', 'cgsmiles/cgsmiles_utils.py',
     "            if descriptor[0] == '$' and descriptor[-1] == bonding_descriptor[-1]:", "            if descriptor[0] == '$':", 'order digit ignored for $ complements'),
    ('cgsmiles.cgsmiles_utils:find_complementary_bonding_descriptor', 'cgsmiles/cgsmiles_utils.py',
     "        compl = '>' + bonding_descriptor[1:]", "        compl = '>' + bonding_descriptor[2:]", 'label truncated for < complements'),
    ('cgsmiles.sample:_set_bond_order_defaults', 'cgsmiles/sample.py',
     "            if not bond_operator[-1].isdigit():\n                bond_operator += '1'\n            default_list.append(bond_operator)",
     "            if not bond_operator[-1].isdigit():\n                bond_operator += '2'\n            default_list.append(bond_operator)", 'default order 2 in lists'),
    ('cgsmiles.read_cgsmiles:_find_next_character', 'cgsmiles/read_cgsmiles.py',
     "            return idx+start", "            return idx+start+1", 'position off by one'),
    ('cgsmiles.write_cgsmiles:format_bonding', 'cgsmiles/write_cgsmiles.py',
     "        if order_symb != '-':", "        if order_symb != '-' and order_symb != '.':", 'order-0 symbol not written'),
]


def run(filters=()):
    repo = os.environ.get('REPO', '/repo')
    results = []
    for target, rel, old, new, what in FAULTS:
        if filters and not any(f in target for f in filters):
            continue
        tmp = tempfile.mkdtemp(prefix='pyvc_selftest_')
        try:
            shutil.copytree(os.path.join(repo, 'cgsmiles'), os.path.join(tmp, 'cgsmiles'),
                            ignore=shutil.ignore_patterns('__pycache__', 'tests'))
            path = os.path.join(tmp, rel)
            src = open(path).read()
            if src.count(old) != 1:
                results.append((target, what, 'fault-not-applicable (pattern occurs %d times)' % src.count(old)))
                continue
            open(path, 'w').write(src.replace(old, new))
            env = dict(os.environ, REPO=tmp, PYTHONPATH=tmp + os.pathsep + HERE, PBR_VERSION='0.0.1', PYTHONDONTWRITEBYTECODE='1')
            out = subprocess.run([sys.executable, '-m', 'pyvc.cli', target], env=env, cwd=HERE, capture_output=True, text=True)
            try:
                rep = json.loads(out.stdout.strip().splitlines()[-1])
            except Exception:
                results.append((target, what, 'checker-error ' + out.stderr[-300:]))
                continue
            by_solver = [r for r in rep['refuted'] if r['kind'] not in ('native', 'vacuity')]
            by_native = [r for r in rep['refuted'] if r['kind'] == 'native' or r.get('replay_confirmed')]
            if by_solver:
                status = 'caught by solver (%d refuted%s)' % (len(by_solver), ', replayed' if any(r.get('replay_confirmed') for r in by_solver) else '')
            elif by_native:
                status = 'caught natively (solver undecided on %d; contract fails on a concrete example)' % rep['undecided']
            elif rep['undecided'] or rep['out_of_subset'] or rep['stale']:
                status = 'undecided only (%d undecided, %s)' % (rep['undecided'], (rep['out_of_subset'] + rep['stale'])[:1])
            else:
                status = 'MISSED'
            results.append((target, what, status + ' ' + ', '.join(r['obligation'].split('/', 1)[-1] for r in rep['refuted'][:3])))
        finally:
            shutil.rmtree(tmp, ignore_errors=True)
    return results


if __name__ == '__main__':
    res = run(sys.argv[1:])
    bad = 0
    for target, what, status in res:
        print('%-55s %-45s %s' % (target, what, status))
        if not status.startswith('caught'):
            bad += 1
    print('%d faults, %d not caught' % (len(res), bad))
    sys.exit(1 if bad else 0)
