"""
Seeded-fault self-test of the deductive tier (DESIGN §2.8): for every contract a few small,
compiling changes of the real function body are applied to a scratch copy of the tree (outside
/repo and /verif, removed afterwards); each must turn at least one obligation of that function
from discharged into refuted.  A fault that no obligation notices is reported as a weak contract.

    python -m pyvc.selftest [target-substring ...]
"""
import json
import os
import shutil
import subprocess
import sys
import tempfile

HERE = os.path.dirname(os.path.dirname(os.path.abspath(__file__)))

FAULTS = [
    # (target, file, old text, new text, what)
    ('cgsmiles.resolve:compatible', 'cgsmiles/resolve.py',
     "            return left[1:] == right[1:]\n        return False\n    else:",
     "            return left[2:] == right[2:]\n        return False\n    else:", 'label comparison skips a character'),
    ('cgsmiles.resolve:compatible', 'cgsmiles/resolve.py',
     "if left == right and left[0] not in '> <':", "if left[0] == right[0] and left[0] not in '> <':", 'legacy $ ignores the label'),
    ('cgsmiles.resolve:compatible', 'cgsmiles/resolve.py',
     "        if left[0] == right[0] == '$' or left[0] == right[0] == '!':", "        if left[0] == right[0]:", 'non-legacy: < matches <'),
    ('cgsmiles.resolve:match_bonding_descriptors', 'cgsmiles/resolve.py',
     "return ((source_node, target_node), (bond_source, bond_target))", "return ((source_node, target_node), (bond_target, bond_source))",
     'descriptors returned swapped'),
    ('cgsmiles.resolve:match_bonding_descriptors', 'cgsmiles/resolve.py',
     "                for bond_target in bond_targets:", "                for bond_target in bond_targets[1:]:", 'first target descriptor never tried'),
    ('cgsmiles.resolve:match_bonding_descriptors', 'cgsmiles/resolve.py',
     "                    if compatible(bond_source, bond_target, legacy=legacy):", "                    if compatible(bond_source, bond_target):",
     'legacy flag dropped'),
    ('cgsmiles.resolve:MoleculeResolver.edges_from_bonding_descrpt', 'cgsmiles/resolve.py',
     "                node_graph.nodes[edge[1]]['bonding'].remove(bonding[1])\n", "", 'second descriptor not consumed'),
    ('cgsmiles.resolve:MoleculeResolver.edges_from_bonding_descrpt', 'cgsmiles/resolve.py',
     'for _ in range(0, self.meta_graph.edges[(prev_node, node)]["order"]):', 'for _ in range(0, self.meta_graph.edges[(prev_node, node)]["order"] + 1):',
     'one bond too many per base-graph edge'),
    ('cgsmiles.resolve:MoleculeResolver.edges_from_bonding_descrpt', 'cgsmiles/resolve.py',
     "                order = int(bonding[0][-1])\n", "                order = 1\n", 'annotated order ignored'),
    ('cgsmiles.resolve:MoleculeResolver.edges_from_bonding_descrpt', 'cgsmiles/resolve.py',
     "self.molecule.add_edge(edge[0], edge[1], bonding=bonding, order=order)", "self.molecule.add_edge(edge[0], edge[0] + 1, bonding=bonding, order=order)",
     'bond attached to a neighbouring key'),
    ('cgsmiles.resolve:MoleculeResolver.edges_from_bonding_descrpt', 'cgsmiles/resolve.py',
     "                                                              legacy=self.legacy)", "                                                              legacy=True)",
     'matching convention ignored'),
    ('cgsmiles.graph_utils:merge_graphs', 'cgsmiles/graph_utils.py',
     "        new_atom = copy.deepcopy(target_graph.nodes[node])", "        new_atom = target_graph.nodes[node]", 'template attributes not copied (shared and modified)'),
    ('cgsmiles.graph_utils:merge_graphs', 'cgsmiles/graph_utils.py',
     "fragment_offset = max(source_graph.nodes[last_node_idx].get('fragid', [0])) + 1", "fragment_offset = max(source_graph.nodes[last_node_idx].get('fragid', [0]))",
     'membership index not advanced'),
    ('cgsmiles.graph_utils:merge_graphs', 'cgsmiles/graph_utils.py',
     "    for idx, node in enumerate(target_graph.nodes(), start=offset + 1):", "    for idx, node in enumerate(target_graph.nodes(), start=offset + 2):", 'keys leave a gap'),
    ('cgsmiles.graph_utils:merge_graphs', 'cgsmiles/graph_utils.py',
     "            source_graph.add_edge(correspondence[node1], correspondence[node2], **attrs)", "            source_graph.add_edge(correspondence[node1], correspondence[node2])",
     'edge attributes (bond order) not copied'),
    ('cgsmiles.coordinates:forward_map_molecule', 'cgsmiles/coordinates.py',
     "            cg_pos += aa_mol.nodes[aa_node]['position']*weight", "            cg_pos += aa_mol.nodes[aa_node]['position']", 'weights ignored in the numerator'),
    ('cgsmiles.cgsmiles_utils:find_complementary_bonding_descriptor', 'cgsmiles/cgsmiles_utils.py',
     "            if descriptor[0] == '$' and descriptor[-1] == bonding_descriptor[-1]:", "            if descriptor[0] == '$':", 'order digit ignored for $ complements'),
    ('cgsmiles.cgsmiles_utils:find_complementary_bonding_descriptor', 'cgsmiles/cgsmiles_utils.py',
     "        compl = '>' + bonding_descriptor[1:]", "        compl = '>' + bonding_descriptor[2:]", 'label truncated for < complements'),
    ('cgsmiles.sample:_set_bond_order_defaults', 'cgsmiles/sample.py',
     "            if not bond_operator[-1].isdigit():\n                bond_operator += '1'\n            default_list.append(bond_operator)",
     "            if not bond_operator[-1].isdigit():\n                bond_operator += '2'\n            default_list.append(bond_operator)", 'default order 2 in lists'),
    ('cgsmiles.read_cgsmiles:_find_next_character', 'cgsmiles/read_cgsmiles.py',
     "            return idx+start", "            return idx+start+1", 'position off by one'),
    ('cgsmiles.write_cgsmiles:format_bonding', 'cgsmiles/write_cgsmiles.py',
     "        if order_symb != '-':", "        if order_symb != '-' and order_symb != '.':", 'order-0 symbol not written'),
    ('cgsmiles.resolve:MoleculeResolver.resolve_disconnected_molecule', 'cgsmiles/resolve.py',
     "                self.molecule.nodes[new_node]['fragid'] = [meta_node]", "                self.molecule.nodes[new_node]['fragid'] = [meta_node + 1]",
     'membership records the wrong coarse node'),
    ('cgsmiles.resolve:MoleculeResolver.resolve_disconnected_molecule', 'cgsmiles/resolve.py',
     "                if not all(np.array(orders) == 0):", "                if not all(np.array(orders) <= 1):", 'fragment-less node tolerated on a single bond'),
    ('cgsmiles.resolve:MoleculeResolver.resolve_disconnected_molecule', 'cgsmiles/resolve.py',
     "            graph_frag = nx.Graph()\n", "            graph_frag = self.meta_graph.nodes[meta_node].get('graph', nx.Graph())\n", 'fragment graph object reused'),
    ('cgsmiles.resolve:MoleculeResolver.squash_atoms', 'cgsmiles/resolve.py',
     "            self.molecule.nodes[node_to_keep]['fragid'] += self.molecule.nodes[node_to_keep]['contraction'][node_to_remove]['fragid']\n", "",
     'membership of the merged atom dropped'),
    ('cgsmiles.resolve:MoleculeResolver.squash_atoms', 'cgsmiles/resolve.py',
     "            if node_to_keep == node_to_remove:\n                continue\n", "", 'atom merged with itself'),
    ('cgsmiles.resolve:MoleculeResolver.resolve', 'cgsmiles/resolve.py',
     '        nx.set_node_attributes(self.meta_graph, new_fragnames, "fragname")\n', "", 'atom names do not become fragment names'),
    ('cgsmiles.resolve:MoleculeResolver.resolve', 'cgsmiles/resolve.py',
     "        self.resolution_counter += 1\n", "        self.resolution_counter += 2\n", 'a level is skipped'),
    ('cgsmiles.resolve:MoleculeResolver.resolve', 'cgsmiles/resolve.py',
     "        self.molecule = nx.Graph()\n\n        # add disconnected", "        self.molecule = self.meta_graph\n\n        # add disconnected",
     'fine graph not started empty / aliased with the coarse graph'),
    ('cgsmiles.resolve:MoleculeResolver.resolve', 'cgsmiles/resolve.py',
     "        self.resolve_disconnected_molecule(fragment_dict)\n\n        # connect valid bonding descriptors\n        self.edges_from_bonding_descrpt(all_atom=all_atom)\n",
     "        self.edges_from_bonding_descrpt(all_atom=all_atom)\n        self.resolve_disconnected_molecule(fragment_dict)\n", 'bonds made before the fragments exist'),
    ('cgsmiles.sample:MoleculeSampler.add_fragment', 'cgsmiles/sample.py',
     "        molecule.nodes[source_node]['bonding'].remove(bonding)\n", "", 'site descriptor not consumed'),
    ('cgsmiles.sample:MoleculeSampler.add_fragment', 'cgsmiles/sample.py',
     "                if bond not in self.terminal_bonds:", "                if bond in self.terminal_bonds:", 'terminal rule inverted'),
    ('cgsmiles.sample:MoleculeSampler.add_fragment', 'cgsmiles/sample.py',
     "                          order = int(bonding[-1]))", "                          order = 1)", 'bond order ignores the descriptor'),
    ('cgsmiles.sample:MoleculeSampler.sample', 'cgsmiles/sample.py',
     "            current_weight += self.fragment_masses[fragname]", "            current_weight += 2 * self.fragment_masses[fragname]", 'fragment mass counted twice'),
    ('cgsmiles.sample:MoleculeSampler.sample', 'cgsmiles/sample.py',
     "        while current_weight < target_weight:", "        while current_weight <= target_weight:", 'one fragment too many at exact target'),
    ('cgsmiles.cgsmiles_utils:find_open_bonds', 'cgsmiles/cgsmiles_utils.py',
     "            for bonding_types in bonding_types:", "            for bonding_types in bonding_types[:1]:", 'only the first descriptor of an atom is listed'),
    ('cgsmiles.pysmiles_utils:rebuild_h_atoms', 'cgsmiles/pysmiles_utils.py',
     "                if attr in mol_graph.nodes[node]:\n                    continue\n", "", 'explicit hydrogen annotations overwritten'),
    ('cgsmiles.pysmiles_utils:rebuild_h_atoms', 'cgsmiles/pysmiles_utils.py',
     "                value = mol_graph.nodes[anchor].get(attr, None)", "                value = mol_graph.nodes[node].get(attr, None)", 'hydrogen inherits from itself'),
    ('cgsmiles.graph_utils:set_atom_names_atomistic', 'cgsmiles/graph_utils.py',
     "            atomname = molecule.nodes[node]['element'] + str(idx)", "            atomname = molecule.nodes[node]['element'] + str(idx + 1)", 'names start at 1'),
    ('cgsmiles.graph_utils:merge_graphs', 'cgsmiles/graph_utils.py',
     "        if correspondence[node1] != correspondence[node2]:", "        if correspondence[node1] < correspondence[node2]:", 'half of the template bonds dropped'),
    ('cgsmiles.pysmiles_utils:compute_mass', 'cgsmiles/pysmiles_utils.py',
     "    molecule = input_molecule.copy()", "    molecule = input_molecule", 'hydrogens completed on the template itself (lost copy)'),
    ('cgsmiles.sample:MoleculeSampler.__init__', 'cgsmiles/sample.py',
     "                for bonding in bondings:\n                    self.fragments_by_bonding[bonding].append((fragname, node))",
     "                for bonding in bondings[:1]:\n                    self.fragments_by_bonding[bonding].append((fragname, node))",
     'only the first descriptor of a template atom enters the partner table'),
    ('cgsmiles.sample:MoleculeSampler.__init__', 'cgsmiles/sample.py',
     "        if fragment_masses:\n            guess_mass_from_PTE = False", "        if fragment_masses is not None:\n            guess_mass_from_PTE = False",
     'an empty mass table is accepted (no masses at all)'),
    ('cgsmiles.sample:MoleculeSampler.__init__', 'cgsmiles/sample.py',
     "        self.all_atom = all_atom\n", "        if fragment_masses:\n            all_atom = False\n        self.all_atom = all_atom\n",
     'the resolution flag is re-bound before it is stored (a parameter in a postcondition is the argument, not the local)'),
    ('cgsmiles.graph_utils:annotate_fragments', 'cgsmiles/graph_utils.py',
     "        combinations = itertools.combinations(fragid_to_node[meta_node], r=2)", "        combinations = itertools.combinations(fragid_to_node[meta_node][1:], r=2)",
     'bonds of the first atom of a fragment are missing in its fragment graph'),
    ('cgsmiles.graph_utils:annotate_fragments', 'cgsmiles/graph_utils.py',
     "        for fragid in fragids:\n            fragid_to_node[fragid].append(node)", "        for fragid in fragids[:1]:\n            fragid_to_node[fragid].append(node)",
     'a shared atom is listed under its first coarse node only'),
]


def run(filters=()):
    repo = os.environ.get('REPO', '/repo')
    results = []
    for target, rel, old, new, what in FAULTS:
        if filters and not any(f in target for f in filters):
            continue
        tmp = tempfile.mkdtemp(prefix='pyvc_selftest_')
        try:
            shutil.copytree(os.path.join(repo, 'cgsmiles'), os.path.join(tmp, 'cgsmiles'),
                            ignore=shutil.ignore_patterns('__pycache__', 'tests'))
            path = os.path.join(tmp, rel)
            src = open(path).read()
            if src.count(old) != 1:
                results.append((target, what, 'fault-not-applicable (pattern occurs %d times)' % src.count(old)))
                continue
            open(path, 'w').write(src.replace(old, new))
            env = dict(os.environ, REPO=tmp, PYTHONPATH=tmp + os.pathsep + HERE, PBR_VERSION='0.0.1', PYTHONDONTWRITEBYTECODE='1')
            out = subprocess.run([sys.executable, '-m', 'pyvc.cli', target], env=env, cwd=HERE, capture_output=True, text=True)
            try:
                rep = json.loads(out.stdout.strip().splitlines()[-1])
            except Exception:
                results.append((target, what, 'checker-error ' + out.stderr[-300:]))
                continue
            by_solver = [r for r in rep['refuted'] if r['kind'] not in ('native', 'vacuity')]
            by_native = [r for r in rep['refuted'] if r['kind'] == 'native' or r.get('replay_confirmed')]
            if by_solver:
                status = 'caught by solver (%d refuted%s)' % (len(by_solver), ', replayed' if any(r.get('replay_confirmed') for r in by_solver) else '')
            elif by_native:
                status = 'caught natively (solver undecided on %d; contract fails on a concrete example)' % rep['undecided']
            elif rep['undecided'] or rep['out_of_subset'] or rep['stale']:
                status = 'undecided only (%d undecided, %s)' % (rep['undecided'], (rep['out_of_subset'] + rep['stale'])[:1])
            else:
                status = 'MISSED'
            results.append((target, what, status + ' ' + ', '.join(r['obligation'].split('/', 1)[-1] for r in rep['refuted'][:3])))
        finally:
            shutil.rmtree(tmp, ignore_errors=True)
    return results


if __name__ == '__main__':
    res = run(sys.argv[1:])
    bad = 0
    for target, what, status in res:
        print('%-55s %-45s %s' % (target, what, status))
        if not status.startswith('caught'):
            bad += 1
    print('%d faults, %d not caught' % (len(res), bad))
    sys.exit(1 if bad else 0)
