"""
Graph heap: networkx.Graph objects are references (Int graph ids) into functional arrays.

Components (each a z3 array indexed by graph id first):
    nodes   gid -> List_Int            node keys in insertion order
    hasn    gid -> (Int -> Bool)
    nidx    gid -> (Int -> Int)        position of a node key in `nodes`
    nh:<a>  gid -> (Int -> Bool)       node has attribute <a>
    nv:<a>  gid -> (Int -> sort)       its value           (<a> includes a type variant, e.g. fragid#List_Int)
    rest    gid -> (Int -> Rest)       all attributes outside the schema, as one opaque value
    hase    gid -> (Int -> (Int -> Bool))   symmetric
    elist   gid -> List_Tup_Int_Int    edges in insertion order
    eidx    gid -> (Int -> (Int -> Int))
    eh:<a>, ev:<a>                     edge attributes (symmetric)
    next_gid                           allocation counter (graphs with id >= entry value are fresh)

Well-formedness (node list <-> membership bijection etc.) is a data-structure invariant of the
*models* (the trusted networkx semantics): it is assumed whenever a heap state is introduced
(function entry, loop head, call return) and is preserved by construction by every model.
"""
import z3
from .types import (TInt, TReal, TBool, TStr, TList, TTuple, TDict, TGraph, TOpaque, Val, fresh_name)

INT = z3.IntSort()
BOOL = z3.BoolSort()
T_NODELIST = TList(TInt)
T_EDGE = TTuple(TInt, TInt)
T_EDGELIST = TList(T_EDGE)
T_REST = TOpaque('AttrRest')

# attribute schemas: python attribute name -> (component suffix, type)
T_LSTR = TList(TStr)
T_LINT = TList(TInt)
T_MAPPING = TList(TTuple(TStr, TInt))
NODE_SCHEMAS = {
    'mol': {
        'bonding': ('bonding', T_LSTR), 'fragid': ('fragid#l', T_LINT), 'fragname': ('fragname', TStr),
        'atomname': ('atomname', TStr), 'element': ('element', TStr), 'aromatic': ('aromatic', TBool),
        'hcount': ('hcount', TReal), 'charge': ('charge', TReal), 'weight': ('weight', TReal),
        'graph': ('graph', TGraph('mol')), 'mapping': ('mapping', T_MAPPING), 'position': ('position', TReal),
        'ez_isomer_atoms': ('ez_isomer_atoms', TTuple(TInt, TInt)), 'single_h_frag': ('single_h_frag', TBool),
        'order': ('order_n', TReal),
        # networkx.contracted_nodes stores the removed node's attribute dict under ['contraction'][removed]; only the two
        # entries the squash operator reads are modelled: removed node -> its fragid list / its mapping list
        'contraction': ('contraction', TTuple(TDict(TInt, T_LINT), TDict(TInt, T_MAPPING))),
    },
}
NODE_SCHEMAS['tmpl'] = dict(NODE_SCHEMAS['mol'])
NODE_SCHEMAS['tmpl']['fragid'] = ('fragid#i', TInt)
EDGE_SCHEMA = {'order': ('order', TReal), 'bonding': ('bonding', TTuple(TStr, TStr))}


def _arr(*sorts):
    """Array sort with nested index sorts: _arr(I, J, V) = Array(I, Array(J, V))."""
    s = sorts[-1]
    for idx in reversed(sorts[:-1]):
        s = z3.ArraySort(idx, s)
    return s


def node_attr(schema, name):
    return NODE_SCHEMAS[schema].get(name)


class Heap:
    """Immutable-by-convention: every update returns a new Heap sharing unchanged components."""

    def __init__(self, comps=None, tag='h', parent=None):
        self.c = dict(comps or {})
        self.tag = tag
        self.parent = parent      # components never touched are shared with the heap this one was havoc'd from

    # ---- component access -------------------------------------------------------------
    def sort_of(self, comp):
        if comp == 'nodes':
            return _arr(INT, T_NODELIST.sort())
        if comp == 'hasn':
            return _arr(INT, INT, BOOL)
        if comp == 'nidx':
            return _arr(INT, INT, INT)
        if comp == 'rest':
            return _arr(INT, INT, T_REST.sort())
        if comp == 'hase':
            return _arr(INT, INT, INT, BOOL)
        if comp == 'elist':
            return _arr(INT, T_EDGELIST.sort())
        if comp == 'eidx':
            return _arr(INT, INT, INT, INT)
        if comp == 'next_gid':
            return INT
        kind, a = comp.split(':', 1)
        if kind == 'nh':
            return _arr(INT, INT, BOOL)
        if kind == 'nv':
            return _arr(INT, INT, _ATTR_SORTS[a].sort())
        if kind == 'eh':
            return _arr(INT, INT, INT, BOOL)
        if kind == 'ev':
            return _arr(INT, INT, INT, _EATTR_SORTS[a].sort())
        raise KeyError(comp)

    def get(self, comp):
        if comp not in self.c:
            if self.parent is not None:
                self.c[comp] = self.parent.get(comp)
            else:
                # a component nobody has touched yet: one shared unconstrained constant per heap generation
                self.c[comp] = z3.Const('%s.%s' % (self.tag, comp), self.sort_of(comp))
        return self.c[comp]

    def set(self, comp, term):
        h = Heap(self.c, self.tag, self.parent)
        h.c[comp] = term
        return h

    def all_node_attr_comps(self):
        return sorted(_ATTR_SORTS)

    def all_edge_attr_comps(self):
        return sorted(_EATTR_SORTS)

    def components(self):
        out = ['nodes', 'hasn', 'nidx', 'rest', 'hase', 'elist', 'eidx']
        out += ['nh:' + a for a in _ATTR_SORTS] + ['nv:' + a for a in _ATTR_SORTS]
        out += ['eh:' + a for a in _EATTR_SORTS] + ['ev:' + a for a in _EATTR_SORTS]
        return out

    # ---- reads ------------------------------------------------------------------------
    def nodes(self, g):
        return self.get('nodes')[g]

    def n_nodes(self, g):
        return T_NODELIST.length(self.nodes(g))

    def node_at(self, g, i):
        return T_NODELIST.arr(self.nodes(g))[i]

    def has_node(self, g, n):
        return self.get('hasn')[g][n]

    def node_index(self, g, n):
        return self.get('nidx')[g][n]

    def nhas(self, g, n, a):
        return self.get('nh:' + a)[g][n]

    def nval(self, g, n, a):
        return self.get('nv:' + a)[g][n]

    def has_edge(self, g, u, v):
        return self.get('hase')[g][u][v]

    def edges(self, g):
        return self.get('elist')[g]

    def ehas(self, g, u, v, a):
        return self.get('eh:' + a)[g][u][v]

    def evalue(self, g, u, v, a):
        return self.get('ev:' + a)[g][u][v]

    # ---- writes -----------------------------------------------------------------------
    def _store2(self, comp, g, n, value):
        arr = self.get(comp)
        return self.set(comp, z3.Store(arr, g, z3.Store(arr[g], n, value)))

    def _store3(self, comp, g, u, v, value, symmetric=True):
        arr = self.get(comp)
        inner = arr[g]
        inner = z3.Store(inner, u, z3.Store(inner[u], v, value))
        if symmetric:
            inner = z3.Store(inner, v, z3.Store(inner[v], u, value))
        return self.set(comp, z3.Store(arr, g, inner))

    def set_nattr(self, g, n, a, value_term):
        h = self._store2('nh:' + a, g, n, z3.BoolVal(True))
        return h._store2('nv:' + a, g, n, value_term)

    def del_nattr(self, g, n, a):
        return self._store2('nh:' + a, g, n, z3.BoolVal(False))

    def add_node(self, g, n):
        """Add node key n (no-op on the node list when already present); attributes untouched."""
        present = self.has_node(g, n)
        lst = self.nodes(g)
        ln = T_NODELIST.length(lst)
        new_lst = T_NODELIST.mk(z3.Store(T_NODELIST.arr(lst), ln, n), ln + 1)
        h = self.set('nodes', z3.Store(self.get('nodes'), g, z3.If(present, lst, new_lst)))
        h = h._store2('hasn', g, n, z3.BoolVal(True))
        nid = self.get('nidx')
        h = h.set('nidx', z3.Store(nid, g, z3.If(present, nid[g], z3.Store(nid[g], n, ln))))
        return h, present

    def clear_new_node_attrs(self, g, n, present):
        """A node that did not exist before has no attributes at all."""
        h = self
        for a in list(_ATTR_SORTS):
            arr = h.get('nh:' + a)
            h = h.set('nh:' + a, z3.Store(arr, g, z3.Store(arr[g], n, z3.And(present, arr[g][n]))))
        return h

    def add_edge(self, g, u, v):
        present = self.has_edge(g, u, v)
        lst = self.edges(g)
        ln = T_EDGELIST.length(lst)
        new_lst = T_EDGELIST.mk(z3.Store(T_EDGELIST.arr(lst), ln, T_EDGE.mk(u, v)), ln + 1)
        h = self.set('elist', z3.Store(self.get('elist'), g, z3.If(present, lst, new_lst)))
        h = h._store3('hase', g, u, v, z3.BoolVal(True))
        eid = h.get('eidx')
        inner = eid[g]
        inner2 = z3.Store(inner, u, z3.Store(inner[u], v, ln))
        inner2 = z3.Store(inner2, v, z3.Store(inner2[v], u, ln))
        h = h.set('eidx', z3.Store(eid, g, z3.If(present, inner, inner2)))
        return h, present

    def clear_new_edge_attrs(self, g, u, v, present):
        h = self
        for a in list(_EATTR_SORTS):
            keep = z3.And(present, h.ehas(g, u, v, a))
            h = h._store3('eh:' + a, g, u, v, keep)
        return h

    def set_eattr(self, g, u, v, a, value_term):
        h = self._store3('eh:' + a, g, u, v, z3.BoolVal(True))
        return h._store3('ev:' + a, g, u, v, value_term)

    def alloc_graph(self):
        """nx.Graph(): a fresh id, empty node and edge sets."""
        g = self.get('next_gid')
        h = self.set('next_gid', g + 1)
        empty_nodes = T_NODELIST.mk(z3.K(INT, z3.IntVal(0)), z3.IntVal(0))
        h = h.set('nodes', z3.Store(h.get('nodes'), g, empty_nodes))
        h = h.set('hasn', z3.Store(h.get('hasn'), g, z3.K(INT, z3.BoolVal(False))))
        empty_edges = T_EDGELIST.mk(z3.K(INT, T_EDGE.mk(z3.IntVal(0), z3.IntVal(0))), z3.IntVal(0))
        h = h.set('elist', z3.Store(h.get('elist'), g, empty_edges))
        h = h.set('hase', z3.Store(h.get('hase'), g, z3.K(INT, z3.K(INT, z3.BoolVal(False)))))
        return h, g

    def wf_all(self):
        """Well-formedness of EVERY allocated graph (graphs reached through dict values or 'graph' attributes included)."""
        g = z3.Int(fresh_name('ag'))
        out = []
        guard = z3.And(0 <= g, g < self.get('next_gid'))
        for ax in self.wf_graph(g):
            if z3.is_quantifier(ax) and ax.is_forall():
                n = ax.num_vars()
                vs = [z3.Const(fresh_name('av'), ax.var_sort(i)) for i in range(n)]
                body = z3.substitute_vars(ax.body(), *reversed(vs))
                pats = []
                for k in range(ax.num_patterns()):
                    p = ax.pattern(k)
                    terms = [z3.substitute_vars(p.arg(j), *reversed(vs)) for j in range(p.num_args())]
                    pats.append(z3.MultiPattern(*terms) if len(terms) > 1 else terms[0])
                if pats:
                    out.append(z3.ForAll([g] + vs, z3.Implies(guard, body), patterns=pats))
                else:
                    out.append(z3.ForAll([g] + vs, z3.Implies(guard, body)))
            else:
                out.append(z3.ForAll([g], z3.Implies(guard, ax)))
        return out

    def wf_refs(self):
        """Graph references stored in node attributes point at allocated graphs (no dangling / future ids)."""
        g = z3.Int(fresh_name('rg'))
        n = z3.Int(fresh_name('rn'))
        val = self.get('nv:graph')[g][n]
        return [z3.ForAll([g, n], z3.Implies(z3.And(g >= 0, g < self.get('next_gid'), self.get('nh:graph')[g][n]),
                                             z3.And(val >= 0, val < self.get('next_gid'))), patterns=[val])]

    # ---- well-formedness of one graph (assumed, see module docstring) --------------------
    def wf_graph(self, g):
        i = z3.Int(fresh_name('wi'))
        n = z3.Int(fresh_name('wn'))
        u = z3.Int(fresh_name('wu'))
        v = z3.Int(fresh_name('wv'))
        lst = self.nodes(g)
        ln = T_NODELIST.length(lst)
        arr = T_NODELIST.arr(lst)
        el = self.edges(g)
        eln = T_EDGELIST.length(el)
        earr = T_EDGELIST.arr(el)
        out = [ln >= 0, eln >= 0,
               z3.ForAll([i], z3.Implies(z3.And(0 <= i, i < ln),
                                         z3.And(self.has_node(g, arr[i]), self.node_index(g, arr[i]) == i)),
                         patterns=[arr[i]]),
               z3.ForAll([n], z3.Implies(self.has_node(g, n),
                                         z3.And(0 <= self.node_index(g, n), self.node_index(g, n) < ln,
                                                arr[self.node_index(g, n)] == n)),
                         patterns=[self.has_node(g, n)]),
               z3.ForAll([u, v], self.has_edge(g, u, v) == self.has_edge(g, v, u), patterns=[self.has_edge(g, u, v)]),
               z3.ForAll([u, v], z3.Implies(self.has_edge(g, u, v), z3.And(self.has_node(g, u), self.has_node(g, v))),
                         patterns=[self.has_edge(g, u, v)]),
               z3.ForAll([i], z3.Implies(z3.And(0 <= i, i < eln),
                                         z3.And(self.has_edge(g, T_EDGE.field(earr[i], 0), T_EDGE.field(earr[i], 1)),
                                                self.get('eidx')[g][T_EDGE.field(earr[i], 0)][T_EDGE.field(earr[i], 1)] == i)),
                         patterns=[earr[i]]),
               # every edge sits at its index in the edge list (in one of the two orientations)
               z3.ForAll([u, v], z3.Implies(self.has_edge(g, u, v), z3.And(
                   self.get('eidx')[g][u][v] == self.get('eidx')[g][v][u],
                   0 <= self.get('eidx')[g][u][v], self.get('eidx')[g][u][v] < eln,
                   z3.Or(earr[self.get('eidx')[g][u][v]] == T_EDGE.mk(u, v), earr[self.get('eidx')[g][u][v]] == T_EDGE.mk(v, u)))),
                   patterns=[self.get('eidx')[g][u][v]]),
               ]
        # undirected graph: edge attributes are the same in both orientations
        for a in _EATTR_SORTS:
            eh, ev = self.get('eh:' + a)[g], self.get('ev:' + a)[g]
            out.append(z3.ForAll([u, v], z3.And(eh[u][v] == eh[v][u], ev[u][v] == ev[v][u]),
                                 patterns=[eh[u][v], ev[u][v]]))
        return out


_ATTR_SORTS = {}
for _sch in NODE_SCHEMAS.values():
    for _k, (_suffix, _ty) in _sch.items():
        _ATTR_SORTS[_suffix] = _ty
_EATTR_SORTS = {suffix: ty for suffix, ty in EDGE_SCHEMA.values()}


def attr_type(suffix):
    return _ATTR_SORTS[suffix]


def eattr_type(suffix):
    return _EATTR_SORTS[suffix]
