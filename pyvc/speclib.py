"""
Spec functions callable from contract text.  Each has an SMT implementation (used by pyvc) and a
native implementation (used by the run-time monitor); these pairs are the only place where two
texts exist, and `pyvc.run.cross_check` compares them on concrete samples (DESIGN §2.8).
"""
import z3
from .types import fresh_name  # noqa
from . import ops
from .ops import Unsupported, TRUE, FALSE
from .types import (TInt, TReal, TBool, TStr, TList, TTuple, TDict, TOpt, TGraph, Val, lift, fresh_name)

SPEC_FUNCS = {}


class Spec:
    def __init__(self, name, smt, native, ret):
        self.name = name
        self.smt = smt
        self.native = native
        self.ret = ret

    def opaque(self, eng, st, *args):
        """Hidden definition (opaque / reveal): an uninterpreted function of the argument terms."""
        sorts = [a.ty.sort() for a in args]
        key = ('opaque', self.name, tuple(str(x) for x in sorts))
        if key not in _FOLDS:
            _FOLDS[key] = z3.Function('spec_' + self.name, *(sorts + [self.ret.sort()]))
        app = _FOLDS[key](*[a.t for a in args])
        # the definition is available as ONE quantified axiom triggered by applications of the symbol, so that
        # quantifier bodies stay free of string operations (opaque with definitional axiom)
        if key not in eng.axiom_keys and self.name not in eng.c.abstract:
            eng.axiom_keys.add(key)
            from .types import fresh as _fresh
            bvs = [_fresh(a.ty, 'ax') for a in args]
            tmp_pc = []

            class _S:
                pass
            hold = _S()
            hold.assume = lambda *c: tmp_pc.extend(c)
            hold.heap = st.heap
            dv = self.smt(eng, hold, *bvs)
            uf = _FOLDS[key](*[b.t for b in bvs])
            body = uf == dv.t
            if tmp_pc:
                body = z3.And(body, *tmp_pc)
            eng.axioms.append(z3.ForAll([b.t for b in bvs], body, patterns=[uf]))
        return Val(self.ret, app)


def _mentions(term, names):
    seen = set()
    stack = [term]
    while stack:
        t = stack.pop()
        if t.get_id() in seen:
            continue
        seen.add(t.get_id())
        if z3.is_const(t) and t.decl().kind() == z3.Z3_OP_UNINTERPRETED and t.decl().name() in names:
            return True
        stack.extend(t.children())
    return False


def spec(name, native, ret=TBool):
    def deco(smt):
        SPEC_FUNCS[name] = Spec(name, smt, native, ret)
        return smt
    return deco


_FOLDS = {}


# ---------------------------------------------------------------------------- descriptor compatibility (C03)
def _n_spec_compatible(l, r, legacy):
    directed = (l[0] == '<' and r[0] == '>') or (l[0] == '>' and r[0] == '<')
    if legacy:
        return bool((l[0] in '$!' and l == r) or (directed and l[1:] == r[1:]))
    return bool((l[0] == r[0] and l[0] in '$!') or directed)


@spec('spec_compatible', _n_spec_compatible)
def _s_spec_compatible(eng, st, l, r, legacy):
    l0 = z3.SubString(l.t, 0, 1)
    r0 = z3.SubString(r.t, 0, 1)
    S = z3.StringVal
    directed = z3.Or(z3.And(l0 == S('<'), r0 == S('>')), z3.And(l0 == S('>'), r0 == S('<')))
    sym = z3.Or(l0 == S('$'), l0 == S('!'))
    tail_l = z3.SubString(l.t, 1, z3.Length(l.t) - 1)
    tail_r = z3.SubString(r.t, 1, z3.Length(r.t) - 1)
    leg = z3.Or(z3.And(sym, l.t == r.t), z3.And(directed, tail_l == tail_r))
    non = z3.Or(z3.And(l0 == r0, sym), directed)
    return Val(TBool, z3.If(ops.truthy(legacy), leg, non))


def _n_is_descriptor(d):
    return len(d) >= 2 and d[0] in '$!<>' and d[-1] in '0123456789'


@spec('is_descriptor', _n_is_descriptor)
def _s_is_descriptor(eng, st, d):
    S = z3.StringVal
    d0 = z3.SubString(d.t, 0, 1)
    last = z3.SubString(d.t, z3.Length(d.t) - 1, 1)
    return Val(TBool, z3.And(z3.Length(d.t) >= 2,
                             z3.Or(*[d0 == S(c) for c in '$!<>']),
                             z3.Or(*[last == S(c) for c in '0123456789'])))


def _n_kind_ok(d):
    return len(d) >= 1 and d[0] in '$!<>'


@spec('kind_ok', _n_kind_ok)
def _s_kind_ok(eng, st, d):
    S = z3.StringVal
    d0 = z3.SubString(d.t, 0, 1)
    return Val(TBool, z3.And(z3.Length(d.t) >= 1, z3.Or(*[d0 == S(c) for c in '$!<>'])))


# ---------------------------------------------------------------------------- complement (C16/C17)
def _n_complementary(b, c):
    if b[0] == '$':
        return c[0] == '$' and c[-1] == b[-1]
    if b[0] == '<':
        return c == '>' + b[1:]
    if b[0] == '>':
        return c == '<' + b[1:]
    return c == b


@spec('complementary', _n_complementary)
def _s_complementary(eng, st, b, c):
    S = z3.StringVal
    b0 = z3.SubString(b.t, 0, 1)
    c0 = z3.SubString(c.t, 0, 1)
    blast = z3.SubString(b.t, z3.Length(b.t) - 1, 1)
    clast = z3.SubString(c.t, z3.Length(c.t) - 1, 1)
    btail = z3.SubString(b.t, 1, z3.Length(b.t) - 1)
    return Val(TBool, z3.If(b0 == S('$'), z3.And(c0 == S('$'), clast == blast),
                            z3.If(b0 == S('<'), c.t == z3.Concat(S('>'), btail),
                                  z3.If(b0 == S('>'), c.t == z3.Concat(S('<'), btail), c.t == b.t))))


# ---------------------------------------------------------------------------- writer: descriptor formatting (C08)
ORDER_SYMBOL = {0: '.', 1: '', 2: '=', 3: '#', 4: '$'}


def _n_fmt_one(d):
    return ORDER_SYMBOL[int(d[-1])] + '[' + d[:-1] + ']'


def _n_fmt_descriptors(xs, k):
    return ''.join(_n_fmt_one(d) for d in xs[:k])


def _s_fmt_one_term(d):
    S = z3.StringVal
    last = z3.SubString(d, z3.Length(d) - 1, 1)
    sym = z3.If(last == S('0'), S('.'), z3.If(last == S('2'), S('='), z3.If(last == S('3'), S('#'),
                                                                         z3.If(last == S('4'), S('$'), S('')))))
    return z3.Concat(sym, S('['), z3.SubString(d, 0, z3.Length(d) - 1), S(']'))


@spec('fmt_one', _n_fmt_one)
def _s_fmt_one(eng, st, d):
    return Val(TStr, _s_fmt_one_term(d.t))


def _fold_uf(name, list_sort, out_sort):
    key = (name, str(list_sort))
    if key not in _FOLDS:
        _FOLDS[key] = z3.Function(name, list_sort, z3.IntSort(), out_sort)
    return _FOLDS[key]


@spec('fmt_descriptors', _n_fmt_descriptors)
def _s_fmt_descriptors(eng, st, xs, k):
    """Fold: F(xs,0) = '' ; F(xs,k+1) = F(xs,k) ++ fmt_one(xs[k]).  The defining equation is unfolded once at
    every index the contract text mentions (0, _i, _i+1, len) — no induction is asked of the solver."""
    F = _fold_uf('fmt_descriptors', xs.ty.sort(), z3.StringSort())
    kt = ops.to_int(k)
    arr = ops.list_arr(xs)
    st.assume(z3.Implies(kt <= 0, F(xs.t, kt) == z3.StringVal('')),
              z3.Implies(kt > 0, F(xs.t, kt) == z3.Concat(F(xs.t, kt - 1), _s_fmt_one_term(arr[kt - 1]))))
    return Val(TStr, F(xs.t, kt))


# ---------------------------------------------------------------------------- generic helpers
def _n_member(x, xs):
    return x in xs


@spec('member', _n_member)
def _s_member(eng, st, x, xs):
    return Val(TBool, ops.contains(xs, x))


def _n_count(x, xs):
    return list(xs).count(x)


def _n_default_suffix(b):
    return b if b[-1].isdigit() else b + '1'


@spec('default_suffix', _n_default_suffix)
def _s_default_suffix(eng, st, b):
    last = Val(TStr, z3.SubString(b.t, z3.Length(b.t) - 1, 1))
    return Val(TStr, z3.If(ops.str_isdigit(last), b.t, z3.Concat(b.t, z3.StringVal('1'))))


def _n_wsum(ws, ps, k):
    return sum(w * p for w, p in list(zip(ws, ps))[:k])


@spec('wsum', _n_wsum)
def _s_wsum(eng, st, ws, ps, k):
    F = z3.Function('wsum', ws.ty.sort(), ps.ty.sort(), z3.IntSort(), z3.RealSort())
    kt = ops.to_int(k)
    st.assume(z3.Implies(kt <= 0, F(ws.t, ps.t, kt) == 0),
              z3.Implies(kt > 0, F(ws.t, ps.t, kt) == F(ws.t, ps.t, kt - 1) + ops.list_arr(ws)[kt - 1] * ops.list_arr(ps)[kt - 1]))
    return Val(TReal, F(ws.t, ps.t, kt))


def _n_lsum(xs, k):
    return sum(list(xs)[:k])


@spec('lsum', _n_lsum)
def _s_lsum(eng, st, xs, k):
    F = z3.Function('lsum', xs.ty.sort(), z3.IntSort(), z3.RealSort())
    kt = ops.to_int(k)
    elem = ops.list_arr(xs)[kt - 1]
    if xs.ty.elem is TInt:
        elem = z3.ToReal(elem)
    st.assume(z3.Implies(kt <= 0, F(xs.t, kt) == 0),
              z3.Implies(kt > 0, F(xs.t, kt) == F(xs.t, kt - 1) + elem))
    return Val(TReal, F(xs.t, kt))


# ---------------------------------------------------------------------------- graph helpers (heap reads)
from . import heap as _H            # noqa: E402
from . import native_graph as _NG   # noqa: E402


def _cstr(v):
    s = z3.simplify(v.t)
    if not z3.is_string_value(s):
        raise Unsupported('attribute name in contract text must be a constant')
    return s.as_string()


@spec('nodes', _NG.nodes)
def _s_nodes(eng, st, g):
    return Val(_H.T_NODELIST, st.heap.nodes(g.t))


@spec('has_node', _NG.has_node)
def _s_has_node(eng, st, g, n):
    return Val(TBool, st.heap.has_node(g.t, n.t))


@spec('has_attr', _NG.has_attr)
def _s_has_attr(eng, st, g, n, k):
    suffix, ty = _H.NODE_SCHEMAS[g.ty.schema][_cstr(k)]
    return Val(TBool, z3.And(st.heap.has_node(g.t, n.t), st.heap.nhas(g.t, n.t, suffix)))


@spec('attr', _NG.attr)
def _s_attr(eng, st, g, n, k):
    suffix, ty = _H.NODE_SCHEMAS[g.ty.schema][_cstr(k)]
    return Val(ty, st.heap.nval(g.t, n.t, suffix))


@spec('has_edge', _NG.has_edge)
def _s_has_edge(eng, st, g, u, v):
    return Val(TBool, st.heap.has_edge(g.t, u.t, v.t))


@spec('has_eattr', _NG.has_eattr)
def _s_has_eattr(eng, st, g, u, v, k):
    suffix, ty = _H.EDGE_SCHEMA[_cstr(k)]
    return Val(TBool, z3.And(st.heap.has_edge(g.t, u.t, v.t), st.heap.ehas(g.t, u.t, v.t, suffix)))


@spec('eattr', _NG.eattr)
def _s_eattr(eng, st, g, u, v, k):
    suffix, ty = _H.EDGE_SCHEMA[_cstr(k)]
    return Val(ty, st.heap.evalue(g.t, u.t, v.t, suffix))


@spec('n_nodes', _NG.n_nodes)
def _s_n_nodes(eng, st, g):
    return Val(TInt, st.heap.n_nodes(g.t))


@spec('n_edges', _NG.n_edges)
def _s_n_edges(eng, st, g):
    return Val(TInt, _H.T_EDGELIST.length(st.heap.edges(g.t)))


@spec('keys', lambda d: list(d))
def _s_keys(eng, st, d):
    if isinstance(d.ty, TOpt):
        d = Val(d.ty.inner, d.ty.get(d.t))
    return ops.dict_keys(d)


@spec('edge_list', lambda g: [tuple(e) for e in g.edges])
def _s_edge_list(eng, st, g):
    return Val(_H.T_EDGELIST, st.heap.edges(g.t))


# ---------------------------------------------------------------------------- weighted positions (C18)
def _n_node_attrs(g, k):
    import networkx as nx
    return nx.get_node_attributes(g, k)


@spec('node_attrs', _n_node_attrs)
def _s_node_attrs(eng, st, g, k):
    from . import models
    return models.node_attr_dict(eng, st, g, _cstr(k))


def _n_dvsum(d, k):
    return _NG.Num(sum(list(d.values())[:k]))


@spec('dvsum', _n_dvsum, ret=TReal)
def _s_dvsum(eng, st, d, k):
    """Sum of the first k values of a dict in key order (fold, unfolded once at each mentioned index)."""
    F = _fold_uf('dvsum', d.ty.sort(), z3.RealSort())
    kt = ops.to_int(k)
    keys = d.ty.keys_ty.arr(d.ty.keys(d.t))
    elem = d.ty.valmap(d.t)[keys[kt - 1]]
    if d.ty.val is TInt:
        elem = z3.ToReal(elem)
    st.assume(z3.Implies(kt <= 0, F(d.t, kt) == 0), z3.Implies(kt > 0, F(d.t, kt) == F(d.t, kt - 1) + elem))
    return Val(TReal, F(d.t, kt))


def _n_wpsum(d, g, k):
    return _NG.Num(sum(g.nodes[n]['position'] * w for n, w in list(d.items())[:k]))


@spec('wpsum', _n_wpsum, ret=TReal)
def _s_wpsum(eng, st, d, g, k):
    """Sum over the first k entries (node, weight) of d of position(node in g) * weight."""
    suffix, ty = _H.NODE_SCHEMAS[g.ty.schema]['position']
    pos = st.heap.get('nv:' + suffix)[g.t]
    key = ('wpsum', str(d.ty.sort()))
    if key not in _FOLDS:
        _FOLDS[key] = z3.Function('wpsum', d.ty.sort(), pos.sort(), z3.IntSort(), z3.RealSort())
    F = _FOLDS[key]
    kt = ops.to_int(k)
    keys = d.ty.keys_ty.arr(d.ty.keys(d.t))
    nk = keys[kt - 1]
    w = d.ty.valmap(d.t)[nk]
    st.assume(z3.Implies(kt <= 0, F(d.t, pos, kt) == 0),
              z3.Implies(kt > 0, F(d.t, pos, kt) == F(d.t, pos, kt - 1) + pos[nk] * w))
    return Val(TReal, F(d.t, pos, kt))


# ---------------------------------------------------------------------------- attribute-wise comparisons
def _n_same_node_attrs(g1, n1, g2, n2, skip):
    a = {k: v for k, v in g1.nodes[n1].items() if k not in skip}
    b = {k: v for k, v in g2.nodes[n2].items() if k not in skip}
    return _deep_eq(a, b)


def _deep_eq(a, b):
    import numpy as np
    import networkx as nx
    if isinstance(a, dict) and isinstance(b, dict):
        return a.keys() == b.keys() and all(_deep_eq(a[k], b[k]) for k in a)
    if isinstance(a, (list, tuple)) and isinstance(b, (list, tuple)):
        return len(a) == len(b) and all(_deep_eq(x, y) for x, y in zip(a, b))
    if isinstance(a, np.ndarray) or isinstance(b, np.ndarray):
        return bool(np.array_equal(a, b))
    if isinstance(a, nx.Graph) and isinstance(b, nx.Graph):
        return a is b or (list(a.nodes(data=True)) == list(b.nodes(data=True)) and list(a.edges(data=True)) == list(b.edges(data=True)))
    return a == b


@spec('same_node_attrs', _n_same_node_attrs)
def _s_same_node_attrs(eng, st, g1, n1, g2, n2, skip):
    """Every attribute except the listed ones is present on both or on neither, with equal values (incl. the opaque rest)."""
    from .models import PyList
    skipped = set()
    for item in skip.items if isinstance(skip, PyList) else []:
        skipped.add(_cstr(item))
    h = st.heap
    s1, s2 = _H.NODE_SCHEMAS[g1.ty.schema], _H.NODE_SCHEMAS[g2.ty.schema]
    parts = []
    for name in sorted(set(s1) | set(s2)):
        if name in skipped:
            continue
        if name in s1 and name in s2 and s1[name][0] == s2[name][0]:
            suf = s1[name][0]
            parts.append(h.nhas(g1.t, n1.t, suf) == h.nhas(g2.t, n2.t, suf))
            parts.append(z3.Implies(h.nhas(g1.t, n1.t, suf), h.nval(g1.t, n1.t, suf) == h.nval(g2.t, n2.t, suf)))
        else:
            for (sch, g, n) in ((s1, g1, n1), (s2, g2, n2)):
                if name in sch:
                    parts.append(z3.Not(h.nhas(g.t, n.t, sch[name][0])))
    parts.append(h.get('rest')[g1.t][n1.t] == h.get('rest')[g2.t][n2.t])
    return Val(TBool, z3.And(*parts))


def _n_same_edge_attrs(g1, u1, v1, g2, u2, v2):
    return _deep_eq(dict(g1.edges[u1, v1]), dict(g2.edges[u2, v2]))


@spec('same_edge_attrs', _n_same_edge_attrs)
def _s_same_edge_attrs(eng, st, g1, u1, v1, g2, u2, v2):
    h = st.heap
    parts = []
    for name, (suf, ty) in _H.EDGE_SCHEMA.items():
        parts.append(h.ehas(g1.t, u1.t, v1.t, suf) == h.ehas(g2.t, u2.t, v2.t, suf))
        parts.append(z3.Implies(h.ehas(g1.t, u1.t, v1.t, suf), h.evalue(g1.t, u1.t, v1.t, suf) == h.evalue(g2.t, u2.t, v2.t, suf)))
    return Val(TBool, z3.And(*parts))


def _n_max_node_key(g):
    return max(g.nodes)


@spec('max_node_key', _n_max_node_key, ret=TInt)
def _s_max_node_key(eng, st, g):
    """max(G.nodes) as a function of the node list (defined when the graph is not empty)."""
    lst = st.heap.nodes(g.t)
    F = _fold_uf('max_node_key', lst.sort(), z3.IntSort())
    m = F(lst, z3.IntVal(0))
    arr, ln = _H.T_NODELIST.arr(lst), _H.T_NODELIST.length(lst)
    j = z3.Int(fresh_name('mj'))
    k = z3.Int(fresh_name('mk'))
    st.assume(z3.Implies(ln > 0, z3.And(z3.Exists([j], z3.And(0 <= j, j < ln, arr[j] == m)),
                                        z3.ForAll([k], z3.Implies(z3.And(0 <= k, k < ln), arr[k] <= m)))))
    return Val(TInt, m)


def _n_list_max(xs):
    return max(xs)


@spec('list_max', _n_list_max, ret=TInt)
def _s_list_max(eng, st, xs):
    F = _fold_uf('list_max', xs.ty.sort(), z3.IntSort())
    m = F(xs.t, z3.IntVal(0))
    arr, ln = ops.list_arr(xs), ops.list_len(xs)
    j = z3.Int(fresh_name('mj'))
    k = z3.Int(fresh_name('mk'))
    st.assume(z3.Implies(ln > 0, z3.And(z3.Exists([j], z3.And(0 <= j, j < ln, arr[j] == m)),
                                        z3.ForAll([k], z3.Implies(z3.And(0 <= k, k < ln), arr[k] <= m)))))
    return Val(TInt, m)


def _n_edge_index(g, u, v):
    for i, (a, b) in enumerate(g.edges):
        if (a, b) == (u, v) or (a, b) == (v, u):
            return i
    return -1


@spec('edge_index', _n_edge_index, ret=TInt)
def _s_edge_index(eng, st, g, u, v):
    return Val(TInt, st.heap.get('eidx')[g.t][u.t][v.t])


# ---------------------------------------------------------------------------- frame helpers (current heap vs old heap)
OLD_SPECS = {'node_unchanged', 'edge_unchanged', 'attr_unchanged'}


def _n_node_unchanged2(g, g_old, n):
    return n in g.nodes and n in g_old.nodes and _deep_eq(dict(g.nodes[n]), dict(g_old.nodes[n]))


def _n_edge_unchanged2(g, g_old, u, v):
    if g.has_edge(u, v) != g_old.has_edge(u, v):
        return False
    return (not g.has_edge(u, v)) or _deep_eq(dict(g.edges[u, v]), dict(g_old.edges[u, v]))


def _n_attr_unchanged2(g, g_old, n, k):
    a, b = g.nodes[n], g_old.nodes[n]
    return (k in a) == (k in b) and (k not in a or _deep_eq(a[k], b[k]))


NATIVE_OLD = {'node_unchanged': _n_node_unchanged2, 'edge_unchanged': _n_edge_unchanged2, 'attr_unchanged': _n_attr_unchanged2}


@spec('node_unchanged', None)
def _s_node_unchanged(eng, st, g, n, old=None):
    if old is None:
        raise Unsupported('node_unchanged outside a two-state context')
    h, o = st.heap, old.heap
    parts = [h.has_node(g.t, n.t) == o.has_node(g.t, n.t), h.get('rest')[g.t][n.t] == o.get('rest')[g.t][n.t]]
    for suf in h.all_node_attr_comps():
        parts.append(h.nhas(g.t, n.t, suf) == o.nhas(g.t, n.t, suf))
        parts.append(z3.Implies(h.nhas(g.t, n.t, suf), h.nval(g.t, n.t, suf) == o.nval(g.t, n.t, suf)))
    return Val(TBool, z3.And(*parts))


@spec('edge_unchanged', None)
def _s_edge_unchanged(eng, st, g, u, v, old=None):
    if old is None:
        raise Unsupported('edge_unchanged outside a two-state context')
    h, o = st.heap, old.heap
    parts = [h.has_edge(g.t, u.t, v.t) == o.has_edge(g.t, u.t, v.t)]
    for suf in h.all_edge_attr_comps():
        parts.append(h.ehas(g.t, u.t, v.t, suf) == o.ehas(g.t, u.t, v.t, suf))
        parts.append(z3.Implies(h.ehas(g.t, u.t, v.t, suf), h.evalue(g.t, u.t, v.t, suf) == o.evalue(g.t, u.t, v.t, suf)))
    return Val(TBool, z3.And(*parts))


def _n_same_attr(g1, n1, g2, n2, k):
    a, b = g1.nodes[n1], g2.nodes[n2]
    return (k in a) == (k in b) and (k not in a or _deep_eq(a[k], b[k]))


@spec('same_attr', _n_same_attr)
def _s_same_attr(eng, st, g1, n1, g2, n2, k):
    name = _cstr(k)
    h = st.heap
    s1, s2 = _H.NODE_SCHEMAS[g1.ty.schema][name], _H.NODE_SCHEMAS[g2.ty.schema][name]
    if s1[0] != s2[0]:
        raise Unsupported('attribute %s has different representations in the two graph kinds' % name)
    suf = s1[0]
    return Val(TBool, z3.And(h.nhas(g1.t, n1.t, suf) == h.nhas(g2.t, n2.t, suf),
                             z3.Implies(h.nhas(g1.t, n1.t, suf), h.nval(g1.t, n1.t, suf) == h.nval(g2.t, n2.t, suf))))


KNOWN_ATTRS = ('bonding', 'fragid', 'fragname', 'atomname', 'element', 'aromatic', 'hcount', 'charge', 'weight', 'graph',
               'mapping', 'position', 'ez_isomer_atoms', 'single_h_frag', 'order')


def _n_same_other_attrs(g1, n1, g2, n2):
    a = {k: v for k, v in g1.nodes[n1].items() if k not in KNOWN_ATTRS}
    b = {k: v for k, v in g2.nodes[n2].items() if k not in KNOWN_ATTRS}
    return _deep_eq(a, b)


@spec('same_other_attrs', _n_same_other_attrs)
def _s_same_other_attrs(eng, st, g1, n1, g2, n2):
    """All attributes outside the modelled schema (one opaque value per node)."""
    h = st.heap
    return Val(TBool, h.get('rest')[g1.t][n1.t] == h.get('rest')[g2.t][n2.t])


def _n_same_has_attr(g1, n1, g2, n2, k):
    return (k in g1.nodes[n1]) == (k in g2.nodes[n2])


@spec('same_has_attr', _n_same_has_attr)
def _s_same_has_attr(eng, st, g1, n1, g2, n2, k):
    name = _cstr(k)
    h = st.heap
    s1, s2 = _H.NODE_SCHEMAS[g1.ty.schema][name], _H.NODE_SCHEMAS[g2.ty.schema][name]
    return Val(TBool, h.nhas(g1.t, n1.t, s1[0]) == h.nhas(g2.t, n2.t, s2[0]))


def _n_node_index(g, n):
    return list(g.nodes).index(n)


@spec('node_index', _n_node_index, ret=TInt)
def _s_node_index(eng, st, g, n):
    return Val(TInt, st.heap.node_index(g.t, n.t))


def _n_same_eattr(g1, u1, v1, g2, u2, v2, k):
    a, b = g1.edges[u1, v1], g2.edges[u2, v2]
    return (k in a) == (k in b) and (k not in a or _deep_eq(a[k], b[k]))


@spec('same_eattr', _n_same_eattr)
def _s_same_eattr(eng, st, g1, u1, v1, g2, u2, v2, k):
    suf, ty = _H.EDGE_SCHEMA[_cstr(k)]
    h = st.heap
    return Val(TBool, z3.And(h.ehas(g1.t, u1.t, v1.t, suf) == h.ehas(g2.t, u2.t, v2.t, suf),
                             z3.Implies(h.ehas(g1.t, u1.t, v1.t, suf), h.evalue(g1.t, u1.t, v1.t, suf) == h.evalue(g2.t, u2.t, v2.t, suf))))


def _n_without_first(xs, x):
    ys = list(xs)
    ys.remove(x)
    return ys


@spec('without_first', _n_without_first)
def _s_without_first(eng, st, xs, x):
    nb, present, axioms, k = ops.list_remove_first(xs, x)
    st.assume(*axioms)
    return nb


def _n_ends_in_digit(d):
    return len(d) >= 1 and d[-1] in '0123456789'


@spec('ends_in_digit', _n_ends_in_digit)
def _s_ends_in_digit(eng, st, d):
    last = z3.SubString(d.t, z3.Length(d.t) - 1, 1)
    return Val(TBool, z3.And(z3.Length(d.t) >= 1, z3.Or(*[last == z3.StringVal(c) for c in '0123456789'])))


def _n_key_index(d, k):
    return list(d).index(k)


@spec('key_index', _n_key_index, ret=TInt)
def _s_key_index(eng, st, d, k):
    return Val(TInt, d.ty.idx(d.t)[ops.coerce(k, d.ty.key).t])


@spec('fresh_graph', lambda g: True)
def _s_fresh_graph(eng, st, g):
    """The graph was allocated by the function under contract (its id is not below the entry allocation counter).
    Natively unobservable (always true): used only in loop invariants."""
    return Val(TBool, g.t >= eng.entry_next_gid)


@spec('comb_pos', None, ret=TInt)
def _s_comb_pos(eng, st, c, lst, i, j):
    """Position of the pair (lst[i], lst[j]), i < j, in c = itertools.combinations(lst, 2) (SMT only, for loop invariants)."""
    from . import models as _m
    return Val(TInt, _m.comb_ufs(lst.ty)[2](c.t, ops.to_int(i), ops.to_int(j)))


def _n_known_element(e):
    import pysmiles
    return e in pysmiles.PTE


@spec('known_element', _n_known_element)
def _s_known_element(eng, st, e):
    """The element symbol is a key of pysmiles.PTE."""
    from . import models as _m
    return Val(TBool, _m.PTE_KNOWN(e.t))


def _n_same_graph(a, b):
    # an old() snapshot is a deep copy that remembers the object it was taken from
    oa = getattr(a, '_pyvc_orig', a)
    ob = getattr(b, '_pyvc_orig', b)
    return oa is ob


@spec('same_graph', _n_same_graph)
def _s_same_graph(eng, st, a, b):
    """Reference identity of two graphs (in a postcondition old(G) names the object G referred to at entry)."""
    return Val(TBool, a.t == b.t)


@spec('attr_unchanged', None)
def _s_attr_unchanged(eng, st, g, n, k, old=None):
    if old is None:
        raise Unsupported('attr_unchanged outside a two-state context')
    suf, ty = _H.NODE_SCHEMAS[g.ty.schema][_cstr(k)]
    h, o = st.heap, old.heap
    return Val(TBool, z3.And(h.nhas(g.t, n.t, suf) == o.nhas(g.t, n.t, suf),
                             z3.Implies(h.nhas(g.t, n.t, suf), h.nval(g.t, n.t, suf) == o.nval(g.t, n.t, suf))))


def _n_has_neighbor(g, n):
    return len(list(g.neighbors(n))) > 0


@spec('has_neighbor', _n_has_neighbor)
def _s_has_neighbor(eng, st, g, n):
    m = z3.Int(fresh_name('nb'))
    return Val(TBool, z3.Exists([m], st.heap.has_edge(g.t, n.t, m)))
