"""
Run-time evaluation of the SAME contract text on the real functions (DESIGN §3.1).

Used for (a) replaying / finding a failing input when an obligation is refuted, (b) the bounded
stand-in tier (contracts enforced around the real functions while generators drive the public
API), (c) the native-vs-SMT cross-check of contract text.
"""
import ast
import copy
import importlib
import inspect
import sys
import traceback

from . import contract as C
from . import speclib


class SmtOnly(Exception):
    """Clause uses a construct with no native evaluation (unbounded quantifier): skipped natively."""


def _names(node):
    return {n.id for n in ast.walk(node) if isinstance(n, ast.Name)}


def _rewrite(tree, olds):
    """old(E): E is evaluated on the entry state.  When E mentions a variable bound by an enclosing comprehension it cannot be
    evaluated at entry as a whole: its maximal sub-expressions WITHOUT bound variables are snapshotted at entry instead and the
    rest is evaluated afterwards (sound because spec functions are pure functions of their arguments)."""
    class R(ast.NodeTransformer):
        def __init__(self):
            self.bound = []

        def _snap(self, expr):
            name = '__old_%d' % len(olds)
            olds.append((name, expr))
            return ast.copy_location(ast.Name(id=name, ctx=ast.Load()), expr)

        def _old_of(self, e):
            bound = set(self.bound)
            if not (_names(e) & bound):
                return self._snap(e)
            outer = self

            class S(ast.NodeTransformer):
                def visit(self, n):
                    if isinstance(n, ast.expr) and not isinstance(n, (ast.Constant, ast.Name)) and not (_names(n) & bound) \
                            and not isinstance(n, ast.Lambda):
                        return outer._snap(n)
                    if isinstance(n, ast.Name):
                        # a free state variable (parameter, self): snapshot; bound variables and function names stay
                        return n
                    if isinstance(n, ast.Call) and isinstance(n.func, ast.Name):
                        n.args = [self.visit(a) if not isinstance(a, ast.Name) or a.id in bound else outer._snap(a) for a in n.args]
                        return n
                    return self.generic_visit(n)
            return S().visit(e)

        def _with_bound(self, node, gens):
            n0 = len(self.bound)
            for gen in gens:
                gen.iter = self.visit(gen.iter)
                self.bound.extend(_names(gen.target))
                gen.ifs = [self.visit(i) for i in gen.ifs]
            if hasattr(node, 'elt'):
                node.elt = self.visit(node.elt)
            else:
                node.key = self.visit(node.key)
                node.value = self.visit(node.value)
            del self.bound[n0:]
            return node

        def visit_GeneratorExp(self, node):
            return self._with_bound(node, node.generators)

        visit_ListComp = visit_SetComp = visit_GeneratorExp

        def visit_DictComp(self, node):
            return self._with_bound(node, node.generators)

        def visit_Call(self, node):
            if isinstance(node.func, ast.Name) and node.func.id == 'old':
                return self._old_of(node.args[0])
            if isinstance(node.func, ast.Name) and node.func.id in speclib.NATIVE_OLD:
                # two-state helper: f(G, ...) -> f2(G, old(G), ...)
                g = node.args[0]
                oldg = ast.Call(func=ast.Name(id='old', ctx=ast.Load()), args=[g], keywords=[])
                node = ast.Call(func=ast.Name(id='__2state_' + node.func.id, ctx=ast.Load()), args=[g, oldg] + node.args[1:], keywords=[])
            self.generic_visit(node)
            if isinstance(node.func, ast.Name):
                if node.func.id == 'implies':
                    return ast.copy_location(
                        ast.BoolOp(op=ast.Or(), values=[ast.UnaryOp(op=ast.Not(), operand=node.args[0]), node.args[1]]), node)
                if node.func.id in ('forall_int', 'exists_int', 'forall_typed'):
                    raise SmtOnly(node.func.id)
            return node
    return ast.fix_missing_locations(R().visit(tree))


class Clause:
    def __init__(self, text):
        self.text = text
        self.olds = []
        self.smt_only = False
        try:
            tree = ast.parse(text.strip(), mode='eval')
            tree = _rewrite(tree, self.olds)
            self.code = compile(tree, '<contract>', 'eval')
            self.old_codes = [(n, compile(ast.fix_missing_locations(ast.Expression(body=e)), '<old>', 'eval')) for n, e in self.olds]
        except SmtOnly:
            self.smt_only = True


def native_globals():
    g = {name: sp.native for name, sp in speclib.SPEC_FUNCS.items() if sp.native is not None}
    for name, fn in speclib.NATIVE_OLD.items():
        g['__2state_' + name] = fn
    from . import native_graph
    g.update(native_graph.NATIVE)
    return g


class Checked:
    """Result of one monitored call."""

    def __init__(self):
        self.pre_ok = True
        self.errors = []         # contract text that could not be evaluated natively (never a verdict)
        self.violations = []     # (clause kind, text, detail)
        self.result = None
        self.exc = None


_STACK = []              # (target, code object) of the functions under contract whose body is running with its precondition true


def pre_holds(con, fn, args=(), kwargs=None):
    """Only the precondition of `con` on this call (no call of fn)."""
    try:
        ba = inspect.signature(fn).bind(*args, **dict(kwargs or {}))
        ba.apply_defaults()
        env = dict(ba.arguments)
        g = native_globals()
        for p, value in con.fix.items():
            if env.get(p) != value:
                return False
        for r in con.requires:
            cl = Clause(r)
            if cl.smt_only:
                continue
            if not eval(cl.code, {**g, **env}):
                return False
        return True
    except Exception:  # noqa
        return False


def check_call(con, fn, args=(), kwargs=None, self_obj=None, reraise=False):
    kwargs = dict(kwargs or {})
    out = Checked()
    sig = inspect.signature(fn)
    if self_obj is not None:
        ba = sig.bind(self_obj, *args, **kwargs)
    else:
        ba = sig.bind(*args, **kwargs)
    ba.apply_defaults()
    env = dict(ba.arguments)
    g = native_globals()
    for p, value in con.fix.items():
        if env.get(p) != value:
            out.pre_ok = False
            out.violations.append(('requires', '%s == %r' % (p, value), 'precondition false'))
            return out
    for r in con.requires:
        cl = Clause(r)
        if cl.smt_only:
            continue
        try:
            if not eval(cl.code, {**g, **env}):
                out.pre_ok = False
                out.violations.append(('requires', r, 'precondition false'))
                return out
        except Exception as e:  # noqa
            out.pre_ok = False
            out.errors.append(('requires', r, 'precondition raised %s: %s' % (type(e).__name__, e)))
            return out
    ens = [Clause(e) for e in list(con.ensures) + list(getattr(con, 'native_ensures', ()))]
    raises = {en: (Clause(sp['when']) if sp.get('when') else None, sp) for en, sp in con.raises.items()}
    olds = {}
    for cl in ens + [c for c, _ in raises.values() if c is not None]:
        if cl.smt_only:
            continue
        for name, code in cl.old_codes:
            try:
                cur = eval(code, {**g, **env})
                snap = copy.deepcopy(cur)
                if hasattr(cur, 'nodes') and hasattr(cur, 'edges') and hasattr(snap, '__dict__'):
                    snap._pyvc_orig = cur          # lets same_graph(x, old(G)) compare object identity
                olds[(id(cl), name)] = snap
            except Exception as e:  # noqa
                olds[(id(cl), name)] = e
    # `when` clauses of raises are evaluated on the entry state
    when_vals = {}
    for en, (cl, sp) in raises.items():
        if cl is not None and not cl.smt_only:
            try:
                when_vals[en] = bool(eval(cl.code, {**g, **env}))
            except Exception as e:  # noqa
                when_vals[en] = None
    scope = _EventScope(con, fn, g)
    n_callpre = len(CALLPRE)
    _STACK.append((con.target, getattr(fn, '__code__', None)))
    try:
        try:
            with scope:
                if self_obj is not None:
                    out.result = fn(self_obj, *args, **kwargs)
                else:
                    out.result = fn(*args, **kwargs)
        finally:
            _STACK.pop()
            # a callee under contract was called outside every one of its preconditions although this function's own
            # precondition holds: the (discharged) call-pre obligation of this function is violated on this input
            for tgt, callee, clause in CALLPRE[n_callpre:]:
                if tgt == con.target:
                    out.violations.append(('call-pre', '%s: %s' % (callee, clause), 'callee called outside its precondition'))
            del CALLPRE[n_callpre:]
        for kind, text, detail in scope.bad:
            (out.errors if kind == 'error' else out.violations).append((kind, text, detail))
    except Exception as e:  # noqa
        for kind, text, detail in scope.bad:
            (out.errors if kind == 'error' else out.violations).append((kind, text, detail))
        out.exc = e
        name = type(e).__name__
        matched = None
        for en in raises:
            cls = getattr(__builtins__, en, None) if not isinstance(__builtins__, dict) else __builtins__.get(en)
            if cls is not None and isinstance(e, cls):
                matched = en
                break
        if matched is None:
            out.violations.append(('no-exc', 'raises ' + name, 'unexpected %s: %s' % (name, e)))
        elif when_vals.get(matched) is False:
            out.violations.append(('exc-post', 'raises %s when %s' % (matched, raises[matched][1].get('when')),
                                   '%s raised although its condition is false' % name))
        return out
    for en, (cl, sp) in raises.items():
        if sp.get('iff') and when_vals.get(en) is True:
            out.violations.append(('post', 'raises %s iff %s' % (en, sp['when']), 'returned normally although the condition holds'))
    for cl in ens:
        if cl.smt_only:
            continue
        loc = dict(env)
        loc.update(scope.ghosts)          # final values of the ghost variables
        loc['result'] = out.result
        for name, _ in cl.old_codes:
            loc[name] = olds[(id(cl), name)]
        try:
            ok = bool(eval(cl.code, {**g, **loc}))
        except Exception as e:  # noqa
            out.errors.append(('post', cl.text, 'clause raised %s: %s' % (type(e).__name__, e)))
            continue
        if not ok:
            out.violations.append(('post', cl.text, 'clause is false; result=%r' % (out.result,)))
    return out


def resolve_function(con, repo=None):
    mod = importlib.import_module(con.module)
    obj = mod
    for part in con.qualname.split('.'):
        obj = getattr(obj, part)
    return getattr(obj, '__wrapped_by_monitor__', obj)


def find_failing_input(rec, repo, limit=20000):
    """Search the contract's concrete examples for an input on which the real function violates the contract."""
    con = C.lookup(rec['target'], rec.get('variant') or None) or C.lookup(rec['target'])
    if con is None or con.examples is None:
        rec['replay_note'] = 'no concrete example generator for this contract'
        return False
    fn = resolve_function(con)
    n = 0
    for ex in con.examples():
        n += 1
        if n > limit:
            break
        ex = copy.deepcopy(ex)
        try:
            res = check_call(con, fn, kwargs=ex)
        except Exception:
            continue
        if res.pre_ok and res.violations:
            rec['replay_confirmed'] = True
            rec['input'] = _jsonable(ex)
            rec['violated'] = [list(v) for v in res.violations]
            rec['observed'] = repr(res.result) if res.exc is None else 'raised %r' % (res.exc,)
            rec['examples_tried'] = n
            return True
    rec['examples_tried'] = n
    rec['replay_note'] = 'no example input violates the contract natively'
    return False


def replay(rec, repo):
    con = C.lookup(rec['target'], rec.get('variant') or None) or C.lookup(rec['target'])
    if con is None or 'input' not in rec:
        return False
    fn = resolve_function(con)
    res = check_call(con, fn, kwargs=copy.deepcopy(rec['input']))
    rec['replay_now'] = {'pre_ok': res.pre_ok, 'violations': [list(v) for v in res.violations],
                         'observed': repr(res.result) if res.exc is None else 'raised %r' % (res.exc,)}
    return bool(res.pre_ok and res.violations)


def _jsonable(x):
    try:
        import json
        json.dumps(x)
        return x
    except Exception:
        return repr(x)


def witness_run(con, limit=400):
    """Run the contract's concrete examples on the real function under the monitor.
    Serves as (a) vacuity guard by witness (a concrete input satisfies `requires`, each allowed exception is actually
    raised by some input), (b) native cross-check of the contract text against the real code."""
    out = {'examples': 0, 'pre_ok': 0, 'returned': 0, 'raised': {}, 'violations': []}
    if con.examples is None:
        return out
    try:
        fn = resolve_function(con)
    except Exception as e:  # noqa
        out['error'] = 'cannot import target: %s' % e
        return out
    it = iter(con.examples())
    while True:
        try:
            ex = next(it)
        except StopIteration:
            break
        except Exception as e:  # noqa: the preparation of an example ran repository code that failed (never a verdict)
            out.setdefault('harness_errors', []).append('example generator: %s: %s' % (type(e).__name__, e))
            break
        if out['examples'] >= limit:
            break
        out['examples'] += 1
        ex0 = copy.deepcopy(ex)
        try:
            res = check_call(con, fn, kwargs=ex)
        except Exception as e:  # noqa
            out.setdefault('harness_errors', []).append('%s: %s' % (type(e).__name__, e))
            continue
        if res.errors:
            out.setdefault('clause_errors', []).append(res.errors[0][2])
        if not res.pre_ok:
            continue
        out['pre_ok'] += 1
        if res.exc is not None:
            n = type(res.exc).__name__
            out['raised'][n] = out['raised'].get(n, 0) + 1
        else:
            out['returned'] += 1
        if res.violations and len(out['violations']) < 3:
            out['violations'].append({'input': _jsonable(_describe(ex0)), 'violated': [list(v) for v in res.violations],
                                      'observed': repr(res.result) if res.exc is None else 'raised %r' % (res.exc,)})
    return out


def _describe(ex):
    import networkx as nx
    out = {}
    for k, v in ex.items():
        if isinstance(v, nx.Graph):
            out[k] = {'nodes': [[n, dict(d)] for n, d in v.nodes(data=True)], 'edges': [[a, b, dict(d)] for a, b, d in v.edges(data=True)]}
        else:
            out[k] = v
    return out


# ================================================================================================ installation
VIOLATIONS = []          # drained by the bounded-tier runner after every case
CALLPRE = []             # (caller target, callee target, failing clause) recorded by monitored callees
CALLS = {}
STATS = {}               # target -> number of monitored evaluations
_INSTALLED = []
_ACTIVE = set()          # re-entrancy guard: (target) currently being checked


class _EventScope:
    """Native evaluation of the `on_call` ghost code of a contract while its function runs."""

    def __init__(self, con, fn, g):
        self.con = con
        self.code = getattr(fn, '__code__', None)
        self.g = g
        self.ghosts = {}
        self.patches = []
        self.bad = []

    def __enter__(self):
        if not self.con.on_call:
            return self
        for name, (ty, init) in self.con.ghosts.items():
            try:
                self.ghosts[name] = eval(init, dict(self.g))
            except Exception:
                self.ghosts[name] = None
        import networkx as nx
        mod = importlib.import_module(self.con.module)
        for label in self.con.on_call:
            if hasattr(nx.Graph, label) and not hasattr(mod, label):
                orig = getattr(nx.Graph, label)
                setattr(nx.Graph, label, self._wrap(orig, label, method=True))
                self.patches.append((nx.Graph, label, orig))
            elif hasattr(mod, label):
                orig = getattr(mod, label)
                setattr(mod, label, self._wrap(orig, label, method=False))
                self.patches.append((mod, label, orig))
            elif '.' in self.con.qualname and hasattr(getattr(mod, self.con.qualname.split('.')[0], None), label):
                # a method of the same class (self.add_fragment(...) inside MoleculeSampler.sample)
                cls = getattr(mod, self.con.qualname.split('.')[0])
                orig = cls.__dict__.get(label, getattr(cls, label))
                setattr(cls, label, self._wrap(getattr(cls, label), label, method=True))
                self.patches.append((cls, label, orig))
        return self

    def __exit__(self, *a):
        for obj, name, orig in reversed(self.patches):
            setattr(obj, name, orig)
        return False

    def _wrap(self, orig, label, method):
        scope = self

        def wrapper(*args, **kwargs):
            frame = sys._getframe(1)
            failed = None
            try:
                res = orig(*args, **kwargs)
            except Exception as e:  # noqa
                if frame.f_code is not scope.code:
                    raise
                failed, res = e, None
            if frame.f_code is not scope.code:
                return res            # event raised from somewhere else than the function under contract
            env = dict(scope.g)
            env.update(frame.f_locals)
            env.update(scope.ghosts)
            env['result'] = res
            pos = args[1:] if method else args
            for i, a in enumerate(pos):
                env['arg%d' % i] = a
            for k, v in kwargs.items():
                env['kw_' + k] = v
            if not method:
                try:
                    ba = inspect.signature(getattr(orig, '__wrapped_by_monitor__', orig)).bind(*args, **kwargs)
                    ba.apply_defaults()
                    for k, v in ba.arguments.items():
                        env['arg_' + k] = v
                except Exception:
                    pass
            for item in scope.con.on_call[label]:
                item = item.strip()
                if failed is not None and (not item.startswith('assert ') and 'result' in item
                                           or item.startswith('assert ') and any(t in item for t in ('result', 'attr(', 'has_', 'nodes(', 'edge', 'old('))):
                    # the callee raised: only what is about the ARGUMENTS of the call (and the ghost counters) is evaluated
                    continue
                try:
                    if item.startswith('assert '):
                        cl = Clause(item[len('assert '):])
                        if cl.smt_only or cl.olds:
                            continue
                        if not eval(cl.code, env):
                            scope.bad.append(('ghost', item[len('assert '):], 'assertion at %s event is false' % label))
                    else:
                        tgt, expr = item.split('=', 1)
                        val = eval(compile(expr.strip(), '<ghost>', 'eval'), env)
                        scope.ghosts[tgt.strip()] = copy.deepcopy(val) if isinstance(val, (list, dict)) else val
                        env[tgt.strip()] = scope.ghosts[tgt.strip()]
                except Exception as e:  # noqa: contract text could not be evaluated: never a verdict
                    scope.bad.append(('error', item, '%s: %s' % (type(e).__name__, e)))
            if failed is not None:
                raise failed
            return res
        return wrapper


def _fitting_contracts(cons, bound):
    """The variants whose declared parameter types fit the actual arguments (all of them when none fits)."""
    out = []
    for con in cons:
        ok = True
        for p, t in con.types.items():
            v = bound.get(p)
            if t.startswith('Dict') and not isinstance(v, dict):
                ok = False
            if t.startswith('List') and not isinstance(v, (list, tuple)):
                ok = False
        if ok:
            out.append(con)
    return out or list(cons)


def _select_contract(cons, bound):
    """Pick the variant whose declared parameter types fit the actual arguments."""
    if len(cons) == 1:
        return cons[0]
    for con in cons:
        ok = True
        for p, t in con.types.items():
            v = bound.get(p)
            if t.startswith('Dict') and not isinstance(v, dict):
                ok = False
            if t.startswith('List') and not isinstance(v, (list, tuple)):
                ok = False
        if ok:
            return con
    return cons[0]


def _make_monitored(fn, cons, is_method):
    target0 = cons[0].target

    def monitored(*args, **kwargs):
        target = target0
        # rate limit first (cheap): the first 40 calls of each function in a worker are checked, then every 40th
        n_calls = CALLS.get(target, 0) + 1
        CALLS[target] = n_calls
        if (n_calls > 40 and n_calls % 40) or target in _ACTIVE:
            return fn(*args, **kwargs)
        try:
            sig = inspect.signature(fn)
            ba = sig.bind(*args, **kwargs)
            ba.apply_defaults()
        except TypeError:
            return fn(*args, **kwargs)
        cands = _fitting_contracts(cons, ba.arguments)
        con = cands[0]
        if len(cands) > 1 or _STACK:
            holding = [c for c in cands if pre_holds(c, fn, args, kwargs)]
            if holding:
                con = holding[0]
            elif _STACK and not any(t == target and c.trusted for (t, v), c in C.REGISTRY.items()):
                # (a callee that also has an ASSUMED contract variant is excluded: the caller may have been verified against that one)
                caller = sys._getframe(1)
                if caller.f_code is _STACK[-1][1]:
                    CALLPRE.append((_STACK[-1][0], target, '; '.join(cands[0].requires)[:300]))
        _ACTIVE.add(target)
        try:
            STATS[target] = STATS.get(target, 0) + 1
            res = check_call(con, fn, args=args, kwargs=kwargs, reraise=True)
        finally:
            _ACTIVE.discard(target)
        if not res.pre_ok:
            # outside the contract's precondition nothing is checked, but the real function must of course still run
            res.exc = None
            try:
                res.result = fn(*args, **kwargs)
            except Exception as e:  # noqa
                res.exc = e
            if res.violations:
                VIOLATIONS.append({'target': target, 'kind': 'requires', 'clause': res.violations[0][1],
                                   'detail': 'precondition of a function under contract is false at a call made by the pipeline'})
            elif res.errors:
                VIOLATIONS.append({'target': target, 'kind': 'requires', 'clause': res.errors[0][1], 'detail': res.errors[0][2]})
        else:
            for kind, text, detail in res.violations:
                VIOLATIONS.append({'target': target, 'kind': kind, 'clause': text, 'detail': detail})
        if res.exc is not None:
            raise res.exc
        return res.result
    monitored.__wrapped_by_monitor__ = fn
    monitored.__name__ = getattr(fn, '__name__', 'monitored')
    monitored.__doc__ = getattr(fn, '__doc__', None)
    return monitored


def install_all(only=None):
    """Wrap every function under contract (module attribute, class attribute and every alias created by
    `from x import f` inside the cgsmiles package) with the run-time contract check."""
    if _INSTALLED:
        return
    from . import run as pyrun
    pyrun.load_contracts()
    by_target = {}
    for (tgt, var), con in C.REGISTRY.items():
        if con.trusted or getattr(con, 'draft', False) or (only and tgt not in only):
            continue
        by_target.setdefault(tgt, []).append(con)
    import pkgutil
    import cgsmiles
    mods = []
    for m in pkgutil.iter_modules(cgsmiles.__path__):
        if m.name in ('tests',):
            continue
        try:
            mods.append(importlib.import_module('cgsmiles.' + m.name))
        except Exception:
            pass
    for tgt, cons in by_target.items():
        modname, qual = tgt.split(':')
        try:
            mod = importlib.import_module(modname)
            parts = qual.split('.')
            owner = mod
            for p in parts[:-1]:
                owner = getattr(owner, p)
            fn = getattr(owner, parts[-1])
        except Exception:
            continue
        raw = fn.__func__ if isinstance(fn, (staticmethod, classmethod)) else fn
        wrapped = _make_monitored(raw, cons, len(parts) > 1)
        setattr(owner, parts[-1], wrapped)
        _INSTALLED.append((owner, parts[-1], fn))
        if len(parts) == 1:
            for other in mods + [cgsmiles]:
                for name, val in list(vars(other).items()):
                    if val is raw and other is not owner:
                        setattr(other, name, wrapped)
                        _INSTALLED.append((other, name, raw))


def drain():
    out = list(VIOLATIONS)
    del VIOLATIONS[:]
    return out
