"""Sidecar contract objects (DESIGN §2.4).  Nothing in here touches /repo."""

REGISTRY = {}      # (target, variant) -> Contract
ORDER = []


class Loop:
    def __init__(self, over=None, invariant=(), modifies=None, kind=None, hints=(), lemmas=(), pre_lemmas=(), exit_lemmas=()):
        self.exit_lemmas = list(exit_lemmas)  # assertions proved in the state right after the loop (then available to what follows)
        self.pre_lemmas = list(pre_lemmas)  # assertions proved at the start of the body (after the loop variable is bound)
        self.lemmas = list(lemmas)        # intermediate assertions proved at the end of the body, then available to the invariant proofs
        self.hints = list(hints)          # ground spec expressions evaluated after the body (seed instances of opaque functions)
        self.over = over              # source text of the iterable / while test the invariant was written for
        self.invariant = list(invariant)
        self.modifies = modifies      # graphs the loop body may write (None: the function's modifies)
        self.kind = kind              # 'for' / 'while' (None: do not check)


class Contract:
    def __init__(self, target, serves=(), types=None, returns=None, requires=(), ensures=(), raises=None,
                 loops=None, modifies=(), ghosts=None, on_call=None, examples=None, variant='', trusted=False,
                 locals=None, self_fields=None, notes='', assumes=(), lemmas=(), opaque_loops=(), fix=None, params=None,
                 rebinds=(), allocates=False, new_graph_schema='mol', opaque=(), abstract=(), heap_invariants=(), callee_clauses=None, returns_fresh=False, wf_all_graphs=False, after=None, draft=False, callee_variants=None, native_ensures=()):
        self.native_ensures = list(native_ensures)   # postconditions checked at run time only (bounded tier, refuter); never counted as proved
        self.callee_variants = dict(callee_variants or {})   # callee short name -> variant of its contract used at call sites
        self.draft = draft            # contract under development: verified on request, not enforced by the run-time monitor
        self.target = target          # 'cgsmiles.resolve:compatible' / 'cgsmiles.resolve:MoleculeResolver.resolve'
        self.variant = variant
        self.serves = list(serves)
        self.types = dict(types or {})        # parameter name -> type string
        self.returns = returns                # type string of the result (None: returns None)
        self.requires = list(requires)
        self.ensures = list(ensures)
        self.raises = dict(raises or {})      # 'LookupError' -> {'when': expr|None, 'iff': bool}
        self.loops = dict(loops or {})        # ordinal -> Loop
        self.modifies = list(modifies)        # expressions naming the graphs that may be written
        self.ghosts = dict(ghosts or {})      # name -> (type string, init expr)
        self.on_call = dict(on_call or {})    # callee name -> list of 'ghost = expr' updates run after the call
        self.examples = examples              # callable -> iterable of kwargs dicts (concrete inputs)
        self.trusted = trusted                # external / assumed contract: used at call sites, never verified
        self.locals = dict(locals or {})      # declared types of locals that start as empty containers
        self.self_fields = dict(self_fields or {})
        self.notes = notes
        self.assumes = list(assumes)          # assumptions recorded in the evidence when this contract is used
        self.lemmas = list(lemmas)
        self.opaque_loops = set(opaque_loops)  # loops summarised by havoc of their assigned names (invariant True)
        self.fix = dict(fix or {})            # parameter -> python constant it is fixed to (a precondition p == const)
        self.params = params                  # externals: [(name, default source or None)] since there is no AST to read
        self.rebinds = list(rebinds)          # 'self.x' fields the method re-binds
        self.allocates = allocates            # creates graphs (heap must be havoc'd even without a modifies clause)
        self.new_graph_schema = new_graph_schema
        self.after = dict(after or {})        # statement source text -> lemmas proved (then available) right after that statement
        self.wf_all_graphs = wf_all_graphs    # assume well-formedness of every allocated graph (graphs reached via dicts / attributes)
        self.returns_fresh = returns_fresh    # the returned graph is newly allocated by the call
        self.callee_clauses = dict(callee_clauses or {})   # callee name -> substrings selecting which of its ensures are used here
        self.heap_invariants = set(heap_invariants)   # data invariants assumed of every graph and re-proved at each write
        self.abstract = set(abstract)         # spec functions used as fully uninterpreted symbols here (no definition needed)
        self.opaque = set(opaque) | self.abstract             # spec functions whose definition is hidden in this function's VCs

    @property
    def key(self):
        return (self.target, self.variant)

    @property
    def module(self):
        return self.target.split(':')[0] if ':' in self.target else self.target.rsplit('.', 1)[0]

    @property
    def qualname(self):
        return self.target.split(':')[1] if ':' in self.target else self.target.rsplit('.', 1)[1]

    def clause_count(self):
        return len(self.requires) + len(self.ensures) + len(self.raises) + sum(len(l.invariant) for l in self.loops.values())


def contract(**kw):
    c = Contract(**kw)
    REGISTRY[c.key] = c
    ORDER.append(c.key)
    return c


def lookup(target, variant=None):
    if variant is not None:
        return REGISTRY.get((target, variant))
    if (target, '') in REGISTRY:
        return REGISTRY[(target, '')]
    for (t, v), c in REGISTRY.items():
        if t == target:
            return c
    return None


def variants(target):
    return [c for (t, v), c in REGISTRY.items() if t == target]
