"""
Mechanical extraction of the functions under contract from the working tree.

On every run the module source is re-read from $REPO, parsed with `ast`, and the FunctionDef is
located by qualified name (never by line number).  What extraction drops — and nothing else:
  * the docstring (first statement when it is a string constant),
  * comments (not part of the AST),
  * type annotations (none in this code base),
  * decorators @staticmethod / @classmethod (calling convention only),
  * bare-expression calls to print / logger.* / LOGGER.* (listed per function in the evidence).
Everything else must be interpreted by the symbolic executor or the function is out-of-subset.
"""
import ast
import hashlib
import os


class ModuleInfo:
    def __init__(self, repo, modname):
        self.modname = modname
        self.path = os.path.join(repo, *modname.split('.')) + '.py'
        with open(self.path) as fh:
            self.source = fh.read()
        self.tree = ast.parse(self.source, filename=self.path)
        self.imports = {}      # local name -> canonical dotted name ('networkx', 'cgsmiles.graph_utils:merge_graphs')
        self.constants = {}    # module-level NAME = literal
        self.functions = {}    # qualname -> FunctionDef
        self.classes = {}
        self._scan()

    def _scan(self):
        pkg = self.modname.rsplit('.', 1)[0] if '.' in self.modname else ''
        for node in self.tree.body:
            if isinstance(node, ast.Import):
                for a in node.names:
                    self.imports[a.asname or a.name.split('.')[0]] = a.name if a.asname else a.name.split('.')[0]
            elif isinstance(node, ast.ImportFrom):
                base = node.module or ''
                if node.level:
                    parts = self.modname.split('.')[:-node.level]
                    base = '.'.join(parts + ([node.module] if node.module else []))
                for a in node.names:
                    self.imports[a.asname or a.name] = base + ':' + a.name
            elif isinstance(node, ast.FunctionDef):
                self.functions[node.name] = node
                self.imports.setdefault(node.name, self.modname + ':' + node.name)
            elif isinstance(node, ast.ClassDef):
                self.classes[node.name] = node
                for sub in node.body:
                    if isinstance(sub, ast.FunctionDef):
                        self.functions[node.name + '.' + sub.name] = sub
            elif isinstance(node, ast.Assign) and len(node.targets) == 1 and isinstance(node.targets[0], ast.Name):
                try:
                    self.constants[node.targets[0].id] = ast.literal_eval(node.value)
                except Exception:
                    pass

    def function(self, qualname):
        return self.functions[qualname]

    def segment(self, fn):
        return ast.get_source_segment(self.source, fn)


def body_without_docstring(fn):
    body = list(fn.body)
    if body and isinstance(body[0], ast.Expr) and isinstance(getattr(body[0], 'value', None), ast.Constant) \
            and isinstance(body[0].value.value, str):
        body = body[1:]
    return body


def source_hash(text):
    return hashlib.sha256(text.encode()).hexdigest()[:16]


def is_dropped_call(stmt):
    """print(...) / logger.x(...) / LOGGER.x(...) as a bare statement."""
    if not (isinstance(stmt, ast.Expr) and isinstance(stmt.value, ast.Call)):
        return None
    f = stmt.value.func
    if isinstance(f, ast.Name) and f.id == 'print':
        return 'print'
    if isinstance(f, ast.Attribute) and isinstance(f.value, ast.Name) and f.value.id in ('logger', 'LOGGER'):
        return f.value.id + '.' + f.attr
    return None


def param_defaults(fn):
    """name -> default AST node."""
    args = fn.args
    names = [a.arg for a in args.args]
    out = {}
    for name, d in zip(names[len(names) - len(args.defaults):], args.defaults):
        out[name] = d
    for a, d in zip(args.kwonlyargs, args.kw_defaults):
        if d is not None:
            out[a.arg] = d
    return names, out
