"""
Models of builtins, container methods and the external libraries (trusted base, DESIGN §2.9), plus
the modular treatment of calls to contracted functions (assert pre / havoc frame / assume post).
"""
import ast
import z3

from . import ops
from .ops import Unsupported, TRUE, FALSE
from .types import (TInt, TReal, TBool, TStr, TNone, TList, TTuple, TDict, TDefaultDict, TOpt, TGraph, TOpaque, TRecord,
                    Val, lift, fresh, fresh_name, parse_type)
from . import heap as H
from . import contract as C
from . import extract
from .engine import (NodesOf, NodeView, EdgesOf, EdgeView, AttrRec, ContractionView, ModuleRef, FuncRef, SeqView, State,
                     exc_canon)


class PyList:
    """A concrete Python list of (pseudo-)values known at verification time (unrolled when iterated)."""

    def __init__(self, items):
        self.items = list(items)


class PyDictConst:
    """A module-level constant dict with literal keys and values."""

    def __init__(self, d):
        self.d = dict(d)


class DefaultDictList:
    """collections.defaultdict(list): marker used by empty_container typing."""


def lift_constant(eng, value):
    if isinstance(value, dict):
        return PyDictConst(value)
    if isinstance(value, (list, tuple)):
        return PyList([lift_constant(eng, v) for v in value])
    return lift(value)


# ================================================================================================ sequences
def as_sequence(eng, st, v, node):
    if isinstance(v, SeqView):
        return v
    if isinstance(v, PyList):
        items = v.items
        if all(isinstance(x, Val) for x in items) and items and all(x.ty == items[0].ty for x in items):
            lst = ops.list_literal(TList(items[0].ty), items)
            return as_sequence(eng, st, lst, node)
        raise Unsupported('iteration over a heterogeneous constant list')
    if isinstance(v, NodesOf):
        g = v.g
        lst = Val(H.T_NODELIST, st.heap.nodes(g.t))
        if v.data is None:
            return as_sequence(eng, st, lst, node)
        if isinstance(v.data, str):
            suffix, ty = _schema_attr(g, v.data)
            ot = TOpt(ty)
            heap = st.heap

            def getter(i, lst=lst, heap=heap, g=g):
                n = ops.list_arr(lst)[i]
                val = z3.If(heap.nhas(g.t, n, suffix), ot.some(heap.nval(g.t, n, suffix)), ot.none())
                return (Val(TInt, n), Val(ot, val))
            return SeqView(ops.list_len(lst), getter, 'nodes(data=%s)' % v.data)
        if v.data is True:
            def getter2(i, lst=lst, g=g):
                n = Val(TInt, ops.list_arr(lst)[i])
                return (n, NodeView(g, n))
            return SeqView(ops.list_len(lst), getter2, 'nodes(data=True)')
        raise Unsupported('nodes(data=...)')
    if isinstance(v, EdgesOf):
        lst = Val(H.T_EDGELIST, st.heap.edges(v.g.t))
        if v.data is None:
            return as_sequence(eng, st, lst, node)
        if v.data is True:
            def getter3(i, lst=lst, g=v.g):
                e = ops.list_arr(lst)[i]
                u, w = Val(TInt, H.T_EDGE.field(e, 0)), Val(TInt, H.T_EDGE.field(e, 1))
                return (u, w, EdgeView(g, u, w))
            return SeqView(ops.list_len(lst), getter3, 'edges(data=True)')
        raise Unsupported('edges(data=...)')
    v = lift(v)
    ty = v.ty
    if isinstance(ty, TList):
        sv = SeqView(ops.list_len(v), lambda i, v=v: Val(ty.elem, ops.list_arr(v)[i]), 'list')
        sv.backing = Val(ty, v.t)
        return sv
    if isinstance(ty, TDict):
        return as_sequence(eng, st, ops.dict_keys(v), node)
    if ty is TStr:
        return SeqView(z3.Length(v.t), lambda i, v=v: Val(TStr, z3.SubString(v.t, i, 1)), 'str')
    if isinstance(ty, TGraph):
        return as_sequence(eng, st, NodesOf(v), node)
    if isinstance(ty, TTuple) and ty.elems and all(e == ty.elems[0] for e in ty.elems):
        n = len(ty.elems)

        def getter4(i, v=v):
            out = ty.field(v.t, n - 1)
            for k in range(n - 2, -1, -1):
                out = z3.If(i == k, ty.field(v.t, k), out)
            return Val(ty.elems[0], out)
        return SeqView(z3.IntVal(n), getter4, 'tuple')
    raise Unsupported('iteration over %s' % ty)


def unpack(eng, st, v, n, node):
    if isinstance(v, tuple):
        if len(v) != n:
            raise Unsupported('unpack arity')
        return list(v)
    if isinstance(v, Val) and isinstance(v.ty, TTuple):
        if len(v.ty.elems) != n:
            eng.oblige(st, 'no-exc', FALSE, node, 'unpack-arity')
            raise Unsupported('unpack arity mismatch')
        return [Val(e, v.ty.field(v.t, i)) for i, e in enumerate(v.ty.elems)]
    if isinstance(v, Val) and isinstance(v.ty, TList):
        eng.safety(st, ops.list_len(v) == n, node, 'unpack-length')
        return [Val(v.ty.elem, ops.list_arr(v)[i]) for i in range(n)]
    raise Unsupported('unpack of %s' % (getattr(v, 'ty', type(v).__name__),))


# ================================================================================================ item access
def _schema_attr(g, name):
    sch = H.NODE_SCHEMAS[g.ty.schema]
    if name not in sch:
        raise Unsupported('node attribute %r is outside the graph schema' % name)
    return sch[name]


def _const_str(v):
    if isinstance(v, Val) and v.ty is TStr:
        s = z3.simplify(v.t)
        if z3.is_string_value(s):
            return s.as_string()
    return None


def _node_attr_val(eng, st, view, name):
    suffix, ty = _schema_attr(view.g, name)
    g, n = view.g, view.n

    def writer(st2, newv, g=g, n=n, suffix=suffix):
        _frame_check(eng, st2, g.t, None, 'write-node-attr-' + suffix, ['nh:' + suffix, 'nv:' + suffix])
        if suffix == 'bonding':
            eng.check_bonding_write(st2, newv.t, None)
        if suffix == 'fragid#l':
            eng.check_fragid_write(st2, newv.t, None)
        st2.heap = st2.heap.set_nattr(g.t, n.t, suffix, newv.t)
    has = st.heap.nhas(g.t, n.t, suffix)
    return has, Val(ty, st.heap.nval(g.t, n.t, suffix), loc=writer)


def _frame_check(eng, st, gid, node, what, comps=None):
    if st.writable is None:
        return
    cond = st.writable(gid, comps)
    s = z3.simplify(cond)
    if z3.is_true(s):
        return
    eng.oblige(st, 'frame', cond, node, what, detail='write to a graph outside the modifies clause')
    st.assume(cond)


class PTEEntry:
    """pysmiles.PTE[element]: a row of the periodic table (only 'AtomicMass' is modelled, as an uninterpreted function)."""

    def __init__(self, element):
        self.element = element


PTE_KNOWN = z3.Function('pte_known', z3.StringSort(), z3.BoolSort())
PTE_MASS = z3.Function('pte_mass', z3.StringSort(), z3.RealSort())


def get_item(eng, st, base, key, node, spec=False):
    if isinstance(base, FuncRef) and base.canonical == 'pysmiles.PTE':
        k = lift(key)
        if k.ty is not TStr:
            raise Unsupported('pysmiles.PTE indexed by a non-string')
        eng.assumptions.add('pysmiles.PTE is a constant table: PTE[e]["AtomicMass"] is a positive number for every element symbol it knows')
        eng.safety(st, PTE_KNOWN(k.t), node, 'element-in-PTE', spec)
        return PTEEntry(k)
    if isinstance(base, PTEEntry):
        if _const_str(key) != 'AtomicMass':
            raise Unsupported('PTE column %r is not modelled' % (_const_str(key),))
        st.assume(PTE_MASS(base.element.t) > 0)
        return Val(TReal, PTE_MASS(base.element.t))
    if isinstance(base, NodesOf):
        key, notnone = ops.unwrap_opt(lift(key))
        eng.safety(st, notnone, node, 'node-key-not-None', spec)
        eng.safety(st, st.heap.has_node(base.g.t, key.t), node, 'node-exists', spec)
        return NodeView(base.g, key)
    if isinstance(base, NodeView):
        name = _const_str(key)
        if name is None:
            raise Unsupported('node attribute with a non-constant name')
        has, val = _node_attr_val(eng, st, base, name)
        eng.safety(st, has, node, 'attr-' + name, spec)
        if name == 'contraction':
            return ContractionView(val)
        return val
    if isinstance(base, ContractionView):
        if base.removed is None:
            return ContractionView(base.val, lift(key))
        name = _const_str(key)
        pos = {'fragid': 0, 'mapping': 1}.get(name)
        if pos is None:
            raise Unsupported('contraction entry %r is not modelled' % name)
        dty = base.val.ty.elems[pos]
        d = Val(dty, base.val.ty.field(base.val.t, pos))
        v, safe = ops.dict_get(d, base.removed)
        eng.safety(st, safe, node, 'contraction-' + name, spec)
        return v
    if isinstance(base, EdgesOf):
        u, v = unpack(eng, st, key, 2, node)
        eng.safety(st, st.heap.has_edge(base.g.t, u.t, v.t), node, 'edge-exists', spec)
        return EdgeView(base.g, u, v)
    if isinstance(base, EdgeView):
        name = _const_str(key)
        suffix, ty = H.EDGE_SCHEMA[name]
        eng.safety(st, st.heap.ehas(base.g.t, base.u.t, base.v.t, suffix), node, 'eattr-' + name, spec)
        return Val(ty, st.heap.evalue(base.g.t, base.u.t, base.v.t, suffix))
    if isinstance(base, AttrRec):
        name = _const_str(key)
        suffix, ty = H.NODE_SCHEMAS[base.schema][name]
        if suffix not in base.attrs:
            eng.safety(st, FALSE, node, 'attr-' + name, spec)
            return fresh(ty)
        has, val = base.attrs[suffix]
        eng.safety(st, has, node, 'attr-' + name, spec)
        return val
    if isinstance(base, PyDictConst):
        key = lift(key)
        out, safe = None, FALSE
        items = list(base.d.items())
        vals = [lift(v) for _, v in items]
        if not vals or any(v.ty != vals[0].ty for v in vals):
            raise Unsupported('constant dict with heterogeneous values')
        out = vals[0].t
        conds = []
        for (k, _), v in zip(items, vals):
            c = ops.equal(lift(k), key)
            conds.append(c)
            out = z3.If(c, v.t, out)
        eng.safety(st, z3.Or(*conds), node, 'key-in-constant-dict', spec)
        return Val(vals[0].ty, out)
    if isinstance(base, PyList):
        k = z3.simplify(lift(key).t)
        if z3.is_int_value(k):
            return base.items[k.as_long()]
        raise Unsupported('symbolic index into constant list')
    base, key = lift(base), lift(key)
    ty = base.ty
    if isinstance(ty, TList):
        if spec:
            kt = z3.simplify(ops.to_int(key))
            if z3.is_int_value(kt) and kt.as_long() < 0:
                kt = ops.list_len(base) + kt
            # contract text: total selection (symbolic indices are never negative in contracts)
            return Val(ty.elem, ops.list_arr(base)[kt])
        v, safe = ops.list_get(base, ops.to_int(key))
        eng.safety(st, safe, node, 'list-index', spec)
        if base.loc is not None:
            idx = ops.to_int(key)

            def writer(st2, newv, base=base, idx=idx):
                ln = ops.list_len(base)
                j = z3.If(idx < 0, idx + ln, idx)
                nb = Val(base.ty, base.ty.mk(z3.Store(ops.list_arr(base), j, newv.t), ln), loc=base.loc)
                base.loc(st2, nb)
            v.loc = writer
        return v
    if ty is TStr:
        v, safe = ops.str_index(base, ops.to_int(key))
        eng.safety(st, safe, node, 'str-index', spec)
        return v
    if isinstance(ty, TDefaultDict) and not spec:
        # d[k] on a defaultdict(list): a missing key is inserted with a fresh empty list
        has = ops.dict_has(base, key)
        empty = ops.list_literal(ty.val, [])
        filled = ops.dict_set(base, key, empty)
        nb = Val(ty, z3.If(has, base.t, filled.t), loc=base.loc)
        tgt = node.value if isinstance(node, ast.Subscript) else None
        if tgt is not None:
            eng.write_back(tgt, nb, st, node)
        base = nb
        v = Val(ty.val, ty.valmap(nb.t)[ops.coerce(key, ty.key).t])

        def writer(st2, newv, base=base, key=key, tgt=tgt):
            nb2 = ops.dict_set(base, key, newv)
            nb2.loc = base.loc
            eng.write_back(tgt, nb2, st2, node)
        v.loc = writer
        return v
    if isinstance(ty, TDict):
        if isinstance(key.ty, TOpt) and not isinstance(ty.key, TOpt):
            key, notnone = ops.unwrap_opt(key)
            eng.safety(st, notnone, node, 'dict-key-not-None', spec)
        v, safe = ops.dict_get(base, key)
        eng.safety(st, safe, node, 'dict-key', spec)
        if base.loc is not None or True:
            def writer(st2, newv, base=base, key=key):
                nb = ops.dict_set(base, key, newv)
                nb.loc = base.loc
                if base.loc is None:
                    raise Unsupported('in-place update of a dict value without a location')
                base.loc(st2, nb)
            v.loc = writer if base.loc is not None else None
        return v
    if isinstance(ty, TTuple):
        k = z3.simplify(ops.to_int(key))
        if z3.is_int_value(k):
            i = k.as_long()
            if i < 0:
                i += len(ty.elems)
            if not (0 <= i < len(ty.elems)):
                eng.safety(st, FALSE, node, 'tuple-index', spec)
                return fresh(ty.elems[0])
            return Val(ty.elems[i], ty.field(base.t, i))
        if all(e == ty.elems[0] for e in ty.elems):
            n = len(ty.elems)
            out = ty.field(base.t, n - 1)
            for j in range(n - 2, -1, -1):
                out = z3.If(k == j, ty.field(base.t, j), out)
            eng.safety(st, z3.And(0 <= k, k < n), node, 'tuple-index', spec)
            return Val(ty.elems[0], out)
    if isinstance(ty, TOpt):
        eng.safety(st, z3.Not(ty.is_none(base.t)), node, 'subscript-of-None', spec)
        return get_item(eng, st, Val(ty.inner, ty.get(base.t), loc=None), key, node, spec)
    raise Unsupported('subscript of %s' % ty)


def get_slice(eng, st, base, lo, hi, node, spec=False):
    base = lift(base)
    lo_t = ops.to_int(lift(lo)) if lo is not None else None
    hi_t = ops.to_int(lift(hi)) if hi is not None else None
    if base.ty is TStr:
        return ops.str_slice(base, lo_t, hi_t)
    if isinstance(base.ty, TList):
        return ops.list_slice(base, lo_t, hi_t)
    raise Unsupported('slice of %s' % base.ty)


def set_item(eng, st, base, key, value, node):
    """base[key] = value.  Returns the new base for value-semantics containers (caller writes it back)."""
    if isinstance(base, NodeView):
        name = _const_str(key)
        if name is None:
            raise Unsupported('node attribute with a non-constant name')
        suffix, ty = _schema_attr(base.g, name)
        value = lift(value)
        if isinstance(value.ty, TOpt) and not isinstance(ty, TOpt):
            # storing a possibly-None value under a typed attribute: None is outside the attribute's type
            eng.oblige(st, 'type-inv', z3.Not(value.ty.is_none(value.t)), node, 'attr-%s-not-None' % name,
                       detail='the value stored under %r is never None' % name)
            st.assume(z3.Not(value.ty.is_none(value.t)))
            value = Val(value.ty.inner, value.ty.get(value.t))
        _frame_check(eng, st, base.g.t, node, 'set-node-attr-' + name, ['nh:' + suffix, 'nv:' + suffix])
        if suffix == 'bonding':
            eng.check_bonding_write(st, ops.coerce(value, ty).t, node)
        if suffix == 'fragid#l':
            eng.check_fragid_write(st, ops.coerce(value, ty).t, node)
        st.heap = st.heap.set_nattr(base.g.t, base.n.t, suffix, ops.coerce(value, ty).t)
        return None
    if isinstance(base, AttrRec):
        name = _const_str(key)
        value = lift(value)
        # a detached attribute dict is plain Python data: a key may change its value type (template fragid int ->
        # molecule fragid list); pick the schema variant by the type of the stored value
        for sch in ('mol', 'tmpl'):
            if name in H.NODE_SCHEMAS[sch]:
                suffix, ty = H.NODE_SCHEMAS[sch][name]
                try:
                    cv = ops.coerce(value, ty)
                except Unsupported:
                    continue
                for other in ('mol', 'tmpl'):
                    osuf = H.NODE_SCHEMAS[other].get(name, (None,))[0]
                    if osuf and osuf != suffix:
                        base.attrs[osuf] = (FALSE, fresh(H.NODE_SCHEMAS[other][name][1]))
                base.attrs[suffix] = (TRUE, cv)
                return None
        raise Unsupported('attribute %s with value of type %s' % (name, value.ty))
    base = lift(base)
    if isinstance(base.ty, TDict):
        nb = ops.dict_set(base, key, value)
        nb.loc = base.loc
        return nb
    if isinstance(base.ty, TList):
        idx = ops.to_int(lift(key))
        ln = ops.list_len(base)
        j = z3.If(idx < 0, idx + ln, idx)
        eng.safety(st, z3.And(0 <= j, j < ln), node, 'list-store-index')
        nb = Val(base.ty, base.ty.mk(z3.Store(ops.list_arr(base), j, ops.coerce(value, base.ty.elem).t), ln), loc=base.loc)
        return nb
    raise Unsupported('item assignment on %s' % base.ty)


def delete_item(eng, st, base, key, node):
    if isinstance(base, NodeView):
        name = _const_str(key)
        suffix, ty = _schema_attr(base.g, name)
        eng.safety(st, st.heap.nhas(base.g.t, base.n.t, suffix), node, 'del-attr-' + name)
        _frame_check(eng, st, base.g.t, node, 'del-node-attr-' + name, ['nh:' + suffix, 'nv:' + suffix])
        st.heap = st.heap.del_nattr(base.g.t, base.n.t, suffix)
        return
    raise Unsupported('del on %s' % type(base).__name__)


def contains(eng, st, container, x, node, spec=False):
    if isinstance(container, NodeView):
        name = _const_str(x)
        suffix, ty = _schema_attr(container.g, name)
        return st.heap.nhas(container.g.t, container.n.t, suffix)
    if isinstance(container, AttrRec):
        name = _const_str(x)
        suffix, ty = H.NODE_SCHEMAS[container.schema][name]
        return container.attrs[suffix][0] if suffix in container.attrs else FALSE
    if isinstance(container, (NodesOf,)):
        return st.heap.has_node(container.g.t, lift(x).t)
    if isinstance(container, Val) and isinstance(container.ty, TGraph):
        return st.heap.has_node(container.t, lift(x).t)
    if isinstance(container, EdgesOf):
        u, v = unpack(eng, st, x, 2, node)
        return st.heap.has_edge(container.g.t, u.t, v.t)
    if isinstance(container, PyList):
        return z3.Or(*[ops.equal(lift(i), lift(x)) for i in container.items]) if container.items else FALSE
    if isinstance(container, PyDictConst):
        return z3.Or(*[ops.equal(lift(k), lift(x)) for k in container.d])
    if isinstance(container, Val) and isinstance(container.ty, TOpt):
        eng.safety(st, z3.Not(container.ty.is_none(container.t)), node, 'membership-in-None', spec)
        container = Val(container.ty.inner, container.ty.get(container.t))
    return ops.contains(container, x)


def get_attr(eng, st, base, attr, node, spec=False):
    if isinstance(base, Val) and isinstance(base.ty, TOpt) and isinstance(base.ty.inner, TGraph):
        eng.safety(st, z3.Not(base.ty.is_none(base.t)), node, 'attribute-of-None', spec)
        base = Val(base.ty.inner, base.ty.get(base.t))
    if isinstance(base, Val) and isinstance(base.ty, TGraph):
        if attr == 'nodes':
            return NodesOf(base)
        if attr == 'edges':
            return EdgesOf(base)
    if isinstance(base, ModuleRef):
        return FuncRef(base.name + '.' + attr)
    if isinstance(base, FuncRef):
        return FuncRef(base.canonical + '.' + attr)
    raise Unsupported('attribute .%s of %s' % (attr, getattr(base, 'ty', type(base).__name__)))


def empty_container(eng, st, node, kind):
    """`[]` / `{}`: the element type comes from the contract's `locals` (keyed by the assigned name) ."""
    name = getattr(node, '_assigned_name', None)
    decl = eng.c.locals.get(name) if name else None
    if decl is None and name in st.env and isinstance(st.env[name], Val):
        ty = st.env[name].ty          # re-initialisation of a variable whose type is already known
    elif decl is None:
        raise Unsupported('empty %s display assigned to %r without a declared type (contract.locals)' % (kind, name))
    else:
        ty = parse_type(decl)
    if isinstance(ty, TList):
        return ops.list_literal(ty, [])
    if isinstance(ty, TDict):
        return ops.dict_empty(ty)
    raise Unsupported('declared type %s for an empty %s' % (ty, kind))


# ================================================================================================ calls
def _func_name(eng, st, call):
    """Resolve the callee to ('builtin', name) / ('canon', dotted) / ('self', method) / ('method', base Val, name)."""
    f = call.func
    if isinstance(f, ast.Name):
        if f.id in st.env:
            raise Unsupported('call of a local value')
        if f.id in eng.mod.imports:
            return ('canon', eng.mod.imports[f.id])
        return ('builtin', f.id)
    if isinstance(f, ast.Attribute):
        if isinstance(f.value, ast.Name):
            if f.value.id == 'self' and ('self.' + f.attr) not in st.env:
                cls = eng.c.qualname.split('.')[0]
                return ('canon', '%s:%s.%s' % (eng.c.module, cls, f.attr))
            if f.value.id not in st.env and f.value.id in eng.mod.imports and ':' not in eng.mod.imports[f.value.id]:
                return ('canon', eng.mod.imports[f.value.id] + '.' + f.attr)
        if isinstance(f.value, ast.Attribute) and isinstance(f.value.value, ast.Name) and \
                f.value.value.id in eng.mod.imports and f.value.value.id not in st.env:
            root = eng.mod.imports[f.value.value.id]
            if ':' not in root:
                return ('canon', root + '.' + f.value.attr + '.' + f.attr)
        base = eng.ev(f.value, st)
        return ('method', base, f.attr)
    raise Unsupported('call of %s' % type(f).__name__)


def call(eng, st, node, allow_raise):
    """Returns a list of (state, value).  Only with allow_raise may more than one state come back."""
    kind = _func_name(eng, st, node)
    if kind[0] == 'canon':
        canon = kind[1]
        con = C.lookup(canon.replace('.', ':', 1) if ':' not in canon and False else canon)
        if con is None and ':' not in canon:
            con = C.lookup(canon)
        # the caller's contract may name the variant of the callee's contract it relies on
        want = (eng.c.callee_variants or {}).get(canon.split(':')[-1].split('.')[-1])
        if want is not None and C.lookup(canon, want) is not None:
            con = C.lookup(canon, want)
        elif con is not None and len(C.variants(canon)) > 1 and node.args:
            # several variants that differ in the declared type of the first parameter (list / dict forms of one function):
            # the static type of the first argument selects the variant
            try:
                a0 = eng.ev(node.args[0], st)
            except Unsupported:
                a0 = None
            def _fits(cand):
                names0 = [p for p, _ in cand.params] if getattr(cand, 'params', None) else list(cand.types)
                if not names0 or names0[0] not in cand.types:
                    return False
                want_ty = parse_type(cand.types[names0[0]])
                if isinstance(want_ty, TGraph) and isinstance(a0.ty, TGraph):
                    return want_ty.schema == a0.ty.schema
                return type(want_ty) is type(a0.ty)
            if isinstance(a0, Val) and not _fits(con):
                fitting = [cand for cand in C.variants(canon) if _fits(cand)]
                fitting.sort(key=lambda cand: bool(cand.trusted))        # a verified contract before an assumed one
                if fitting:
                    con = fitting[0]
        if con is not None:
            return apply_contract(eng, st, node, con, allow_raise)
        if canon in RAISING_MODELS:
            return RAISING_MODELS[canon](eng, st, node, allow_raise)
        fn = CANON_MODELS.get(canon)
        if fn is None:
            raise Unsupported('call to %s has neither a contract nor a model' % canon)
        return [(st, fn(eng, st, node))]
    if kind[0] == 'builtin':
        fn = BUILTINS.get(kind[1])
        if fn is None:
            raise Unsupported('builtin %s' % kind[1])
        return [(st, fn(eng, st, node))]
    base, name = kind[1], kind[2]
    return [(st, method_call(eng, st, node, base, name))]


def run_events(eng, st, label, node, args, kwargs, res):
    """Caller-side ghost code attached to a call event: 'ghost = expr' updates and 'assert expr' obligations."""
    for item in eng.c.on_call.get(label, []):
        tmp = st.copy()
        tmp.env['result'] = res
        for n, v in args.items():
            tmp.env.setdefault('arg_' + n if not n.startswith('arg') else n, v)
        for n, v in kwargs.items():
            if n:
                tmp.env.setdefault('kw_' + n, v)
        item = item.strip()
        if item.startswith('assert '):
            goal = eng.spec_bool(item[len('assert '):], tmp, eng.entry)
            st.pc = tmp.pc
            eng.oblige(st, 'ghost', goal, node, 'at-%s' % label, detail=item[len('assert '):])
            st.assume(goal)
        else:
            tgt, expr = item.split('=', 1)
            val = eng.spec_expr(expr, tmp, eng.entry)
            st.pc = tmp.pc
            st.env[tgt.strip()] = val


def _args(eng, st, node):
    if any(isinstance(a, ast.Starred) for a in node.args):
        raise Unsupported('star-args call')
    pos = [eng.ev(a, st) for a in node.args]
    kw = {}
    for k in node.keywords:
        if k.arg is None:
            kw['**'] = eng.ev(k.value, st)
        else:
            kw[k.arg] = eng.ev(k.value, st)
    return pos, kw


def apply_contract(eng, st, node, con, allow_raise):
    """Modular call: assert callee.requires, havoc its frame, assume callee.ensures."""
    eng.callees_used.add(con.target)
    if con.trusted:
        eng.trusted_used.add(con.target)
        for a in con.assumes:
            eng.assumptions.add(a)
    pos, kw = _args(eng, st, node)
    # parameter names and defaults: from the callee's own source (or the contract for externals)
    if getattr(con, 'params', None):
        names = [p for p, _ in con.params]
        defaults = {p: ast.parse(d, mode='eval').body for p, d in con.params if d is not None}
        cmod = None
    else:
        cmod = eng.modules(con.module)
        fn = cmod.function(con.qualname)
        names, defaults = extract.param_defaults(fn)
        if names and names[0] in ('self', 'cls'):
            names = names[1:]
    bound = {}
    for n, v in zip(names, pos):
        bound[n] = v
    for k, v in kw.items():
        if k == '**':
            raise Unsupported('** in call to contracted function')
        bound[k] = v
    pre = State()
    pre.pc = st.pc
    pre.heap = st.heap
    pre.writable = st.writable
    for n in names:
        if n in bound:
            v = bound[n]
        elif n in defaults:
            d = defaults[n]
            try:
                v = lift_constant(eng, ast.literal_eval(d))
            except Exception:
                raise Unsupported('non-literal default for %s' % n)
        else:
            raise Unsupported('missing argument %s in call to %s' % (n, con.target))
        if n in con.types and isinstance(v, Val):
            try:
                v = ops.coerce(v, parse_type(con.types[n]))
            except Unsupported:
                eng.oblige(st, 'call-pre', FALSE, node, '%s-argtype-%s' % (con.qualname, n),
                           detail='argument %s has type %s, contract declares %s' % (n, v.ty, con.types[n]))
                st.assume(FALSE)
                v = fresh(parse_type(con.types[n]))
        pre.env[n] = v
    for k, v in st.env.items():
        if k.startswith('self.') and '.' in con.qualname:
            pre.env[k] = v
    label = con.qualname.split('.')[-1]
    missing = set(con.heap_invariants) - set(eng.c.heap_invariants)
    if missing:
        raise Unsupported('callee %s relies on the data invariant(s) %s which this contract does not declare' % (con.target, sorted(missing)))
    for p, value in con.fix.items():
        if p not in con.types:
            # constant-valued parameter (e.g. a default list): the call site must not override it
            if p in bound:
                raise Unsupported('call overrides the fixed parameter %s of %s' % (p, con.target))
            continue
        goal = ops.equal(pre.env[p], lift(value))
        eng.oblige(st, 'call-pre', goal, node, '%s.fixed-%s' % (label, p), detail='%s == %r' % (p, value))
        pre.env[p] = lift(value)
    for j, r in enumerate(con.requires):
        goal = eng.spec_bool(r, pre, None)
        eng.oblige(st, 'call-pre', goal, node, '%s.requires%d' % (label, j), detail=r)
        st.assume(goal)
    # frame
    mods = eng.parse_mods(con.modifies, pre, None)
    for m, cs in mods:
        if callable(m):
            # predicate frame of the callee (e.g. graphs_of(G)): every graph it may write must be writable here
            if st.writable is not None:
                gq = z3.Int(fresh_name('fg'))
                eng.oblige(st, 'frame', z3.ForAll([gq], z3.Implies(m(gq), st.writable(gq, cs))), node,
                           'callee-%s-modifies' % label, detail='write to a graph outside the modifies clause')
            continue
        _frame_check(eng, st, m, node, 'callee-%s-modifies' % label, cs)
    before_heap = st.heap
    if con.modifies or getattr(con, 'allocates', False):
        eng._havoc_heap(st, mods, before_heap)
    post = State()
    post.env = dict(pre.env)
    post.pc = st.pc
    post.heap = st.heap
    for f in getattr(con, 'rebinds', []):
        nv = fresh(st.env[f].ty, f)
        st.env[f] = nv
        post.env[f] = nv
        st.assume(*ops.wf_axioms(nv))
    outs = []
    # exceptional outcomes
    normal_excludes = []
    for en, sp in con.raises.items():
        if not allow_raise:
            if sp.get('when'):
                cond = eng.spec_bool(sp['when'], pre, None)
                eng.oblige(st, 'no-exc', z3.Not(cond), node, '%s-raises-%s' % (label, en))
                normal_excludes.append(z3.Not(cond))
                continue
            raise Unsupported('call to %s (may raise %s) nested inside an expression' % (con.target, en))
        r = st.copy()
        r.heap = before_heap if not con.modifies else st.heap
        if sp.get('when'):
            cond = eng.spec_bool(sp['when'], pre, None)
            r.assume(cond)
            if sp.get('iff'):
                normal_excludes.append(z3.Not(cond))
        r.flow = 'raise'
        r.exc = exc_canon(en)
        outs.append((r, None))
    st.assume(*normal_excludes)
    res = None
    if con.returns:
        rty = parse_type(con.returns)
        res = fresh(rty, label + '_result')
        st.assume(*ops.wf_axioms(res))
        _assume_fresh_graphs(eng, st, res, before_heap)
        if con.returns_fresh and isinstance(rty, TGraph):
            st.assume(res.t >= before_heap.get('next_gid'))
    else:
        res = lift(None)
    post.env['result'] = res
    post.heap = st.heap
    post.pc = st.pc
    old_state = pre
    old_state.heap = before_heap
    for e in con.ensures:
        # clauses over the callee's own ghost variables are internal to its proof: not visible to callers
        if con.ghosts and any(isinstance(n, ast.Name) and n.id in con.ghosts for n in ast.walk(ast.parse(e.strip(), mode='eval'))):
            continue
        # the caller's contract may restrict which callee postconditions it relies on (fewer hypotheses: sound, and
        # keeps each query small — a caller is checked against the part of the callee contract it names)
        sel = eng.c.callee_clauses.get(label)
        if sel is not None and not any(x in e for x in sel):
            continue
        st.assume(eng.spec_bool(e, post, old_state))
    # caller-side ghost code attached to this event
    run_events(eng, st, label, node, dict(pre.env), {}, res)
    outs.append((st, res))
    return outs


def _assume_fresh_graphs(eng, st, res, before_heap):
    if isinstance(res, Val) and isinstance(res.ty, TGraph):
        st.assume(res.t >= 0, res.t < st.heap.get('next_gid'))
        st.assume(*st.heap.wf_graph(res.t))


# ------------------------------------------------------------------------------------------------ spec calls
def spec_call(eng, st, e, old):
    f = e.func
    if isinstance(f, ast.Name):
        n = f.id
        if n == 'old':
            if old is None:
                raise Unsupported('old() where no entry state exists')
            tmp = State()
            # parameters (and everything else bound at entry) take their entry values; names that did not exist at entry
            # (event arguments, locals, quantifier variables) keep their current meaning
            tmp.env = dict(st.env)
            tmp.env.update(old.env)
            tmp.env.update(eng.qenv)        # variables bound by enclosing quantifiers stay visible inside old(...)
            # loop ghosts and `result` are not part of the entry state
            tmp.heap = old.heap
            tmp.pc = st.pc
            return eng.ev(e.args[0], tmp, spec=True, old=None)
        if n in ('all', 'any') and len(e.args) == 1 and isinstance(e.args[0], ast.GeneratorExp):
            return quantifier(eng, st, e.args[0], n, old)
        if n == 'implies':
            a = ops.truthy(eng.ev(e.args[0], st, True, old))
            b = ops.truthy(eng.ev(e.args[1], st, True, old))
            return Val(TBool, z3.Implies(a, b))
        if n in ('forall_int', 'exists_int', 'forall_typed'):
            # forall_int(lambda n: body) / forall_typed('Str,Int', lambda b, n: body)
            lam = e.args[-1]
            names = [a.arg for a in lam.args.args]
            if n == 'forall_typed':
                tys = [parse_type(t) for t in e.args[0].value.split(',')]
            else:
                tys = [TInt] * len(names)
            vs = [z3.Const(fresh_name(x), t.sort()) for x, t in zip(names, tys)]
            sub = st.copy()
            saved_q = dict(eng.qenv)
            for x, v, t in zip(names, vs, tys):
                sub.env[x] = Val(t, v)
                eng.qenv[x] = Val(t, v)
            n_before = len(eng.bound_names)
            eng.bound_names.extend(v.decl().name() for v in vs)
            try:
                body = ops.truthy(eng.ev(lam.body, sub, True, old))
            finally:
                del eng.bound_names[n_before:]
                eng.qenv.clear()
                eng.qenv.update(saved_q)
            for extra in sub.pc[len(st.pc):]:
                st.assume(extra)
            return Val(TBool, z3.Exists(vs, body) if n == 'exists_int' else z3.ForAll(vs, body))
        if n in eng.spec_funcs:
            args = [eng.ev(a, st, True, old) for a in e.args]
            args = [a if not isinstance(a, (int, float, str, bool)) else lift(a) for a in args]
            if n in eng.c.opaque:
                return eng.spec_funcs[n].opaque(eng, st, *args)
            from . import speclib as _sl
            if n in _sl.OLD_SPECS:
                return eng.spec_funcs[n].smt(eng, st, *args, old=old)
            return eng.spec_funcs[n].smt(eng, st, *args)
        if n in BUILTINS:
            return BUILTINS[n](eng, st, e, spec=True, old=old)
        raise Unsupported('unknown function %s in contract text' % n)
    if isinstance(f, ast.Attribute):
        base = eng.ev(f.value, st, True, old)
        return method_call(eng, st, e, base, f.attr, spec=True, old=old)
    raise Unsupported('call form in contract text')


def quantifier(eng, st, gen, kind, old, spec=True):
    """all(P for x in S [if C] for y in T ...) / any(...) -> ONE prenex bounded quantifier over the indices."""
    sub = st.copy()
    bound = []
    ranges = []
    pylists = []

    def expand(k):
        """Returns the body formula with generators k.. bound; constant lists are unrolled."""
        if k == len(gen.generators):
            return ops.truthy(eng.ev(gen.elt, sub, spec, old))
        comp = gen.generators[k]
        # `for n in nodes(G)` / `for k in keys(d)` / `for e in edge_list(G)` in contract text: quantify over the KEY itself
        # (guarded by membership) instead of over the position in the list — same meaning by the container invariants,
        # and the solver needs no index-of-key reasoning.
        if spec and isinstance(comp.iter, ast.Call) and isinstance(comp.iter.func, ast.Name) and \
                comp.iter.func.id in ('nodes', 'keys', 'edge_list') and comp.iter.func.id not in sub.env:
            kindname = comp.iter.func.id
            arg = eng.ev(comp.iter.args[0], sub, spec, old)
            if isinstance(arg, Val) and isinstance(arg.ty, TOpt):
                arg = Val(arg.ty.inner, arg.ty.get(arg.t))
            if kindname == 'nodes':
                v = z3.Int(fresh_name('qn'))
                bound.append(v)
                eng.bound_names.append(v.decl().name())
                eng.assign(comp.target, Val(TInt, v), sub, gen)
                member = sub.heap.has_node(arg.t, v)
            elif kindname == 'keys':
                v = z3.Const(fresh_name('qk'), arg.ty.key.sort())
                bound.append(v)
                eng.bound_names.append(v.decl().name())
                eng.assign(comp.target, Val(arg.ty.key, v), sub, gen)
                member = arg.ty.has(arg.t)[v]
            else:
                u, w = z3.Int(fresh_name('qu')), z3.Int(fresh_name('qv'))
                bound.extend([u, w])
                eng.bound_names.extend([u.decl().name(), w.decl().name()])
                eng.assign(comp.target, Val(H.T_EDGE, H.T_EDGE.mk(u, w)), sub, gen)
                member = sub.heap.has_edge(arg.t, u, w)
            for nm in [n.id for n in ast.walk(comp.target) if isinstance(n, ast.Name)]:
                eng.qenv[nm] = sub.env[nm]
            conds = [ops.truthy(eng.ev(c, sub, spec, old)) for c in comp.ifs]
            rng = z3.And(member, *conds)
            body = expand(k + 1)
            return z3.Implies(rng, body) if kind == 'all' else z3.And(rng, body)
        it = eng.ev(comp.iter, sub, spec, old)
        if isinstance(it, PyList):
            parts = []
            for item in it.items:
                eng.assign(comp.target, item, sub, gen)
                conds = [ops.truthy(eng.ev(c, sub, spec, old)) for c in comp.ifs]
                body = expand(k + 1)
                parts.append(z3.Implies(z3.And(*conds), body) if kind == 'all' else z3.And(body, *conds))
            if not parts:
                return TRUE if kind == 'all' else FALSE
            return z3.And(*parts) if kind == 'all' else z3.Or(*parts)
        seq = as_sequence(eng, sub, it, gen)
        i = z3.Int(fresh_name('q'))
        bound.append(i)
        eng.bound_names.append(i.decl().name())
        eng.assign(comp.target, seq.getter(i), sub, gen)
        for nm in [n.id for n in ast.walk(comp.target) if isinstance(n, ast.Name)]:
            eng.qenv[nm] = sub.env[nm]
        conds = [ops.truthy(eng.ev(c, sub, spec, old)) for c in comp.ifs]
        rng = z3.And(0 <= i, i < getattr(seq, 'raw_len', seq.length), *conds)
        body = expand(k + 1)
        return z3.Implies(rng, body) if kind == 'all' else z3.And(rng, body)
    n_before = len(eng.bound_names)
    saved_q = dict(eng.qenv)
    try:
        body = expand(0)
    finally:
        del eng.bound_names[n_before:]
        eng.qenv.clear()
        eng.qenv.update(saved_q)
    if not bound:
        return Val(TBool, body)
    return Val(TBool, z3.ForAll(bound, body) if kind == 'all' else z3.Exists(bound, body))


def comprehension(eng, st, e, spec, old, kind):
    if kind == 'gen':
        raise Unsupported('bare generator expression')
    if len(e.generators) != 1 or e.generators[0].ifs:
        raise Unsupported('comprehension with filter / several generators')
    comp = e.generators[0]
    it = eng.ev(comp.iter, st, spec, old)
    seq = as_sequence(eng, st, it, e)
    i = z3.Int(fresh_name('c'))
    sub = st.copy()
    eng.assign(comp.target, seq.getter(i), sub, e)
    n0 = len(sub.pc)
    sub.assume(0 <= i, i < seq.length)
    elt = lift(eng.ev(e.elt, sub, spec, old))
    # safety obligations raised inside are already guarded by 0 <= i < len
    ty = TList(elt.ty)
    ops.CTX.depth = len(eng.bound_names)
    arr = ops.mk_array(i, elt.t, 'comp')
    return Val(ty, ty.mk(arr, seq.length))


# ================================================================================================ builtins
def b_len(eng, st, node, spec=False, old=None):
    v = eng.ev(node.args[0], st, spec, old)
    if isinstance(v, SeqView):
        return Val(TInt, v.length)
    if isinstance(v, NodesOf):
        return Val(TInt, st.heap.n_nodes(v.g.t))
    if isinstance(v, EdgesOf):
        return Val(TInt, H.T_EDGELIST.length(st.heap.edges(v.g.t)))
    if isinstance(v, PyList):
        return lift(len(v.items))
    v = lift(v)
    if isinstance(v.ty, TOpt):
        eng.safety(st, z3.Not(v.ty.is_none(v.t)), node, 'len-of-None', spec)
        v = Val(v.ty.inner, v.ty.get(v.t))
    if isinstance(v.ty, TList):
        return Val(TInt, ops.list_len(v))
    if isinstance(v.ty, TDict):
        return Val(TInt, ops.dict_len(v))
    if v.ty is TStr:
        return Val(TInt, z3.Length(v.t))
    if isinstance(v.ty, TGraph):
        return Val(TInt, st.heap.n_nodes(v.t))
    if isinstance(v.ty, TTuple):
        return lift(len(v.ty.elems))
    raise Unsupported('len of %s' % v.ty)


def b_range(eng, st, node, spec=False, old=None):
    vals = [lift(eng.ev(a, st, spec, old)) for a in node.args]
    args = []
    for v in vals:
        if v.ty is TReal:
            # range() needs an int: a float raises TypeError; our Real-typed attributes hold ints here (obligation)
            eng.safety(st, z3.IsInt(v.t), node, 'range-of-int', spec)
            args.append(z3.ToInt(v.t))
        else:
            args.append(ops.to_int(v))
    if len(args) == 1:
        lo, hi = z3.IntVal(0), args[0]
    elif len(args) == 2:
        lo, hi = args
    else:
        raise Unsupported('range with step')
    n = z3.If(hi > lo, hi - lo, z3.IntVal(0))
    sv = SeqView(n, lambda i, lo=lo: Val(TInt, lo + i), 'range')
    sv.raw_len = z3.simplify(hi - lo)      # 0 <= i < raw_len is the same index set, without the ite
    return sv


def b_enumerate(eng, st, node, spec=False, old=None):
    seq = as_sequence(eng, st, eng.ev(node.args[0], st, spec, old), node)
    start = z3.IntVal(0)
    if len(node.args) > 1:
        start = ops.to_int(lift(eng.ev(node.args[1], st, spec, old)))
    for k in node.keywords:
        if k.arg == 'start':
            start = ops.to_int(lift(eng.ev(k.value, st, spec, old)))
    return SeqView(seq.length, lambda i: (Val(TInt, start + i), seq.getter(i)), 'enumerate')


def b_zip(eng, st, node, spec=False, old=None):
    seqs = [as_sequence(eng, st, eng.ev(a, st, spec, old), node) for a in node.args]
    n = seqs[0].length
    for s in seqs[1:]:
        n = z3.If(s.length < n, s.length, n)
    return SeqView(n, lambda i: tuple(s.getter(i) for s in seqs), 'zip')


def b_int(eng, st, node, spec=False, old=None):
    v = lift(eng.ev(node.args[0], st, spec, old))
    if v.ty is TStr:
        out, safe = ops.str_to_int(v)
        eng.safety(st, safe, node, 'int-of-str', spec)
        return out
    if v.ty is TInt:
        return v
    if v.ty is TReal:
        return Val(TInt, z3.ToInt(v.t))   # truncation == floor only for non-negative; callers use it on orders >= 0
    if v.ty is TBool:
        return Val(TInt, ops.to_int(v))
    raise Unsupported('int of %s' % v.ty)


def b_float(eng, st, node, spec=False, old=None):
    v = lift(eng.ev(node.args[0], st, spec, old))
    if ops.is_num(v):
        return Val(TReal, ops.to_real(v))
    raise Unsupported('float of %s' % v.ty)


def b_str(eng, st, node, spec=False, old=None):
    v = lift(eng.ev(node.args[0], st, spec, old))
    if v.ty is TStr:
        return v
    if v.ty is TInt:
        # str(int): exact for non-negative ints (IntToStr); negative are not used by the code under contract
        if not spec:
            eng.safety(st, v.t >= 0, node, 'str-of-nonneg-int')
        return Val(TStr, z3.IntToStr(v.t))
    raise Unsupported('str of %s' % v.ty)


def b_isinstance(eng, st, node, spec=False, old=None):
    v = eng.ev(node.args[0], st, spec, old)
    t = node.args[1]
    if not isinstance(t, ast.Name):
        raise Unsupported('isinstance with non-name type')
    if not isinstance(v, Val):
        raise Unsupported('isinstance of pseudo value')
    table = {'dict': TDict, 'list': TList, 'tuple': TTuple}
    if t.id in table:
        return lift(isinstance(v.ty, table[t.id]))
    if t.id == 'str':
        return lift(v.ty is TStr)
    if t.id == 'int':
        return lift(v.ty in (TInt, TBool))
    if t.id == 'float':
        return lift(v.ty is TReal)
    raise Unsupported('isinstance %s' % t.id)


def b_list(eng, st, node, spec=False, old=None):
    if not node.args:
        return empty_container(eng, st, node, 'list')
    v = eng.ev(node.args[0], st, spec, old)
    seq = as_sequence(eng, st, v, node)
    if getattr(seq, 'backing', None) is not None:
        return seq.backing            # list(xs) of a list-backed iterable: the same sequence value (a snapshot)
    i = z3.Int(fresh_name('l'))
    elt = seq.getter(i)
    if isinstance(elt, tuple):
        if not all(isinstance(x, Val) for x in elt):
            raise Unsupported('list() of pseudo tuples')
        tt = TTuple(*[x.ty for x in elt])
        elt = Val(tt, tt.mk(*[x.t for x in elt]))
    ty = TList(elt.ty)
    ops.CTX.depth = len(eng.bound_names)
    return Val(ty, ty.mk(ops.mk_array(i, elt.t, 'listof'), seq.length))


def b_max(eng, st, node, spec=False, old=None):
    if len(node.args) == 2:
        a = lift(eng.ev(node.args[0], st, spec, old))
        b = lift(eng.ev(node.args[1], st, spec, old))
        if a.ty is TInt and b.ty is TInt:
            return Val(TInt, z3.If(a.t >= b.t, a.t, b.t))
        x, y = ops.to_real(a), ops.to_real(b)
        return Val(TReal, z3.If(x >= y, x, y))
    if len(node.args) == 1:
        v = eng.ev(node.args[0], st, spec, old)
        from . import speclib
        if isinstance(v, NodesOf) and v.data is None:
            eng.safety(st, st.heap.n_nodes(v.g.t) > 0, node, 'max-of-empty', spec)
            return speclib.SPEC_FUNCS['max_node_key'].smt(eng, st, v.g)
        if isinstance(v, Val) and isinstance(v.ty, TList) and v.ty.elem is TInt:
            eng.safety(st, ops.list_len(v) > 0, node, 'max-of-empty', spec)
            return speclib.SPEC_FUNCS['list_max'].smt(eng, st, v)
        seq = as_sequence(eng, st, v, node)
        # max of a non-empty int sequence: a fresh value that is an element and an upper bound
        m = z3.Int(fresh_name('max'))
        j = z3.Int(fresh_name('mj'))
        k = z3.Int(fresh_name('mk'))
        e0 = seq.getter(j)
        if not (isinstance(e0, Val) and e0.ty is TInt):
            raise Unsupported('max over non-int sequence')
        eng.safety(st, seq.length > 0, node, 'max-of-empty', spec)
        st.assume(z3.Implies(seq.length > 0, z3.And(
            z3.Exists([j], z3.And(0 <= j, j < seq.length, seq.getter(j).t == m)),
            z3.ForAll([k], z3.Implies(z3.And(0 <= k, k < seq.length), seq.getter(k).t <= m)))))
        return Val(TInt, m)
    raise Unsupported('max arity')


def b_min(eng, st, node, spec=False, old=None):
    if len(node.args) == 2:
        a = lift(eng.ev(node.args[0], st, spec, old))
        b = lift(eng.ev(node.args[1], st, spec, old))
        if a.ty is TInt and b.ty is TInt:
            return Val(TInt, z3.If(a.t <= b.t, a.t, b.t))
        x, y = ops.to_real(a), ops.to_real(b)
        return Val(TReal, z3.If(x <= y, x, y))
    raise Unsupported('min arity')


def b_all_any(kind):
    def f(eng, st, node, spec=False, old=None):
        if len(node.args) == 1 and isinstance(node.args[0], ast.GeneratorExp):
            return quantifier(eng, st, node.args[0], kind, old, spec)
        if len(node.args) == 1:
            v = eng.ev(node.args[0], st, spec, old)
            if isinstance(v, Val) and isinstance(v.ty, TList):
                i = z3.Int(fresh_name('aa'))
                body = ops.truthy(Val(v.ty.elem, ops.list_arr(v)[i]))
                rng = z3.And(0 <= i, i < ops.list_len(v))
                return Val(TBool, z3.ForAll([i], z3.Implies(rng, body)) if kind == 'all' else z3.Exists([i], z3.And(rng, body)))
        raise Unsupported('%s over non-generator' % kind)
    return f


def b_next(eng, st, node, spec=False, old=None):
    v = eng.ev(node.args[0], st, spec, old)
    if isinstance(v, SeqView):
        eng.safety(st, v.length > 0, node, 'next-of-empty', spec)
        return v.getter(z3.IntVal(0))
    raise Unsupported('next of %s' % type(v).__name__)


def b_iter(eng, st, node, spec=False, old=None):
    return as_sequence(eng, st, eng.ev(node.args[0], st, spec, old), node)


def b_sum(eng, st, node, spec=False, old=None):
    v = eng.ev(node.args[0], st, spec, old)
    d = getattr(v, 'values_of', None)
    from . import speclib
    if d is not None:
        return speclib.SPEC_FUNCS['dvsum'].smt(eng, st, d, Val(TInt, ops.dict_len(d)))
    if isinstance(v, Val) and isinstance(v.ty, TList) and v.ty.elem in (TReal, TInt):
        return speclib.SPEC_FUNCS['lsum'].smt(eng, st, v, Val(TInt, ops.list_len(v)))
    raise Unsupported('sum over %s' % type(v).__name__)


BUILTINS = {
    'sum': b_sum,
    'len': b_len, 'range': b_range, 'enumerate': b_enumerate, 'zip': b_zip, 'int': b_int, 'float': b_float,
    'str': b_str, 'isinstance': b_isinstance, 'list': b_list, 'max': b_max, 'min': b_min,
    'all': b_all_any('all'), 'any': b_all_any('any'), 'next': b_next, 'iter': b_iter,
}


# ================================================================================================ methods
class EmptyDisplay:
    """`[]` / `{}` used as a default argument: typed by the value it stands in for."""

    def __init__(self, kind):
        self.kind = kind


def _is_empty_display(a):
    return (isinstance(a, ast.List) and not a.elts) or (isinstance(a, ast.Dict) and not a.keys)


def method_call(eng, st, node, base, name, spec=False, old=None):
    args = [EmptyDisplay('list' if isinstance(a, ast.List) else 'dict') if (name == 'get' and _is_empty_display(a))
            else eng.ev(a, st, spec, old) for a in node.args]
    kwargs = {k.arg: eng.ev(k.value, st, spec, old) for k in node.keywords}
    # ---- graphs
    if isinstance(base, NodesOf) and name == '__call__':
        raise Unsupported('nodes call')
    if isinstance(base, NodeView) or isinstance(base, AttrRec):
        if name == 'get':
            return _attr_get(eng, st, base, args, node)
        raise Unsupported('method %s on node attribute dict' % name)
    if isinstance(base, EdgeView):
        if name == 'get':
            key = _const_str(args[0])
            suffix, ty = H.EDGE_SCHEMA[key]
            has = st.heap.ehas(base.g.t, base.u.t, base.v.t, suffix)
            val = Val(ty, st.heap.evalue(base.g.t, base.u.t, base.v.t, suffix))
            return _get_default(has, val, args[1] if len(args) > 1 else lift(None))
        raise Unsupported('method %s on edge attribute dict' % name)
    if isinstance(base, Val) and isinstance(base.ty, TGraph):
        fn = GRAPH_METHODS.get(name)
        if fn is None:
            raise Unsupported('graph method %s' % name)
        res = fn(eng, st, node, base, args, kwargs, spec)
        if not spec:
            run_events(eng, st, name, node, {'arg%d' % i: a for i, a in enumerate(args)}, kwargs, res)
        return res
    if isinstance(base, PyDictConst):
        if name == 'keys':
            return PyList([lift(k) for k in base.d])
        raise Unsupported('method %s on constant dict' % name)
    base = lift(base)
    ty = base.ty
    if ty is TStr:
        if name == 'startswith':
            return Val(TBool, z3.PrefixOf(lift(args[0]).t, base.t))
        if name == 'endswith':
            return Val(TBool, z3.SuffixOf(lift(args[0]).t, base.t))
        if name == 'isdigit':
            return Val(TBool, ops.str_isdigit(base))
        raise Unsupported('str method %s' % name)
    if isinstance(ty, TList):
        if name == 'append':
            nb = ops.list_append(base, args[0])
            nb.loc = base.loc
            eng.write_back(node.func.value, nb, st, node)
            return lift(None)
        if name == 'remove':
            nb, present, axioms, k = ops.list_remove_first(base, args[0])
            eng.safety(st, present, node, 'remove-present', spec)
            st.assume(*axioms)
            nb.loc = base.loc
            eng.write_back(node.func.value, nb, st, node)
            return lift(None)
        if name == 'copy':
            return Val(ty, base.t)
        if name == 'index':
            nb, present, axioms, k = ops.list_remove_first(base, args[0])
            eng.safety(st, present, node, 'index-present', spec)
            st.assume(*axioms)
            return Val(TInt, k)
        if name == 'count':
            raise Unsupported('list.count')
        raise Unsupported('list method %s' % name)
    if isinstance(ty, TDict):
        if name == 'get':
            has = ops.dict_has(base, args[0])
            val = Val(ty.val, ty.valmap(base.t)[ops.coerce(args[0], ty.key).t])
            return _get_default(has, val, args[1] if len(args) > 1 else lift(None))
        if name == 'items':
            keys = ops.dict_keys(base)

            def getter(i, base=base, keys=keys):
                k = Val(ty.key, ops.list_arr(keys)[i])
                return (k, Val(ty.val, ty.valmap(base.t)[k.t]))
            return SeqView(ops.dict_len(base), getter, 'items')
        if name == 'keys':
            return ops.dict_keys(base)
        if name == 'values':
            keys = ops.dict_keys(base)
            sv = SeqView(ops.dict_len(base), lambda i: Val(ty.val, ty.valmap(base.t)[ops.list_arr(keys)[i]]), 'values')
            sv.values_of = base
            return sv
        raise Unsupported('dict method %s' % name)
    if isinstance(ty, TOpt):
        eng.safety(st, z3.Not(ty.is_none(base.t)), node, 'method-on-None', spec)
        return method_call(eng, st, node, Val(ty.inner, ty.get(base.t)), name, spec, old)
    raise Unsupported('method %s on %s' % (name, ty))


def _get_default(has, val, default):
    if isinstance(default, EmptyDisplay):
        if isinstance(val.ty, TList):
            default = ops.list_literal(val.ty, [])
        elif isinstance(val.ty, TDict):
            default = ops.dict_empty(val.ty)
        else:
            raise Unsupported('empty display as default for %s' % val.ty)
    default = lift(default)
    if default.ty is TNone:
        ot = TOpt(val.ty)
        return Val(ot, z3.If(has, ot.some(val.t), ot.none()))
    if default.ty != val.ty:
        if ops.is_num(default) and ops.is_num(val):
            return Val(TReal, z3.If(has, ops.to_real(val), ops.to_real(default)))
        # e.g. .get('aromatic', 'False'): a str default for a bool attribute — keep both, tagged
        raise Unsupported('get() default of type %s for attribute of type %s' % (default.ty, val.ty))
    return Val(val.ty, z3.If(has, val.t, default.t))


def _attr_get(eng, st, base, args, node):
    name = _const_str(args[0])
    if name is None:
        raise Unsupported('get() with non-constant attribute name')
    default = args[1] if len(args) > 1 else lift(None)
    if isinstance(base, NodeView):
        has, val = _node_attr_val(eng, st, base, name)
        val = Val(val.ty, val.t)
    else:
        suffix, ty = H.NODE_SCHEMAS[base.schema][name]
        has, val = base.attrs.get(suffix, (FALSE, fresh(ty)))
    if not isinstance(default, EmptyDisplay):
        default = lift(default)
    if isinstance(default, Val) and default.ty is TStr and val.ty is TBool:
        # truthiness-only use: .get('aromatic', 'False') — a non-empty str default is truthy
        return Val(TBool, z3.If(has, val.t, ops.truthy(default)))
    return _get_default(has, val, default)


# ---- graph methods ------------------------------------------------------------------------------
def _kw_attrs(eng, st, g, kwargs, schema_of):
    """Turn keyword arguments of add_node / add_edge into (suffix -> Val), expanding **AttrRec."""
    out = {}
    rest = None
    for k, v in kwargs.items():
        if k is None:
            if isinstance(v, AttrRec):
                for suffix, (has, val) in v.attrs.items():
                    out[suffix] = (has, val)
                rest = v
                continue
            if isinstance(v, (NodeView, EdgeView)):
                out['**view'] = v
                continue
            raise Unsupported('** of %s' % type(v).__name__)
        suffix, ty = schema_of(k)
        out[suffix] = (TRUE, ops.coerce(v, ty))
    return out, rest


def g_add_node(eng, st, node, g, args, kwargs, spec):
    n = lift(args[0])
    ncomps = ['nodes', 'hasn', 'nidx', 'rest'] + ['nh:' + a for a in H._ATTR_SORTS] + ['nv:' + a for a in H._ATTR_SORTS]
    _frame_check(eng, st, g.t, node, 'add_node', ncomps)
    sch = H.NODE_SCHEMAS[g.ty.schema]
    attrs, rec = _kw_attrs(eng, st, g, kwargs, lambda k: sch[k] if k in sch else (_ for _ in ()).throw(Unsupported('attr ' + k)))
    view = attrs.pop('**view', None)
    heap, present = st.heap.add_node(g.t, n.t)
    heap = heap.clear_new_node_attrs(g.t, n.t, present)
    if view is not None:
        # add_node(n, **other.nodes[m]): copy every schema attribute (values shared, see DESIGN §2.3 aliasing)
        src_sch = H.NODE_SCHEMAS[view.g.ty.schema]
        for name, (suffix, ty) in src_sch.items():
            if name not in sch or sch[name][0] != suffix:
                continue
            has = st.heap.nhas(view.g.t, view.n.t, suffix)
            val = st.heap.nval(view.g.t, view.n.t, suffix)
            arr_h = heap.get('nh:' + suffix)
            arr_v = heap.get('nv:' + suffix)
            heap = heap.set('nh:' + suffix, z3.Store(arr_h, g.t, z3.Store(arr_h[g.t], n.t, z3.Or(has, arr_h[g.t][n.t]))))
            heap = heap.set('nv:' + suffix, z3.Store(arr_v, g.t, z3.Store(arr_v[g.t], n.t, z3.If(has, val, arr_v[g.t][n.t]))))
        heap = heap._store2('rest', g.t, n.t, st.heap.get('rest')[view.g.t][view.n.t])
    for suffix, (has, val) in attrs.items():
        if suffix == 'bonding' and not z3.is_false(z3.simplify(has)):
            guard = st.copy()
            guard.assume(has)
            eng.check_bonding_write(guard, val.t, node)
        if suffix == 'fragid#l' and not z3.is_false(z3.simplify(has)):
            guard = st.copy()
            guard.assume(has)
            eng.check_fragid_write(guard, val.t, node)
        arr_h = heap.get('nh:' + suffix)
        arr_v = heap.get('nv:' + suffix)
        heap = heap.set('nh:' + suffix, z3.Store(arr_h, g.t, z3.Store(arr_h[g.t], n.t, z3.Or(has, arr_h[g.t][n.t]))))
        heap = heap.set('nv:' + suffix, z3.Store(arr_v, g.t, z3.Store(arr_v[g.t], n.t, z3.If(has, val.t, arr_v[g.t][n.t]))))
    if rec is not None and rec.rest is not None:
        heap = heap._store2('rest', g.t, n.t, rec.rest)
    st.heap = heap
    return lift(None)


def g_add_edge(eng, st, node, g, args, kwargs, spec):
    u, v = lift(args[0]), lift(args[1])
    ecomps = ['hase', 'elist', 'eidx'] + ['eh:' + sfx for sfx, _ in H.EDGE_SCHEMA.values()] + ['ev:' + sfx for sfx, _ in H.EDGE_SCHEMA.values()]
    _frame_check(eng, st, g.t, node, 'add_edge', ecomps)
    if st.writable is not None:
        both = z3.And(st.heap.has_node(g.t, u.t), st.heap.has_node(g.t, v.t))
        cond = z3.Or(both, st.writable(g.t, ['nodes', 'hasn', 'nidx', 'rest']))
        if not z3.is_true(z3.simplify(cond)):
            eng.oblige(st, 'frame', cond, node, 'add_edge-end-nodes', detail='add_edge would create a node outside the frame')
            st.assume(cond)

    def sch(k):
        if k not in H.EDGE_SCHEMA:
            raise Unsupported('edge attribute %s' % k)
        return H.EDGE_SCHEMA[k]
    attrs, rec = _kw_attrs(eng, st, g, kwargs, sch)
    view = attrs.pop('**view', None)
    heap = st.heap
    # add_edge adds missing end nodes
    for x in (u, v):
        heap, present = heap.add_node(g.t, x.t)
        heap = heap.clear_new_node_attrs(g.t, x.t, present)
    heap, present = heap.add_edge(g.t, u.t, v.t)
    heap = heap.clear_new_edge_attrs(g.t, u.t, v.t, present)
    if view is not None:
        for name, (suffix, ty) in H.EDGE_SCHEMA.items():
            has = st.heap.ehas(view.g.t, view.u.t, view.v.t, suffix)
            val = st.heap.evalue(view.g.t, view.u.t, view.v.t, suffix)
            heap = heap._store3('eh:' + suffix, g.t, u.t, v.t, z3.Or(has, heap.ehas(g.t, u.t, v.t, suffix)))
            heap = heap._store3('ev:' + suffix, g.t, u.t, v.t, z3.If(has, val, heap.evalue(g.t, u.t, v.t, suffix)))
    if rec is not None:
        raise Unsupported('add_edge(**detached dict)')
    for suffix, (has, val) in attrs.items():
        heap = heap.set_eattr(g.t, u.t, v.t, suffix, val.t)
    st.heap = heap
    return lift(None)


def g_has_edge(eng, st, node, g, args, kwargs, spec):
    return Val(TBool, st.heap.has_edge(g.t, lift(args[0]).t, lift(args[1]).t))


def g_nodes_call(eng, st, node, g, args, kwargs, spec):
    data = kwargs.get('data')
    if data is None and args:
        data = args[0]
    if data is None:
        return NodesOf(g)
    s = _const_str(data)
    if s is not None:
        return NodesOf(g, s)
    d = z3.simplify(lift(data).t)
    if z3.is_true(d):
        return NodesOf(g, True)
    raise Unsupported('nodes(data=?)')


def g_edges_call(eng, st, node, g, args, kwargs, spec):
    data = kwargs.get('data')
    if data is None:
        return EdgesOf(g)
    d = z3.simplify(lift(data).t)
    if z3.is_true(d):
        return EdgesOf(g, True)
    raise Unsupported('edges(data=?)')


def g_neighbors(eng, st, node, g, args, kwargs, spec):
    """G.neighbors(n): some enumeration (order unspecified here) of exactly the adjacent nodes."""
    n = lift(args[0])
    eng.safety(st, st.heap.has_node(g.t, n.t), node, 'neighbors-node-exists', spec)
    lst = fresh(H.T_NODELIST, 'nbrs')
    i = z3.Int(fresh_name('ni'))
    j = z3.Int(fresh_name('nj'))
    m = z3.Int(fresh_name('nm'))
    arr, ln = ops.list_arr(lst), ops.list_len(lst)
    st.assume(ln >= 0,
              z3.ForAll([i], z3.Implies(z3.And(0 <= i, i < ln), st.heap.has_edge(g.t, n.t, arr[i])), patterns=[arr[i]]),
              z3.ForAll([m], z3.Implies(st.heap.has_edge(g.t, n.t, m),
                                        z3.Exists([j], z3.And(0 <= j, j < ln, arr[j] == m))),
                        patterns=[st.heap.has_edge(g.t, n.t, m)]))
    return as_sequence(eng, st, lst, node)


def g_copy(eng, st, node, g, args, kwargs, spec):
    heap, ng = st.heap.alloc_graph()
    for comp in heap.components():
        arr = heap.get(comp)
        heap = heap.set(comp, z3.Store(arr, ng, arr[g.t]))
    st.heap = heap
    return Val(g.ty, ng)


GRAPH_METHODS = {'add_node': g_add_node, 'add_edge': g_add_edge, 'has_edge': g_has_edge, 'nodes': g_nodes_call,
                 'edges': g_edges_call, 'neighbors': g_neighbors, 'copy': g_copy}


# ================================================================================================ external functions
def m_nx_graph(eng, st, node):
    heap, g = st.heap.alloc_graph()
    st.heap = heap
    schema = getattr(eng.c, 'new_graph_schema', 'mol')
    return Val(TGraph(schema), g)


def m_get_node_attributes(eng, st, node, spec=False, old=None):
    """networkx.get_node_attributes(G, name): {n: G.nodes[n][name]} over the nodes that carry it, in node order."""
    g = eng.ev(node.args[0], st, spec, old)
    name = _const_str(eng.ev(node.args[1], st, spec, old))
    if name is None:
        # the attribute name is a parameter (bond_attribute): use the contract's binding
        name = getattr(eng.c, 'attr_param_value', None)
        if name is None:
            raise Unsupported('get_node_attributes with a non-constant name')
    return node_attr_dict(eng, st, g, name)


_NAD_FUNCS = {}


def node_attr_dict(eng, st, g, name):
    """get_node_attributes as a FUNCTION of the graph's slices of the heap (so that equal heaps give equal dicts)."""
    suffix, ty = _schema_attr(g, name)
    dty = TDict(TInt, ty)
    heap = st.heap
    nodes_t, hasn_t, nidx_t = heap.nodes(g.t), heap.get('hasn')[g.t], heap.get('nidx')[g.t]
    nh_t, nv_t = heap.get('nh:' + suffix)[g.t], heap.get('nv:' + suffix)[g.t]
    if suffix not in _NAD_FUNCS:
        _NAD_FUNCS[suffix] = z3.Function('node_attrs_' + suffix.replace('#', '_'), nodes_t.sort(), hasn_t.sort(), nidx_t.sort(),
                                         nh_t.sort(), nv_t.sort(), dty.sort())
    d = Val(dty, _NAD_FUNCS[suffix](nodes_t, hasn_t, nidx_t, nh_t, nv_t))
    n = z3.Int(fresh_name('an'))
    a = z3.Int(fresh_name('aa'))
    b = z3.Int(fresh_name('ab'))
    keys = dty.keys(d.t)
    karr, klen = dty.keys_ty.arr(keys), dty.keys_ty.length(keys)
    st.assume(*ops.dict_wf(d))
    st.assume(z3.ForAll([n], dty.has(d.t)[n] == z3.And(hasn_t[n], nh_t[n]), patterns=[dty.has(d.t)[n], nh_t[n]]),
              z3.ForAll([n], z3.Implies(dty.has(d.t)[n], dty.valmap(d.t)[n] == nv_t[n]), patterns=[dty.valmap(d.t)[n]]),
              # keys appear in node order
              z3.ForAll([a, b], z3.Implies(z3.And(0 <= a, a < b, b < klen), nidx_t[karr[a]] < nidx_t[karr[b]]),
                        patterns=[z3.MultiPattern(karr[a], karr[b])]))
    return d


_EAD_FUNCS = {}


def edge_attr_dict(eng, st, g, name):
    """networkx.get_edge_attributes(G, name) as a function of the graph's edge slices: keys are the edges in edge-list
    orientation that carry the attribute."""
    suffix, ty = H.EDGE_SCHEMA[name]
    dty = TDict(H.T_EDGE, ty)
    heap = st.heap
    el, hase, eidx = heap.edges(g.t), heap.get('hase')[g.t], heap.get('eidx')[g.t]
    eh, ev = heap.get('eh:' + suffix)[g.t], heap.get('ev:' + suffix)[g.t]
    if suffix not in _EAD_FUNCS:
        _EAD_FUNCS[suffix] = z3.Function('edge_attrs_' + suffix, el.sort(), hase.sort(), eidx.sort(), eh.sort(), ev.sort(), dty.sort())
    d = Val(dty, _EAD_FUNCS[suffix](el, hase, eidx, eh, ev))
    u, v = z3.Int(fresh_name('eu')), z3.Int(fresh_name('ev'))
    key = H.T_EDGE.mk(u, v)
    earr = H.T_EDGELIST.arr(el)
    st.assume(*ops.dict_wf(d))
    st.assume(z3.ForAll([u, v], dty.has(d.t)[key] == z3.And(hase[u][v], eh[u][v], earr[eidx[u][v]] == key),
                        patterns=[dty.has(d.t)[key]]),
              z3.ForAll([u, v], z3.Implies(dty.has(d.t)[key], dty.valmap(d.t)[key] == ev[u][v]), patterns=[dty.valmap(d.t)[key]]))
    # every key is a pair (datatype with one constructor): the quantification over (u, v) above covers all keys
    return d


def m_get_edge_attributes(eng, st, node, spec=False, old=None):
    g = eng.ev(node.args[0], st, spec, old)
    name = _const_str(eng.ev(node.args[1], st, spec, old))
    if name is None:
        raise Unsupported('get_edge_attributes with a non-constant name')
    return edge_attr_dict(eng, st, g, name)


def m_deepcopy(eng, st, node):
    v = eng.ev(node.args[0], st)
    if isinstance(v, NodeView):
        sch = H.NODE_SCHEMAS[v.g.ty.schema]
        attrs = {}
        for name, (suffix, ty) in sch.items():
            attrs[suffix] = (st.heap.nhas(v.g.t, v.n.t, suffix), Val(ty, st.heap.nval(v.g.t, v.n.t, suffix)))
        return AttrRec(v.g.ty.schema, attrs, st.heap.get('rest')[v.g.t][v.n.t])
    if isinstance(v, EdgeView):
        return v   # only ever unpacked with ** into add_edge; values are immutable in the schema
    if isinstance(v, Val):
        return Val(v.ty, v.t)
    raise Unsupported('deepcopy of %s' % type(v).__name__)


def m_np_zeros(eng, st, node):
    eng.assumptions.add('numpy vectors are treated per coordinate as one mathematical real (componentwise arithmetic, no NaN/inf)')
    return Val(TReal, z3.RealVal(0))


def m_defaultdict(eng, st, node):
    return empty_container(eng, st, node, 'dict')


def m_np_array(eng, st, node):
    eng.assumptions.add('numpy arrays of numbers are treated as lists of mathematical reals (elementwise arithmetic)')
    v = eng.ev(node.args[0], st)
    out = Val(v.ty, v.t)
    out.np = True
    return out


def m_random_choice(eng, st, node, allow_raise=False):
    """random.choice(seq): some element of seq (IndexError when empty).  Trusted: the draw is arbitrary."""
    eng.assumptions.add('random.choice returns an element of its argument (IndexError on an empty sequence); the draw itself is unconstrained')
    seq = as_sequence(eng, st, eng.ev(node.args[0], st), node)
    outs = []
    if allow_raise:
        r = st.copy()
        r.assume(seq.length == 0)
        r.flow, r.exc = 'raise', 'IndexError'
        outs.append((r, None))
        st.assume(seq.length > 0)
    else:
        eng.safety(st, seq.length > 0, node, 'choice-of-empty')
    j = z3.Int(fresh_name('choice'))
    st.assume(0 <= j, j < seq.length)
    outs.append((st, seq.getter(j)))
    return outs


def m_random_choices(eng, st, node, allow_raise=False):
    """random.choices(population, weights=w): a one-element list holding population[j] with w[j] > 0.
    Raises ValueError when the total weight is not a positive finite number (e.g. 0/0 = nan entries)."""
    eng.assumptions.add('random.choices(pop, weights=w) returns [pop[j]] for some j with w[j] > 0, or raises ValueError when the '
                        'weights do not have a positive finite total; the draw itself is unconstrained')
    pop = lift(eng.ev(node.args[0], st))
    w = None
    for k in node.keywords:
        if k.arg == 'weights':
            w = lift(eng.ev(k.value, st))
    if w is None or not isinstance(pop.ty, TList) or not isinstance(w.ty, TList):
        raise Unsupported('random.choices form')
    outs = []
    if not allow_raise:
        raise Unsupported('random.choices nested in an expression')
    r = st.copy()
    r.flow, r.exc = 'raise', 'ValueError'
    outs.append((r, None))
    j = z3.Int(fresh_name('choices'))
    finite = getattr(w, 'finite_cond', None)
    st.assume(0 <= j, j < ops.list_len(pop), j < ops.list_len(w), ops.list_arr(w)[j] > 0)
    if finite is not None:
        st.assume(finite)
    out_ty = TList(pop.ty.elem)
    outs.append((st, ops.list_literal(out_ty, [Val(pop.ty.elem, ops.list_arr(pop)[j])])))
    return outs


def m_set_node_attributes(eng, st, node):
    """networkx.set_node_attributes(G, values, name): scalar -> every node; dict -> the listed nodes that are in G."""
    g = eng.ev(node.args[0], st)
    values = lift(eng.ev(node.args[1], st)) if not isinstance(eng.ev(node.args[1], st), (AttrRec,)) else None
    if len(node.args) < 3 and not any(k.arg == 'name' for k in node.keywords):
        raise Unsupported('set_node_attributes without a name (dict of dicts)')
    name_v = eng.ev(node.args[2], st) if len(node.args) > 2 else eng.ev([k.value for k in node.keywords if k.arg == 'name'][0], st)
    name = _const_str(name_v)
    if name is None:
        raise Unsupported('set_node_attributes with a non-constant name')
    suffix, ty = _schema_attr(g, name)
    _frame_check(eng, st, g.t, node, 'set_node_attributes-' + name, ['nh:' + suffix, 'nv:' + suffix])
    heap = st.heap
    hasn = heap.get('hasn')[g.t]
    nh, nv = heap.get('nh:' + suffix)[g.t], heap.get('nv:' + suffix)[g.t]
    n = z3.Int(fresh_name('sn'))
    if isinstance(values.ty, TDict):
        sel = z3.And(values.ty.has(values.t)[n], hasn[n])
        newv = ops.coerce(Val(values.ty.val, values.ty.valmap(values.t)[n]), ty).t
    else:
        sel = hasn[n]
        newv = ops.coerce(values, ty).t
        if suffix == 'bonding':
            eng.check_bonding_write(st, newv, node)
        if suffix == 'fragid#l':
            eng.check_fragid_write(st, newv, node)
    ops.CTX.depth = 0
    nh2 = ops.mk_array(n, z3.Or(nh[n], sel), 'sna_h')
    nv2 = ops.mk_array(n, z3.If(sel, newv, nv[n]), 'sna_v')
    heap = heap.set('nh:' + suffix, z3.Store(heap.get('nh:' + suffix), g.t, nh2))
    heap = heap.set('nv:' + suffix, z3.Store(heap.get('nv:' + suffix), g.t, nv2))
    st.heap = heap
    return lift(None)


def comb_ufs(list_ty):
    """Index functions of itertools.combinations(L, 2): position -> (i, j) and (i, j) -> position."""
    cs = TList(TTuple(list_ty.elem, list_ty.elem)).sort()
    return (z3.Function('comb_fst_' + list_ty.name, cs, z3.IntSort(), z3.IntSort()),
            z3.Function('comb_snd_' + list_ty.name, cs, z3.IntSort(), z3.IntSort()),
            z3.Function('comb_pos_' + list_ty.name, cs, z3.IntSort(), z3.IntSort(), z3.IntSort()))


def m_combinations(eng, st, node):
    """itertools.combinations(L, r=2) as a list C of pairs: C[p] == (L[fst p], L[snd p]) with fst p < snd p, and every
    index pair i < j occurs at position pos(i, j).  (Trusted; the order of the pairs is left open.)"""
    eng.assumptions.add('itertools.combinations(L, 2) yields exactly the pairs (L[i], L[j]) with i < j, each once')
    seq = lift(eng.ev(node.args[0], st))
    r = None
    if len(node.args) > 1:
        r = eng.ev(node.args[1], st)
    for k in node.keywords:
        if k.arg == 'r':
            r = eng.ev(k.value, st)
    r = lift(r) if r is not None else None
    if r is None or not z3.is_int_value(z3.simplify(r.t)) or z3.simplify(r.t).as_long() != 2 or not isinstance(seq.ty, TList):
        raise Unsupported('itertools.combinations other than (list, 2)')
    pair = TTuple(seq.ty.elem, seq.ty.elem)
    cty = TList(pair)
    c = fresh(cty, 'comb')
    fst, snd, pos = comb_ufs(seq.ty)
    L, n = ops.list_arr(seq), ops.list_len(seq)
    C, m = cty.arr(c.t), cty.length(c.t)
    q, i, j = z3.Int(fresh_name('cp')), z3.Int(fresh_name('ci')), z3.Int(fresh_name('cj'))
    st.assume(m >= 0,
              z3.ForAll([q], z3.Implies(z3.And(0 <= q, q < m),
                                        z3.And(0 <= fst(c.t, q), fst(c.t, q) < snd(c.t, q), snd(c.t, q) < n,
                                               C[q] == pair.mk(L[fst(c.t, q)], L[snd(c.t, q)]),
                                               pos(c.t, fst(c.t, q), snd(c.t, q)) == q)), patterns=[C[q]]),
              z3.ForAll([i, j], z3.Implies(z3.And(0 <= i, i < j, j < n),
                                           z3.And(0 <= pos(c.t, i, j), pos(c.t, i, j) < m, fst(c.t, pos(c.t, i, j)) == i,
                                                  snd(c.t, pos(c.t, i, j)) == j)), patterns=[pos(c.t, i, j)]))
    return c


RAISING_MODELS = {'random.choice': m_random_choice, 'random.choices': m_random_choices}

CANON_MODELS = {
    'networkx.set_node_attributes': m_set_node_attributes,
    'itertools.combinations': m_combinations,
    'time.time_ns': lambda eng, st, node: fresh(TInt, 'time_ns'),
    'random.seed': lambda eng, st, node: lift(None),
    'collections:defaultdict': m_defaultdict,
    'numpy.array': m_np_array,
    'networkx.Graph': m_nx_graph,
    'networkx.get_node_attributes': m_get_node_attributes,
    'networkx.get_edge_attributes': m_get_edge_attributes,
    'copy.deepcopy': m_deepcopy,
    'numpy.zeros': m_np_zeros,
}
