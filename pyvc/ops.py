"""
SMT semantics of the Python operations of the accepted subset (DESIGN §2.2/2.3).

Every function takes/returns `Val`s.  Functions that can raise in Python return the value together
with a *safety condition* (a z3 Bool that must hold for the operation not to raise); the executor
turns that condition into a `no-exc` obligation in code mode and ignores it in spec mode.
"""
import z3
from .types import (TInt, TReal, TBool, TStr, TNone, TList, TTuple, TDict, TOpt, TGraph, TOpaque, TRecord,
                    Val, lift, fresh, fresh_name)

TRUE = z3.BoolVal(True)
FALSE = z3.BoolVal(False)


class _Ctx:
    """Definitional axioms of fresh array symbols created by the list operations below.  The executor drains
    `pending` into the path condition after every expression; inside a quantifier body (`depth` > 0) a fresh symbol
    could not depend on the bound variables, so a lambda term is used there instead."""
    pending = []
    depth = 0


CTX = _Ctx()


def mk_array(i, body, name='arr'):
    """The array  i |-> body(i)."""
    if CTX.depth > 0:
        return z3.Lambda([i], body)
    b = z3.Const(fresh_name(name), z3.ArraySort(z3.IntSort(), body.sort()))
    # triggers: the new array's own element, and (alternatively) every element A[i] of an existing array the definition
    # reads at the same index — so that a fact about A[k] also brings in the definition of b[k]
    pats = [b[i]]
    seen, stack = set(), [body]
    while stack:
        t = stack.pop()
        if t.get_id() in seen or not z3.is_app(t):
            continue
        seen.add(t.get_id())
        if t.decl().kind() == z3.Z3_OP_SELECT and t.arg(1).eq(i) and _plain_array(t.arg(0)):
            pats.append(t)
        stack.extend(t.children())
    CTX.pending.append(z3.ForAll([i], b[i] == body, patterns=pats[:4]))
    return b


def _mentions_var(term, v):
    seen, stack = set(), [term]
    while stack:
        t = stack.pop()
        if t.get_id() in seen:
            continue
        seen.add(t.get_id())
        if t.eq(v):
            return True
        if z3.is_app(t):
            stack.extend(t.children())
    return False


def _plain_array(term):
    """Built from constants, selects and datatype accessors only (usable inside a trigger)."""
    ok = (z3.Z3_OP_UNINTERPRETED, z3.Z3_OP_SELECT, z3.Z3_OP_DT_ACCESSOR, z3.Z3_OP_ANUM)
    seen, stack = set(), [term]
    while stack:
        t = stack.pop()
        if t.get_id() in seen:
            continue
        seen.add(t.get_id())
        if not z3.is_app(t) or z3.is_var(t):
            return False
        if t.decl().kind() not in ok and not z3.is_int_value(t):
            return False
        stack.extend(t.children())
    return True


class Unsupported(Exception):
    """The construct is outside the accepted subset: the function becomes out-of-subset for this run."""


# ------------------------------------------------------------------------------------------ numeric
def is_num(v):
    return v.ty in (TInt, TReal, TBool)


def to_real(v):
    if v.ty is TReal:
        return v.t
    if v.ty is TInt:
        return z3.ToReal(v.t)
    if v.ty is TBool:
        return z3.If(v.t, z3.RealVal(1), z3.RealVal(0))
    raise Unsupported('to_real of %s' % v.ty)


def to_int(v):
    if v.ty is TInt:
        return v.t
    if v.ty is TBool:
        return z3.If(v.t, z3.IntVal(1), z3.IntVal(0))
    raise Unsupported('to_int of %s' % v.ty)


def unwrap_opt(v):
    """Opt[T] used where a T is needed: (inner Val, safety = is not None)."""
    if isinstance(v, Val) and isinstance(v.ty, TOpt):
        return Val(v.ty.inner, v.ty.get(v.t)), z3.Not(v.ty.is_none(v.t))
    return v, TRUE


def arith(op, a, b):
    """+ - * / // % on numbers; returns (Val, safety)."""
    if a.ty in (TInt, TBool) and b.ty in (TInt, TBool) and op != '/':
        x, y = to_int(a), to_int(b)
        if op == '+':
            return Val(TInt, x + y), TRUE
        if op == '-':
            return Val(TInt, x - y), TRUE
        if op == '*':
            return Val(TInt, x * y), TRUE
        if op == '//':
            # Python floor division == SMT div only for positive divisor; we require that
            return Val(TInt, x / y), y > 0
        if op == '%':
            return Val(TInt, x % y), y > 0
    x, y = to_real(a), to_real(b)
    if op == '+':
        return Val(TReal, x + y), TRUE
    if op == '-':
        return Val(TReal, x - y), TRUE
    if op == '*':
        return Val(TReal, x * y), TRUE
    if op == '/':
        return Val(TReal, x / y), y != 0
    raise Unsupported('arith %s on %s,%s' % (op, a.ty, b.ty))


# ------------------------------------------------------------------------------------------ lists
def list_len(v):
    return v.ty.length(v.t)


def list_arr(v):
    return v.ty.arr(v.t)


def list_get(v, i):
    """v[i] with Python negative indices; returns (Val, safety)."""
    ln = list_len(v)
    idx = z3.If(i < 0, i + ln, i)
    return Val(v.ty.elem, list_arr(v)[idx]), z3.And(0 <= idx, idx < ln)


def list_literal(ty, vals):
    arr = z3.K(z3.IntSort(), _default_term(ty.elem))
    for k, x in enumerate(vals):
        arr = z3.Store(arr, k, coerce(x, ty.elem).t)
    return Val(ty, ty.mk(arr, z3.IntVal(len(vals))))


def list_append(v, x):
    ln = list_len(v)
    return Val(v.ty, v.ty.mk(z3.Store(list_arr(v), ln, coerce(x, v.ty.elem).t), ln + 1))


def list_contains(v, x, qname='j'):
    j = z3.Int(fresh_name(qname))
    xe = coerce(x, v.ty.elem)
    return z3.Exists([j], z3.And(0 <= j, j < list_len(v), equal_terms(v.ty.elem, list_arr(v)[j], xe.t)))


def clamp_slice_index(i, ln, default):
    if i is None:
        return default
    adj = z3.If(i < 0, i + ln, i)
    return z3.If(adj < 0, z3.IntVal(0), z3.If(adj > ln, ln, adj))


def list_slice(v, lo, hi):
    """v[lo:hi] (step 1).  A fresh array defined pointwise."""
    ln = list_len(v)
    a = clamp_slice_index(lo, ln, z3.IntVal(0))
    b = clamp_slice_index(hi, ln, ln)
    new_len = z3.If(b > a, b - a, z3.IntVal(0))
    i = z3.Int(fresh_name('si'))
    arr = mk_array(i, list_arr(v)[i + a], 'slice')
    return Val(v.ty, v.ty.mk(arr, new_len))


def list_remove_first(v, x):
    """list.remove(x): returns (new list Val, safety = x in list, axioms)."""
    ty = v.ty
    ln = list_len(v)
    arr = list_arr(v)
    k = z3.Int(fresh_name('rk'))          # index of first occurrence (skolem constant)
    m = z3.Int(fresh_name('rm'))
    xe = coerce(x, ty.elem).t
    present = list_contains(v, x)
    first = z3.And(0 <= k, k < ln, equal_terms(ty.elem, arr[k], xe),
                   z3.ForAll([m], z3.Implies(z3.And(0 <= m, m < k), z3.Not(equal_terms(ty.elem, arr[m], xe)))))
    i = z3.Int(fresh_name('ri'))
    new_arr = mk_array(i, z3.If(i < k, arr[i], arr[i + 1]), 'removed')
    out = Val(ty, ty.mk(new_arr, ln - 1))
    return out, present, [z3.Implies(present, first)], k


def list_concat(a, b):
    ty = a.ty
    la, lb = list_len(a), list_len(b)
    i = z3.Int(fresh_name('ci'))
    arr = mk_array(i, z3.If(i < la, list_arr(a)[i], list_arr(b)[i - la]), 'concat')
    return Val(ty, ty.mk(arr, la + lb))


def list_wf(v):
    return list_len(v) >= 0


# ------------------------------------------------------------------------------------------ dicts
def dict_keys(v):
    return Val(v.ty.keys_ty, v.ty.keys(v.t))


def dict_len(v):
    return v.ty.keys_ty.length(v.ty.keys(v.t))


def dict_has(v, k):
    k = lift(k)
    if isinstance(k.ty, TOpt) and not isinstance(v.ty.key, TOpt):
        return z3.And(z3.Not(k.ty.is_none(k.t)), v.ty.has(v.t)[k.ty.get(k.t)])
    return v.ty.has(v.t)[coerce(k, v.ty.key).t]


def dict_get(v, k):
    """v[k]; returns (Val, safety)."""
    kt = coerce(k, v.ty.key).t
    return Val(v.ty.val, v.ty.valmap(v.t)[kt]), v.ty.has(v.t)[kt]


def dict_empty(ty):
    keys = ty.keys_ty.mk(z3.K(z3.IntSort(), _default_term(ty.key)), z3.IntVal(0))
    return Val(ty, ty.mk(keys, z3.K(ty.key.sort(), FALSE), z3.K(ty.key.sort(), _default_term(ty.val)),
                         z3.K(ty.key.sort(), z3.IntVal(0))))


def dict_set(v, k, x):
    ty = v.ty
    kt = coerce(k, ty.key).t
    xt = coerce(x, ty.val).t
    keys = ty.keys(v.t)
    kl = ty.keys_ty.length(keys)
    present = ty.has(v.t)[kt]
    new_keys = z3.If(present, keys, ty.keys_ty.mk(z3.Store(ty.keys_ty.arr(keys), kl, kt), kl + 1))
    new_idx = z3.If(present, ty.idx(v.t), z3.Store(ty.idx(v.t), kt, kl))
    return Val(ty, ty.mk(new_keys, z3.Store(ty.has(v.t), kt, TRUE), z3.Store(ty.valmap(v.t), kt, xt), new_idx))


def dict_wf(v):
    """Assumed for every dict introduced by havoc / as input (bijection key list <-> membership)."""
    ty = v.ty
    keys = ty.keys(v.t)
    arr = ty.keys_ty.arr(keys)
    ln = ty.keys_ty.length(keys)
    i = z3.Int(fresh_name('di'))
    k = z3.Const(fresh_name('dk'), ty.key.sort())
    has, idx = ty.has(v.t), ty.idx(v.t)
    return [ln >= 0,
            z3.ForAll([i], z3.Implies(z3.And(0 <= i, i < ln), z3.And(has[arr[i]], idx[arr[i]] == i)), patterns=[arr[i]]),
            z3.ForAll([k], z3.Implies(has[k], z3.And(0 <= idx[k], idx[k] < ln, arr[idx[k]] == k)), patterns=[has[k]])]


# ------------------------------------------------------------------------------------------ strings
def str_len(v):
    return z3.Length(v.t)


def str_index(v, i):
    ln = z3.Length(v.t)
    idx = z3.If(i < 0, i + ln, i)
    return Val(TStr, z3.SubString(v.t, idx, 1)), z3.And(0 <= idx, idx < ln)


def str_slice(v, lo, hi):
    ln = z3.Length(v.t)
    a = clamp_slice_index(lo, ln, z3.IntVal(0))
    b = clamp_slice_index(hi, ln, ln)
    return Val(TStr, z3.SubString(v.t, a, z3.If(b > a, b - a, z3.IntVal(0))))


def str_isdigit(v):
    """str.isdigit() for ASCII digits (contracts carry the ascii precondition)."""
    s = v.t
    i = z3.Int(fresh_name('ch'))
    one = z3.Length(s) == 1
    digits = z3.Or(*[s == z3.StringVal(str(d)) for d in range(10)])
    # only the single-character case is modelled exactly; longer strings: all chars digits
    return z3.If(one, digits,
                 z3.And(z3.Length(s) > 0,
                        z3.ForAll([i], z3.Implies(z3.And(0 <= i, i < z3.Length(s)),
                                                  z3.And(z3.StrToCode(z3.SubString(s, i, 1)) >= 48,
                                                         z3.StrToCode(z3.SubString(s, i, 1)) <= 57)))))


def str_to_int(v):
    """int(s) for a string of ASCII digits; safety: s is a non-empty digit string."""
    return Val(TInt, z3.StrToInt(v.t)), z3.StrToInt(v.t) >= 0


# ------------------------------------------------------------------------------------------ generic
def _default_term(ty):
    if ty is TInt or isinstance(ty, TGraph):
        return z3.IntVal(0)
    if ty is TReal:
        return z3.RealVal(0)
    if ty is TBool or ty is TNone:
        return FALSE
    if ty is TStr:
        return z3.StringVal('')
    # a closed VALUE for structured types (cvc5 only accepts values in constant arrays)
    if isinstance(ty, TTuple):
        return ty.mk(*[_default_term(e) for e in ty.elems])
    if isinstance(ty, TList):
        return ty.mk(z3.K(z3.IntSort(), _default_term(ty.elem)), z3.IntVal(0))
    if isinstance(ty, TOpt):
        return ty.none()
    if isinstance(ty, TDict):
        return ty.mk(_default_term(ty.keys_ty), z3.K(ty.key.sort(), FALSE), z3.K(ty.key.sort(), _default_term(ty.val)),
                     z3.K(ty.key.sort(), z3.IntVal(0)))
    return z3.Const('default_' + ty.name, ty.sort())


def coerce(v, ty):
    """Static coercions Python performs implicitly in our encoding (int -> real, T -> Opt[T], None -> Opt)."""
    v = lift(v)
    if v.ty == ty:
        return v
    if ty is TReal and v.ty in (TInt, TBool):
        return Val(TReal, to_real(v))
    if ty is TInt and v.ty is TBool:
        return Val(TInt, to_int(v))
    if isinstance(ty, TOpt):
        if v.ty is TNone:
            return Val(ty, ty.none())
        return Val(ty, ty.some(coerce(v, ty.inner).t))
    if isinstance(ty, TTuple) and isinstance(v.ty, TTuple) and len(ty.elems) == len(v.ty.elems):
        return Val(ty, ty.mk(*[coerce(Val(e, v.ty.field(v.t, i)), te).t for i, (e, te) in enumerate(zip(v.ty.elems, ty.elems))]))
    if isinstance(ty, TGraph) and isinstance(v.ty, TGraph):
        return Val(ty, v.t)
    raise Unsupported('cannot coerce %s to %s' % (v.ty, ty))


def equal_terms(ty, a, b):
    """Python == on two terms of the same static type."""
    if isinstance(ty, TList):
        i = z3.Int(fresh_name('eq'))
        return z3.And(ty.length(a) == ty.length(b),
                      z3.ForAll([i], z3.Implies(z3.And(0 <= i, i < ty.length(a)),
                                                equal_terms(ty.elem, ty.arr(a)[i], ty.arr(b)[i]))))
    if isinstance(ty, TTuple):
        return z3.And(*[equal_terms(e, ty.field(a, i), ty.field(b, i)) for i, e in enumerate(ty.elems)])
    if isinstance(ty, TOpt):
        return z3.Or(z3.And(ty.is_none(a), ty.is_none(b)),
                     z3.And(z3.Not(ty.is_none(a)), z3.Not(ty.is_none(b)), equal_terms(ty.inner, ty.get(a), ty.get(b))))
    if isinstance(ty, TDict):
        raise Unsupported('dict equality')
    return a == b


def equal(a, b):
    a, b = lift(a), lift(b)
    if a.ty == b.ty:
        if a.ty is TNone:
            return TRUE
        return equal_terms(a.ty, a.t, b.t)
    if is_num(a) and is_num(b):
        return to_real(a) == to_real(b)
    if isinstance(a.ty, TOpt) and b.ty is TNone:
        return a.ty.is_none(a.t)
    if isinstance(b.ty, TOpt) and a.ty is TNone:
        return b.ty.is_none(b.t)
    if isinstance(a.ty, TOpt):
        return z3.And(z3.Not(a.ty.is_none(a.t)), equal(Val(a.ty.inner, a.ty.get(a.t)), b))
    if isinstance(b.ty, TOpt):
        return equal(b, a)
    if isinstance(a.ty, TTuple) and isinstance(b.ty, TTuple):
        if len(a.ty.elems) != len(b.ty.elems):
            return FALSE
        return z3.And(*[equal(Val(ea, a.ty.field(a.t, i)), Val(eb, b.ty.field(b.t, i)))
                        for i, (ea, eb) in enumerate(zip(a.ty.elems, b.ty.elems))])
    if isinstance(a.ty, TGraph) and isinstance(b.ty, TGraph):
        return a.t == b.t
    # values of different static types are never equal in Python (str vs int, None vs str, ...)
    return FALSE


def truthy(v):
    v = lift(v)
    ty = v.ty
    if ty is TBool:
        return v.t
    if ty is TInt:
        return v.t != 0
    if ty is TReal:
        return v.t != 0
    if ty is TStr:
        return z3.Length(v.t) > 0
    if ty is TNone:
        return FALSE
    if isinstance(ty, TList):
        return list_len(v) > 0
    if isinstance(ty, TDict):
        return dict_len(v) > 0
    if isinstance(ty, TOpt):
        return z3.And(z3.Not(ty.is_none(v.t)), truthy(Val(ty.inner, ty.get(v.t))))
    if isinstance(ty, TTuple):
        return TRUE if ty.elems else FALSE
    raise Unsupported('truthiness of %s' % ty)


def compare(op, a, b):
    a, b = lift(a), lift(b)
    if op == '==':
        return equal(a, b)
    if op == '!=':
        return z3.Not(equal(a, b))
    if is_num(a) and is_num(b):
        if a.ty in (TInt, TBool) and b.ty in (TInt, TBool):
            x, y = to_int(a), to_int(b)
        else:
            x, y = to_real(a), to_real(b)
        return {'<': x < y, '<=': x <= y, '>': x > y, '>=': x >= y}[op]
    if a.ty is TStr and b.ty is TStr and op in ('<', '<='):
        return (a.t < b.t) if op == '<' else (a.t <= b.t)
    raise Unsupported('compare %s on %s,%s' % (op, a.ty, b.ty))


def contains(container, x):
    """x in container."""
    container, x = lift(container), lift(x)
    ty = container.ty
    if ty is TStr:
        if x.ty is not TStr:
            raise Unsupported('non-str in str')
        return z3.Contains(container.t, x.t)
    if isinstance(ty, TList):
        return list_contains(container, x)
    if isinstance(ty, TDict):
        return dict_has(container, x)
    if isinstance(ty, TTuple):
        return z3.Or(*[equal(Val(e, ty.field(container.t, i)), x) for i, e in enumerate(ty.elems)])
    raise Unsupported('membership in %s' % ty)


def wf_axioms(v):
    """Data-structure invariants assumed for a freshly introduced (havoc'd / input) value."""
    ty = v.ty
    if isinstance(ty, TList):
        out = [list_len(v) >= 0]
        if isinstance(ty.elem, (TList, TDict, TTuple)):
            i = z3.Int(fresh_name('wf'))
            inner = wf_axioms(Val(ty.elem, list_arr(v)[i]))
            if inner:
                out.append(z3.ForAll([i], z3.Implies(z3.And(0 <= i, i < list_len(v)), z3.And(*inner))))
        return out
    if isinstance(ty, TDict):
        out = dict_wf(v)
        if isinstance(ty.val, (TList, TDict)):
            k = z3.Const(fresh_name('wk'), ty.key.sort())
            inner = wf_axioms(Val(ty.val, ty.valmap(v.t)[k]))
            if inner:
                out.append(z3.ForAll([k], z3.And(*inner)))
        return out
    if isinstance(ty, TTuple):
        out = []
        for i, e in enumerate(ty.elems):
            out += wf_axioms(Val(e, ty.field(v.t, i)))
        return out
    if isinstance(ty, TOpt):
        inner = wf_axioms(Val(ty.inner, ty.get(v.t)))
        return [z3.Implies(z3.Not(ty.is_none(v.t)), z3.And(*inner))] if inner else []
    if isinstance(ty, TRecord):
        out = []
        for f in v.fields.values():
            out += wf_axioms(f)
        return out
    return []
