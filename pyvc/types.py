"""
Static types of the verified Python subset and their SMT sorts.

Every Python value handled by the symbolic executor is a `Val(ty, term)`: a static type plus one z3
term of the type's storage sort.  Containers are records of (Array, length) — never z3 sequences:
quantified sequence formulas come back `unknown` from z3 and cvc5 alike (DESIGN §2.3).
"""
import z3

_SORT_CACHE = {}


class Ty:
    name = '?'

    def sort(self):
        raise NotImplementedError

    def __repr__(self):
        return self.name

    def __eq__(self, other):
        return isinstance(other, Ty) and self.name == other.name

    def __hash__(self):
        return hash(self.name)


class _Prim(Ty):
    def __init__(self, name, mk):
        self.name = name
        self._mk = mk

    def sort(self):
        return self._mk()


TInt = _Prim('Int', z3.IntSort)
TReal = _Prim('Real', z3.RealSort)
TBool = _Prim('Bool', z3.BoolSort)
TStr = _Prim('Str', z3.StringSort)


class _NoneT(Ty):
    name = 'None'

    def sort(self):
        return z3.BoolSort()   # a unit: the term is irrelevant


TNone = _NoneT()


class TOpaque(Ty):
    """A value the code only passes around (never inspects)."""

    def __init__(self, name):
        self.name = 'Opaque_' + name

    def sort(self):
        if self.name not in _SORT_CACHE:
            _SORT_CACHE[self.name] = z3.DeclareSort(self.name)
        return _SORT_CACHE[self.name]


class TList(Ty):
    def __init__(self, elem):
        self.elem = elem
        self.name = 'List_%s' % elem.name

    def sort(self):
        if self.name not in _SORT_CACHE:
            dt = z3.Datatype(self.name)
            dt.declare('mk_' + self.name, ('arr_' + self.name, z3.ArraySort(z3.IntSort(), self.elem.sort())),
                       ('len_' + self.name, z3.IntSort()))
            _SORT_CACHE[self.name] = dt.create()
        return _SORT_CACHE[self.name]

    def mk(self, arr, length):
        s = self.sort()
        return s.constructor(0)(arr, length)

    def arr(self, t):
        return z3.simplify(self.sort().accessor(0, 0)(t)) if False else self.sort().accessor(0, 0)(t)

    def length(self, t):
        return self.sort().accessor(0, 1)(t)


class TTuple(Ty):
    def __init__(self, *elems):
        self.elems = tuple(elems)
        self.name = 'Tup_' + '_'.join(e.name for e in elems)

    def sort(self):
        if self.name not in _SORT_CACHE:
            dt = z3.Datatype(self.name)
            dt.declare('mk_' + self.name, *[('f%d_%s' % (i, self.name), e.sort()) for i, e in enumerate(self.elems)])
            _SORT_CACHE[self.name] = dt.create()
        return _SORT_CACHE[self.name]

    def mk(self, *terms):
        return self.sort().constructor(0)(*terms)

    def field(self, t, i):
        return self.sort().accessor(0, i)(t)


class TDict(Ty):
    """Insertion-ordered dict: key list without duplicates + membership + value map + index of each key."""

    def __init__(self, key, val):
        self.key = key
        self.val = val
        self.keys_ty = TList(key)
        self.name = 'Dict_%s_%s' % (key.name, val.name)

    def sort(self):
        if self.name not in _SORT_CACHE:
            dt = z3.Datatype(self.name)
            dt.declare('mk_' + self.name,
                       ('keys_' + self.name, self.keys_ty.sort()),
                       ('has_' + self.name, z3.ArraySort(self.key.sort(), z3.BoolSort())),
                       ('val_' + self.name, z3.ArraySort(self.key.sort(), self.val.sort())),
                       ('idx_' + self.name, z3.ArraySort(self.key.sort(), z3.IntSort())))
            _SORT_CACHE[self.name] = dt.create()
        return _SORT_CACHE[self.name]

    def mk(self, keys, has, val, idx):
        return self.sort().constructor(0)(keys, has, val, idx)

    def keys(self, t):
        return self.sort().accessor(0, 0)(t)

    def has(self, t):
        return self.sort().accessor(0, 1)(t)

    def valmap(self, t):
        return self.sort().accessor(0, 2)(t)

    def idx(self, t):
        return self.sort().accessor(0, 3)(t)


class TDefaultDict(TDict):
    """collections.defaultdict(list): reading a missing key inserts and returns an empty list."""

    def __init__(self, key, val):
        TDict.__init__(self, key, val)
        self.name = 'D' + self.name


class TOpt(Ty):
    """T or None."""

    def __init__(self, inner):
        self.inner = inner
        self.name = 'Opt_' + inner.name

    def sort(self):
        if self.name not in _SORT_CACHE:
            dt = z3.Datatype(self.name)
            dt.declare('none_' + self.name)
            dt.declare('some_' + self.name, ('get_' + self.name, self.inner.sort()))
            _SORT_CACHE[self.name] = dt.create()
        return _SORT_CACHE[self.name]

    def none(self):
        return self.sort().constructor(0)()

    def some(self, t):
        return self.sort().constructor(1)(t)

    def is_none(self, t):
        return self.sort().recognizer(0)(t)

    def get(self, t):
        return self.sort().accessor(1, 0)(t)


class TGraph(Ty):
    """Reference (graph id) into the graph heap; `schema` names the attribute layout (DESIGN §2.3)."""

    def __init__(self, schema='mol'):
        self.schema = schema
        self.name = 'Graph_' + schema

    def sort(self):
        return z3.IntSort()


class TRecord(Ty):
    """Object with fixed fields (`self`); lives in the environment, not in SMT."""

    def __init__(self, name, fields):
        self.name = 'Rec_' + name
        self.fields = dict(fields)

    def sort(self):
        raise TypeError('records have no single sort')


class Val:
    __slots__ = ('ty', 't', 'loc', 'fields', 'finite_cond', 'np')

    def __init__(self, ty, t, loc=None, fields=None):
        self.ty = ty
        self.t = t
        self.loc = loc          # write-back location for in-place mutation (heap path / variable)
        self.finite_cond = None  # numpy division: condition under which all entries are finite numbers
        self.np = False          # a numpy array (comparisons are elementwise)
        self.fields = fields    # TRecord: dict name -> Val

    def __repr__(self):
        return 'Val(%s, %s)' % (self.ty, self.t)


_COUNTER = [0]


def fresh_name(base):
    _COUNTER[0] += 1
    return '%s!%d' % (base, _COUNTER[0])


def fresh(ty, base='v'):
    if isinstance(ty, TRecord):
        return Val(ty, None, fields={k: fresh(t, base + '.' + k) for k, t in ty.fields.items()})
    if ty is TNone:
        return Val(TNone, z3.BoolVal(True))
    return Val(ty, z3.Const(fresh_name(base), ty.sort()))


def const(ty, name):
    if isinstance(ty, TRecord):
        return Val(ty, None, fields={k: const(t, name + '.' + k) for k, t in ty.fields.items()})
    if ty is TNone:
        return Val(TNone, z3.BoolVal(True))
    return Val(ty, z3.Const(name, ty.sort()))


def lift(x):
    """Concrete Python constant -> Val."""
    if isinstance(x, Val):
        return x
    if isinstance(x, bool):
        return Val(TBool, z3.BoolVal(x))
    if isinstance(x, int):
        return Val(TInt, z3.IntVal(x))
    if isinstance(x, float):
        return Val(TReal, z3.RealVal(repr(x)))
    if isinstance(x, str):
        return Val(TStr, z3.StringVal(x))
    if x is None:
        return Val(TNone, z3.BoolVal(True))
    raise TypeError('cannot lift %r' % (x,))


def parse_type(s, records=None):
    """'List[Str]' / 'Dict[Int,List[Str]]' / 'Opt[Int]' / 'Tuple[Int,Int]' / 'Graph:mol' -> Ty."""
    if isinstance(s, Ty):
        return s
    s = s.strip()
    prim = {'Int': TInt, 'Real': TReal, 'Bool': TBool, 'Str': TStr, 'None': TNone}
    if s in prim:
        return prim[s]
    if s.startswith('Graph'):
        return TGraph(s.split(':', 1)[1] if ':' in s else 'mol')
    if s.startswith('Opaque:'):
        return TOpaque(s.split(':', 1)[1])
    if records and s in records:
        return records[s]
    head, rest = s.split('[', 1)
    assert rest.endswith(']'), s
    inner = rest[:-1]
    parts, depth, cur = [], 0, ''
    for ch in inner:
        if ch == '[':
            depth += 1
        elif ch == ']':
            depth -= 1
        if ch == ',' and depth == 0:
            parts.append(cur)
            cur = ''
        else:
            cur += ch
    parts.append(cur)
    args = [parse_type(p, records) for p in parts]
    if head == 'List':
        return TList(args[0])
    if head == 'Dict':
        return TDict(args[0], args[1])
    if head == 'DefaultDict':
        return TDefaultDict(args[0], args[1])
    if head == 'Opt':
        return TOpt(args[0])
    if head == 'Tuple':
        return TTuple(*args)
    raise ValueError('unknown type ' + s)
