"""python -m pyvc.cli <target> ... : verify the contracts of the targets against $REPO, print a JSON summary."""
import json
import os
import sys
from . import run


def main():
    repo = os.environ.get('REPO', '/repo')
    rep = run.verify_targets(sys.argv[1:], repo, tier=os.environ.get('VERIF_TIER', 'quick'), property_id='cli')
    out = {k: rep[k] for k in ('obligations', 'discharged', 'undecided', 'out_of_subset', 'stale', 'cross_check')}
    out['refuted'] = [{'obligation': r['obligation'], 'kind': r['kind'], 'replay_confirmed': r.get('replay_confirmed'),
                       'input': r.get('input')} for r in rep['refuted']]
    out['undecided_list'] = rep['undecided_list']
    print(json.dumps(out, default=str))


if __name__ == '__main__':
    main()
