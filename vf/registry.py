"""Single source of truth for MANIFEST.json (tools/mkmanifest.py)."""
ALL_IDS = ['C%02d' % i for i in range(1, 21)]

HOOKS = {
    'guard': 'CGSMILES_VERIF',
    'enable': 'not used: contracts are sidecar files under /verif/contracts, monitors are installed by patching module '
              'attributes in the checking process; no source change in /repo is guarded by the flag',
    'baseline_off_cmd': 'cd /repo && /venv/bin/python -m pytest -ra -q -p no:cacheprovider --timeout=900',
    'source_commits': [],
    'add_only': True,
}

ENGINES = [
    {'name': 'pyvc', 'path': 'pyvc/', 'serves_properties': [],
     'kind_free_text': 'own deductive verifier for a Python subset: re-reads the real functions from /repo with ast on every run, '
                       'symbolic execution against sidecar contracts, one SMT query per obligation, z3 then cvc5'},
    {'name': 'bounded', 'path': 'vf/bounded.py', 'serves_properties': [],
     'kind_free_text': 'run-time evaluation of the property-level contracts on the real code over enumerated inputs '
                       '(bounded stand-in, never counted as proved)'},
]

NOTES = ('Technique family: contract-based deductive verification of the real code (see DESIGN.md). '
         'Exit codes: 0 held, 1 VIOLATION, 2 nothing evaluated, 3 checker fault.')


def _hyb(pid, proved, bounded, note):
    return {'claimed': True, 'level': 'other',
            'text': ('Hybrid. DEDUCTIVE (unbounded, partial correctness): ' + proved + ' are discharged by pyvc on the real functions, '
                     're-read from /repo on every run. BOUNDED STAND-IN (never counted as proved): ' + bounded +
                     ' The deductive tier decides the clauses it names for ALL inputs; the property-level relational statement is only '
                     'explored up to the stated bounds, so the overall claim is not a proof.'),
            'note': note, 'technique': 'contract-based deductive verification (own AST->VC generator pyvc, z3 then cvc5) + run-time contract checking over enumerated inputs (bounded)'}


def _bnd(pid, bounded, why, note):
    return {'claimed': True, 'level': 'exploration',
            'text': ('BOUNDED STAND-IN only (labelled bounded, nothing counted as proved): ' + bounded + ' ' + why),
            'note': note, 'technique': 'run-time contract (property-level postcondition) on the real code over enumerated inputs (bounded stand-in; deductive tier not applicable to the functions involved, see DESIGN.md)'}


_T_EXT = 'Trusted: pysmiles, networkx (and RDKit where used) behave as documented; python floats as reals in the deductive tier; oracles listed in the evidence assumptions.'

PROPS = {
    'C01': _hyb('C01', 'the descriptor compatibility relation (compatible), the first-match search (match_bonding_descriptors: membership, compatibility, '
                'LookupError iff no compatible pair) and every clause at bond creation (edges_from_bonding_descrpt: bonded atoms belong to the two ends, '
                'descriptor consumed exactly once, order = annotated digit or 1.5 between aromatic atoms)',
                'resolve(cut molecule) == original molecule == resolve(uncut), checked against an independent valence table, over all small molecules '
                '(<= 4 heavy atoms quick) x all connected partitions x renderings x base-graph orders.', _T_EXT),
    'C02': _hyb('C02', 'merge_graphs (consecutive new keys in template order, every template attribute copied, membership index, template edges and their '
                'attributes mapped, old part and template untouched), resolve_disconnected_molecule (every real coarse node gets a fresh fragment graph whose '
                'nodes are fine nodes recording exactly that coarse node; virtual nodes untouched) and rebuild_h_atoms (existing atoms keep membership/name/weight, '
                'completed hydrogens carry those of a bonded atom; pysmiles assumed), annotate_fragments (atom n is in the fragment graph of coarse node k <=> k is in n\'s membership list; '
                'fragment bonds are exactly the fine bonds between two atoms of the fragment; itertools.combinations assumed) and MoleculeResolver.resolve at coarse levels '
                '(the same bi-implication as a postcondition of the returned pair of graphs)',
                'membership bi-implication, covering and template-copy isomorphism as run-time postconditions of every resolve() on generated base graphs x fragment sets, all levels.', _T_EXT),
    'C03': _hyb('C03', 'ALL clauses at the point of bond creation: compatible == spec for both conventions; match_bonding_descriptors returns a compatible pair '
                'present on the two graphs and raises LookupError iff none exists; edges_from_bonding_descrpt adds at most `order` bonds per base-graph edge (none for 0), '
                'only between nodes of the two fragment graphs, records the pair, consumes exactly the first instance of each used descriptor, sets order = digit / 1.5',
                'the same five clauses re-checked on the RETURNED graph of resolve() (after squashing, hydrogen rebuild, renumbering) on ambiguous and unambiguous inputs, legacy on/off.', _T_EXT),
    'C04': _hyb('C04', '_find_next_character (least position >= start holding one of the characters, else len)',
                'read_cgsmiles(render(ast)) == denote(ast) exhaustively to 4 node tokens (quick) / 6 (thorough) and randomly to 14; the 280-line scanner itself is outside pyvc.', _T_EXT),
    'C05': _hyb('C05', '_find_next_character', 'read(shorthand) isomorphic to denote(expand(ast)) and identical numbering for multiplied nodes over G1 with multipliers at every position.', _T_EXT),
    'C06': _hyb('C06', 'MoleculeResolver.resolve at every intermediate (coarse) level: the level counter advances by one, the returned coarse graph IS the previous '
                'fine graph (same object, same nodes and bonds), its atom names have become the fragment names, and every step is called in a state that '
                'satisfies its contract (resolve_disconnected_molecule -> edges_from_bonding_descrpt -> squash_atoms -> annotate_fragments, each discharged separately; '
                'sort_nodes_by_attr assumed), and the membership bi-implication between the two returned graphs; read_fragment_strings reads the k-th string k-th and as atomistic exactly '
                'when it is the last one and the flag is set; MoleculeResolver.__init__ establishes the state resolve() starts from (level 0 of len(fragment_dicts)); the final all-atom level is outside this contract (pysmiles hydrogen completion)',
                'stepwise resolution == flattened two-level string; resolve / resolve_iter / resolve_all agree; each coarse graph is the previous fine graph.', _T_EXT),
    'C07': _bnd('C07', 'read_cgsmiles(write_cgsmiles_graph(G)) isomorphic to G over all connected graphs <= 4 nodes x all bond-order assignments 0-4 (quick), <= 6 nodes sampled (thorough), relabelings.',
                'The DFS writer and the scanner are serialiser/scanner code outside the accepted subset (DESIGN §6 C07).', _T_EXT),
    'C08': _hyb('C08', 'format_bonding == fold of (order symbol + [descriptor]) over the list, every descriptor in order',
                'read_fragments(write_cgsmiles_fragments(F)) isomorphic to F incl. descriptors; complete strings written from resolver inputs resolve to the same molecule.', _T_EXT),
    'C09': _hyb('C09', 'rebuild_h_atoms: atoms that were there keep membership, fragment name and weight (explicitly written hydrogens keep their own '
                'annotations, zero included) and every completed hydrogen carries those of an atom it is bonded to; elements of existing atoms are kept, added atoms are hydrogens '
                '(pysmiles valence filling assumed); compute_mass completes hydrogens on a COPY (the sampler\'s templates are not modified)',
                'independent valence table + hydrogen attribute inheritance on every all-atom resolver output of the C01/C10 generators plus polymers, grafts, charged and aromatic units, '
                'weight-0 annotations, hydrogen-first orders, written [nH] hydrogens, and all-atom sampler outputs built without a mass table.', _T_EXT),
    'C10': _hyb('C10', 'squash_atoms: every merge is between two atoms that still exist and differ (networkx.contracted_nodes assumed), no atom that was not merged '
                'away is lost, the merged atom\'s membership is the concatenation of both; and the compatibility relation (compatible)',
                'resolve(overlapping) isomorphic to resolve(disjoint), one atom fewer per shared pair, membership of merged atoms, over G2 with any subset of cuts shared.', _T_EXT),
    'C11': _hyb('C11', 'edges_from_bonding_descrpt (range(order): no bond for order 0; the fragment graph of a virtual node is never read), '
                'resolve_disconnected_molecule (membership = coarse node key whatever precedes it; virtual node skipped iff all its edges are order 0, else SyntaxError) and merge_graphs',
                'inserting virtual nodes / zero-order edges anywhere leaves the fine molecule and every other coarse node mapping unchanged; fragment-less node with order >= 1 raises.', _T_EXT),
    'C12': _hyb('C12', 'merge_graphs frame: the template graph is never modified, copied attributes are deep copies (frame obligations), keys consecutive; '
                'set_atom_names_atomistic: within every coarse node the i-th atom is named element + i, only atomname is written',
                'canonical dump equality across calls, fragment-definition permutations, the three constructors, shared dictionaries and PYTHONHASHSEED values (subprocesses).', _T_EXT),
    'C13': _bnd('C13', 'strip_bonding_descriptors(text) == expectation known by construction over G3 (<= 2 insertions quick, <= 3 thorough).',
                'The tokenizer is a character state machine over a peekable iterator, outside the accepted subset.', _T_EXT),
    'C14': _bnd('C14', 'positional == keyword forms, defaults, numeric spellings, free keys; annotations reach coarse and fine graphs on every copy.',
                'Binding is done by inspect.Signature.bind (trusted).', _T_EXT),
    'C15': _bnd('C15', 'chirality label stays on its atom; cis/trans independent of cuts and fragment order; stored references form existing paths.',
                'E/Z interpretation happens inside pysmiles (trusted).', _T_EXT),
    'C16': _hyb('C16', 'merge_graphs (copy isomorphic to the template, membership), find_complementary_bonding_descriptor (every result eligible and complementary, '
                'OSError iff none), find_open_bonds (node listed under a descriptor iff its list holds it) and add_fragment (exactly one copy and one bond per growth step, '
                'between an existing atom and the copy of the drawn partner atom, complementary descriptors of equal order, bond order = that order, partner descriptor consumed; '
                'with atomistic templates every atom of the grown molecule stays fit for hydrogen completion, so sample() calls rebuild_h_atoms inside its contract) and '
                'MoleculeSampler.__init__ (partner table sound and complete with respect to the templates\' descriptor lists)',
                'connected tree of copies, complementary descriptors of equal order, no descriptor twice, canonical numbering, valence, over G4 sampler configurations.', _T_EXT),
    'C17': _hyb('C17', '_set_bond_order_defaults (list and dict variants), _select_bonding_operator (result is offered; with a non-empty table its reactivity is > 0; trusted random.choices), '
                'add_fragment (a descriptor with reactivity 0 is never the growth site, a partner with conditional reactivity 0 is never chosen, terminal rule both ways) and '
                'sample, coarse and all-atom mode (ghost sum of added fragment masses reaches the target and was below it before the last addition; every callee is called '
                'inside its contract), MoleculeSampler.__init__ (the partner table lists under each descriptor exactly the template atoms that carry it; with atomistic '
                'fragments and no mass table every fragment gets a mass; OSError iff no masses and not all-atom) and compute_mass (works on a copy: the template is not modified; '
                'positive for a non-empty fragment; pysmiles.PTE assumed)',
                'target-weight rule, derived masses vs an independent table, zero reactivities never chosen, terminal rule, same seed => same molecule in and across processes.', _T_EXT),
    'C18': _hyb('C18', 'forward_map_molecule: bead position == sum(w_i x_i) / sum(w_i) over exactly the bead\'s own atoms (reals, per coordinate)',
                'RDKit round trip with and without conformer, bonded atoms at bonding distance after embedding for all relabelings, weighted mean and translation equivariance.', _T_EXT),
    'C19': _bnd('C19', 'one finite 2D position per node, bonded nodes distinct, mean bond length == default_bond, over graph families x bond lengths x relabelings x seeds.',
                'Layout optimisers are networkx floating-point code (trusted).', _T_EXT),
    'C20': _hyb('C20', 'resolve_disconnected_molecule raises SyntaxError IF AND ONLY IF some fragment-less node takes part in a bond of order != 0 '
                '(and never builds a fragment graph for such a node)',
                'fault injection at every position of generated strings (dangling ring, duplicate edge, missing fragment, a=b=c, too many positionals, '
                'non-numeric charge/weight): documented exception type raised, no graph returned; the scanners are outside the accepted subset.', _T_EXT),
}
