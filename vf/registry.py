"""Single source of truth for MANIFEST.json (tools/mkmanifest.py)."""
ALL_IDS = ['C%02d' % i for i in range(1, 21)]

HOOKS = {
    'guard': 'CGSMILES_VERIF',
    'enable': 'not used: contracts are sidecar files under /verif/contracts, monitors are installed by patching module '
              'attributes in the checking process; no source change in /repo is guarded by the flag',
    'baseline_off_cmd': 'cd /repo && /venv/bin/python -m pytest -ra -q -p no:cacheprovider --timeout=900',
    'source_commits': [],
    'add_only': True,
}

ENGINES = [
    {'name': 'pyvc', 'path': 'pyvc/', 'serves_properties': [],
     'kind_free_text': 'own deductive verifier for a Python subset: re-reads the real functions from /repo with ast on every run, '
                       'symbolic execution against sidecar contracts, one SMT query per obligation, z3 then cvc5'},
    {'name': 'bounded', 'path': 'vf/bounded.py', 'serves_properties': [],
     'kind_free_text': 'run-time evaluation of the property-level contracts on the real code over enumerated inputs '
                       '(bounded stand-in, never counted as proved)'},
]

NOTES = ('Technique family: contract-based deductive verification of the real code (see DESIGN.md). '
         'Exit codes: 0 held, 1 VIOLATION, 2 nothing evaluated, 3 checker fault.')

PROPS = {}
