"""
./check <id> [--tier quick|thorough] [--replay FILE] [--no-proof] [--no-bounded]

Exit codes: 0 property held on everything explored (known findings are printed, not alarms)
            1 VIOLATION (line printed on stdout)
            2 nothing could be evaluated for the property
            3 checker fault (never a verdict)
"""
import argparse
import importlib
import json
import os
import sys
import time
import traceback

HERE = os.path.dirname(os.path.dirname(os.path.abspath(__file__)))
REPO = os.environ.get('REPO', '/repo')


def _load_findings():
    path = os.path.join(HERE, 'known_findings.json')
    if not os.path.exists(path):
        return {'findings': [], 'fixed': []}
    with open(path) as fh:
        return json.load(fh)


def _write_replay(pid, n, record):
    d = os.path.join(HERE, 'replays', pid)
    os.makedirs(d, exist_ok=True)
    path = os.path.join(d, '%s_%03d.json' % (record.get('tier_kind', 'case'), n))
    with open(path, 'w') as fh:
        json.dump(record, fh, indent=1, default=str)
    return os.path.relpath(path, HERE)


def do_replay(mod, path):
    with open(path) as fh:
        rec = json.load(fh)
    if rec.get('tier_kind') == 'obligation':
        from pyvc import run as pyrun
        return pyrun.replay_record(rec, REPO)
    init = getattr(mod, 'init_worker', None)
    if init:
        init()
    oc = mod.check_case(rec['case'])
    print(json.dumps({'case': rec['case'], 'failures': oc['failures']}, indent=1, default=str))
    if oc['failures']:
        print('VIOLATION property=%s replay=%s' % (mod.ID, path))
        return 1
    print('replay: no failure on the current tree')
    return 0


def main(argv=None):
    ap = argparse.ArgumentParser()
    ap.add_argument('pid')
    ap.add_argument('--tier', default=os.environ.get('VERIF_TIER', 'quick'), choices=['quick', 'thorough'])
    ap.add_argument('--replay')
    ap.add_argument('--no-proof', action='store_true')
    ap.add_argument('--no-bounded', action='store_true')
    ap.add_argument('--budget', type=float, default=None, help='seconds for the bounded tier')
    args = ap.parse_args(argv)
    t0 = time.time()
    try:
        seed = int(os.environ.get('VERIF_SEED', '0') or 0)
    except ValueError:
        seed = 0
    pid = args.pid
    try:
        mod = importlib.import_module('props.' + pid)
    except ModuleNotFoundError:
        print('checker fault: no check for property %s' % pid, file=sys.stderr)
        return 3
    if args.replay:
        return do_replay(mod, args.replay)

    from vf import evidence as ev
    findings = _load_findings()
    my_findings = [f for f in findings.get('findings', []) if f['property'] == pid]
    violations = []          # (replay_path, suffix)
    known_lines = []
    replay_n = [0]
    E = ev.Evidence(pid, args.tier, seed, getattr(mod, 'LEVEL', 'exploration'))
    import shutil
    shutil.rmtree(os.path.join(HERE, 'replays', pid), ignore_errors=True)      # replay files belong to one run

    # ---------------------------------------------------------------- deductive tier (P)
    # started first and run in its own process so that it overlaps with the bounded tier
    proof = None
    proof_future = None
    executor = None
    targets = list(getattr(mod, 'P_TARGETS', []))
    if targets and not args.no_proof:
        import concurrent.futures
        from pyvc import run as pyrun
        executor = concurrent.futures.ProcessPoolExecutor(1)
        proof_future = executor.submit(pyrun.verify_targets, targets, REPO, args.tier, pid)
        # the deductive tier runs first and alone (16 solver processes); the bounded tier follows
        concurrent.futures.wait([proof_future])

    def collect_proof():
        proof = proof_future.result()
        executor.shutdown()
        E.add_proof(proof)
        for ref in proof['refuted']:
            replay_n[0] += 1
            rec = dict(ref)
            rec['tier_kind'] = 'obligation'
            rec['property'] = pid
            path = _write_replay(pid, replay_n[0], rec)
            suffix = '' if ref.get('replay_confirmed') else ' no-failing-input-found'
            violations.append((path, suffix))
        return proof

    # ---------------------------------------------------------------- bounded tier (B)
    bstats = None
    if hasattr(mod, 'cases') and not args.no_bounded:
        from vf import bounded
        budget = args.budget or getattr(mod, 'BUDGET', {}).get(args.tier, 35.0 if args.tier == 'quick' else 300.0)
        bstats = bounded.run_bounded('props.' + pid, args.tier, seed, budget,
                                     max_cases=getattr(mod, 'MAX_CASES', {}).get(args.tier))
        E.add_bounded(bstats, mod, args.tier)
        if bstats['harness_errors']:
            sys.stderr.write('harness errors (not verdicts): %d, first:\n%s\n' %
                             (len(bstats['harness_errors']), bstats['harness_errors'][0]))
        # known findings: an entry suppresses its signature only while its own example still fails
        active = {}
        if my_findings:
            init = getattr(mod, 'init_worker', None)
            if init:
                init()
        for f in my_findings:
            try:
                oc = mod.check_case(f['example'])
                sigs = [x['signature'] for x in oc['failures']]
            except Exception:
                sigs = []
                sys.stderr.write('known finding %s: example could not be evaluated\n%s' % (f.get('key'), traceback.format_exc()))
            if f['signature'] in sigs:
                active[f['signature']] = f
                known_lines.append('KNOWN-FINDING: property=%s %s' % (pid, f['what']))
        by_sig = {}
        for fl in bstats['failures']:
            by_sig.setdefault(fl['signature'], []).append(fl)
        E.data['coverage']['failure_signatures'] = {k: len(v) for k, v in by_sig.items()}
        for sig, fls in sorted(by_sig.items()):
            if sig in active:
                continue
            fls.sort(key=lambda x: len(json.dumps(x['case'], default=str)))
            replay_n[0] += 1
            rec = dict(fls[0])
            rec['tier_kind'] = 'case'
            rec['property'] = pid
            rec['same_signature_count'] = len(fls)
            rec['replay_cmd'] = './check %s --replay <this file>' % pid
            path = _write_replay(pid, replay_n[0], rec)
            violations.append((path, ''))
        E.data['coverage']['known_findings_active'] = sorted(active)

    if proof_future is not None:
        proof = collect_proof()
        if proof['obligations'] == 0:
            if proof.get('out_of_subset') or proof.get('stale'):
                # the functions under contract have left the accepted subset / no longer match their contracts (a changed tree):
                # the deductive tier is undecided for this run, the bounded tier (incl. the run-time contracts) decides
                sys.stderr.write('deductive tier undecided for %s: %s\n' % (pid, '; '.join((proof.get('out_of_subset') or []) + (proof.get('stale') or []))[:400]))
            else:
                print('checker fault: zero obligations generated for %s' % pid, file=sys.stderr)
                E.write(time.time() - t0, violations=0)
                return 3
    for line in known_lines:
        print(line)
    for path, suffix in violations:
        print('VIOLATION property=%s replay=%s%s' % (pid, path, suffix))
    wall = time.time() - t0
    nothing = (proof is None or proof['obligations'] == 0) and (bstats is None or bstats['evaluations'] == 0)
    E.write(wall, violations=len(violations))
    summary = []
    if proof is not None:
        summary.append('proof: %d/%d obligations discharged (%d refuted, %d undecided) over %d functions' % (
            proof['discharged'], proof['obligations'], len(proof['refuted']), proof['undecided'], len(proof['functions'])))
    if bstats is not None:
        summary.append('bounded: %d cases (%d distinct non-trivial), %s, %d failing' % (
            bstats['evaluations'], bstats['distinct_nontrivial'],
            'space exhausted' if bstats['exhausted'] else 'budget reached', len(bstats['failures'])))
    print('%s %s tier: %s [%.1fs]' % (pid, args.tier, '; '.join(summary), wall))
    if violations:
        return 1
    if bstats is not None and bstats['harness_errors'] and bstats['evaluations'] == 0:
        return 3
    if nothing:
        print('nothing could be evaluated for %s' % pid, file=sys.stderr)
        return 2
    return 0


if __name__ == '__main__':
    try:
        rc = main()
    except SystemExit:
        raise
    except Exception:
        traceback.print_exc()
        rc = 3
    sys.exit(rc)
