"""
Bounded stand-in tier: runs the property-level (run-time) contracts of a property module over an
enumerated / sampled input space, in parallel, under a wall-clock budget.

A property module (props/Cxx.py) provides

    ID                      property id
    def cases(tier, seed)   generator of JSON-serialisable case objects (exhaustive part first,
                            seeded random part afterwards)
    def check_case(case)    -> Outcome   (executes the REAL code from $REPO on that case)
    BOUNDS                  {tier: {...}} the stated bounds, copied into the evidence
    RULE                    how cases are generated and what makes one non-trivial

Nothing here is ever counted as proved.
"""
import json
import multiprocessing as mp
import os
import time
import traceback
import hashlib
import sys
import signal


class Failure(dict):
    """A violated run-time contract clause on one concrete input."""

    def __init__(self, api, kind, detail, signature, **extra):
        super().__init__(api=api, kind=kind, detail=str(detail)[:2000], signature=signature, **extra)


class Outcome(dict):
    def __init__(self, key, nontrivial, failures=(), skipped=False, note=None):
        super().__init__(key=key, nontrivial=bool(nontrivial), failures=list(failures),
                         skipped=bool(skipped), note=note)


def _key_hash(key):
    return hashlib.sha1(key.encode('utf8', 'replace')).hexdigest()[:16]


_MOD = None
_MONITOR = None


def _init_worker(modname):
    global _MOD
    import importlib
    signal.signal(signal.SIGINT, signal.SIG_IGN)
    _MOD = importlib.import_module(modname)
    init = getattr(_MOD, 'init_worker', None)
    if init:
        init()
    # run-time enforcement of the sidecar contracts on the real functions while the property module drives the API
    global _MONITOR
    _MONITOR = None
    if os.environ.get('VERIF_MONITORS', '1') != '0' and getattr(_MOD, 'MONITORS', True):
        try:
            from pyvc import monitor
            monitor.install_all(getattr(_MOD, 'MONITOR_ONLY', None))
            _MONITOR = monitor
        except Exception:
            sys.stderr.write('monitor installation failed (contracts are not enforced at run time):\n' + traceback.format_exc())


def _run_chunk(chunk):
    out = []
    for case in chunk:
        t0 = time.time()
        try:
            oc = _MOD.check_case(case)
        except Exception:  # a crash of the harness itself: never a verdict
            oc = {'key': json.dumps(case, sort_keys=True, default=str)[:200], 'nontrivial': False,
                  'failures': [], 'skipped': True, 'harness_error': traceback.format_exc()[-1500:]}
        if _MONITOR is not None:
            pre_miss = 0
            for v in _MONITOR.drain():
                if v['kind'] == 'requires':
                    pre_miss += 1
                    oc.setdefault('pre_miss_detail', []).append('%s: %s (%s)' % (v['target'], v['clause'][:120], v['detail'][:80]))
                    continue
                sig = 'contract/%s/%s/%s' % (v['target'], v['kind'], hashlib.sha1(v['clause'].encode()).hexdigest()[:8])
                oc['failures'] = list(oc['failures']) + [Failure(v['target'], 'contract-' + v['kind'],
                                                                 '%s -- %s' % (v['clause'], v['detail']), sig)]
            oc['pre_miss'] = pre_miss
            oc['monitored'] = dict(_MONITOR.STATS)
        oc['case'] = case
        oc['secs'] = time.time() - t0
        out.append(oc)
    return out


def run_bounded(modname, tier, seed, budget_s, nproc=None, chunk=None, max_cases=None):
    """Run cases of module `modname` until exhausted or until the budget is used up."""
    import importlib
    mod = importlib.import_module(modname)
    nproc = nproc or min(16, os.cpu_count() or 4)
    chunk = chunk or getattr(mod, 'CHUNK', 20)
    t_start = time.time()
    deadline = t_start + budget_s
    stats = {'evaluations': 0, 'distinct': set(), 'failures': [], 'samples': [], 'skipped': 0,
             'harness_errors': [], 'exhausted': False, 'truncated': False, 'slowest': 0.0, 'pre_miss': 0, 'monitored': {},
             'distinct_all': set()}
    gen = mod.cases(tier, seed)

    def chunks():
        buf = []
        n = 0
        for c in gen:
            buf.append(c)
            n += 1
            if len(buf) >= chunk:
                yield buf
                buf = []
            if max_cases and n >= max_cases:
                break
        if buf:
            yield buf

    ctx = mp.get_context('fork')
    pool = ctx.Pool(nproc, initializer=_init_worker, initargs=(modname,))
    try:
        pending = []
        it = chunks()
        done_gen = False
        while True:
            # keep the pool fed, but do not enumerate beyond the deadline
            while not done_gen and len(pending) < nproc * 3 and time.time() < deadline:
                try:
                    pending.append(pool.apply_async(_run_chunk, (next(it),)))
                except StopIteration:
                    done_gen = True
            if not pending:
                break
            res = pending.pop(0)
            try:
                ocs = res.get(timeout=max(30.0, deadline - time.time() + 120.0))
            except mp.TimeoutError:
                stats['truncated'] = True
                stats['harness_errors'].append('worker chunk timed out')
                break
            for oc in ocs:
                if oc.get('harness_error'):
                    stats['harness_errors'].append(oc['harness_error'])
                if oc.get('skipped'):
                    stats['skipped'] += 1
                    continue
                stats['evaluations'] += 1
                stats['pre_miss'] += oc.get('pre_miss', 0)
                for d in oc.get('pre_miss_detail', [])[:3]:
                    if len(stats.setdefault('pre_miss_detail', [])) < 5 and d not in stats['pre_miss_detail']:
                        stats['pre_miss_detail'].append(d)
                for k, v in (oc.get('monitored') or {}).items():
                    stats['monitored'][k] = max(stats['monitored'].get(k, 0), v)
                stats['slowest'] = max(stats['slowest'], oc.get('secs', 0.0))
                h = _key_hash(oc['key'])
                stats['distinct_all'].add(h)
                if oc['nontrivial']:
                    stats['distinct'].add(h)
                if len(stats['samples']) < 6 and (oc['nontrivial'] or stats['evaluations'] < 3):
                    stats['samples'].append(oc['case'])
                for f in oc['failures']:
                    f = dict(f)
                    f['case'] = oc['case']
                    stats['failures'].append(f)
            if time.time() >= deadline and not done_gen:
                stats['truncated'] = True
                done_gen = True   # stop feeding; drain what is pending
        stats['exhausted'] = done_gen and not stats['truncated']
    finally:
        pool.terminate()
        pool.join()
    stats['wall_s'] = time.time() - t_start
    stats['distinct_nontrivial'] = len(stats.pop('distinct'))
    stats['distinct_cases'] = len(stats.pop('distinct_all'))
    return stats
