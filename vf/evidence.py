"""Evidence file writer: everything in here is measured by the run that writes it."""
import json
import os

HERE = os.path.dirname(os.path.dirname(os.path.abspath(__file__)))


class Evidence:
    def __init__(self, pid, tier, seed, level):
        self.pid = pid
        self.data = {'property_id': pid, 'tier': tier, 'seed': seed, 'level': level,
                     'coverage': {}, 'assumptions': [], 'wall_s': 0.0, 'violations': 0}
        self.explain = []

    def add_proof(self, proof):
        c = self.data['coverage']
        c['obligations'] = proof['obligations']
        c['discharged'] = proof['discharged']
        c['undecided'] = proof['undecided']
        c['undecided_list'] = proof.get('undecided_list', [])[:40]
        c['refuted'] = len(proof['refuted'])
        c['checker_cmd'] = proof['checker_cmd']
        c['trusted_base'] = proof['trusted_base']
        c['functions_under_contract'] = proof['functions']
        c['backends'] = proof['backends']
        c['solver_s'] = round(proof['solver_s'], 3)
        c['proof_wall_s'] = round(proof['wall_s'], 3)
        c['obligation_samples'] = proof['samples']
        c['cover_checks'] = proof.get('covers', {})
        c['out_of_subset'] = proof.get('out_of_subset', [])
        c['stale_contracts'] = proof.get('stale', [])
        c['dropped_statements'] = proof.get('dropped', [])
        c['cross_check'] = proof.get('cross_check', {})
        self.data['assumptions'] += proof['assumptions']
        self.explain.append(
            'DEDUCTIVE TIER (unbounded, partial correctness): %d of %d obligations discharged '
            '(%d refuted, %d undecided) on %d real functions re-read from the working tree on this run: %s.'
            % (proof['discharged'], proof['obligations'], len(proof['refuted']), proof['undecided'],
               len(proof['functions']), ', '.join(f['target'] for f in proof['functions'])))

    def add_bounded(self, st, mod, tier):
        c = self.data['coverage']
        c['evaluations'] = st['evaluations']
        c['distinct_nontrivial'] = st['distinct_nontrivial']
        c['distinct_cases'] = st['distinct_cases']
        c['rule'] = getattr(mod, 'RULE', '')
        c['samples'] = st['samples'] or []
        c['bounds'] = getattr(mod, 'BOUNDS', {}).get(tier, {})
        c['exhaustive'] = bool(st['exhausted'] and getattr(mod, 'EXHAUSTIVE', {}).get(tier, False))
        c['space_exhausted_within_budget'] = bool(st['exhausted'])
        c['bounded_wall_s'] = round(st['wall_s'], 2)
        c['bounded_failures'] = len(st['failures'])
        c['skipped_cases'] = st['skipped']
        c['harness_errors'] = len(st['harness_errors'])
        c['slowest_case_s'] = round(st['slowest'], 3)
        c['runtime_contract_checks'] = {'functions_monitored': sorted(st.get('monitored', {})),
                                        'max_calls_seen_by_one_worker': st.get('monitored', {}),
                                        'calls_outside_a_contract_precondition': st.get('pre_miss', 0),
                                        'precondition_misses': st.get('pre_miss_detail', [])}
        self.data['assumptions'] += list(getattr(mod, 'ASSUMPTIONS', []))
        self.explain.append(
            'BOUNDED STAND-IN (run-time contracts on the real code, never counted as proved): %d cases, '
            '%d distinct non-trivial, bounds %s, %s.' % (
                st['evaluations'], st['distinct_nontrivial'], json.dumps(c['bounds'], sort_keys=True),
                'enumeration completed' if st['exhausted'] else 'stopped at the time budget'))

    def write(self, wall, violations):
        self.data['wall_s'] = round(wall, 2)
        self.data['violations'] = violations
        c = self.data['coverage']
        c['explanation'] = ' '.join(self.explain) or 'nothing ran'
        if 'samples' not in c or not c['samples']:
            c['samples'] = c.get('obligation_samples', [])[:5]
        seen = set()
        uniq = []
        for a in self.data['assumptions']:
            if a not in seen:
                uniq.append(a)
                seen.add(a)
        self.data['assumptions'] = uniq
        d = os.path.join(HERE, 'evidence')
        os.makedirs(d, exist_ok=True)
        tmp = os.path.join(d, self.pid + '.json.tmp')
        with open(tmp, 'w') as fh:
            json.dump(self.data, fh, indent=1, default=str)
        os.replace(tmp, os.path.join(d, self.pid + '.json'))
