"""Helpers shared by the property modules (graph comparison, canonical dumps, safe calls)."""
import json
import traceback
import networkx as nx
from networkx.algorithms import isomorphism as iso


def graph_to_case(g, node_attrs=('fragname',), edge_attrs=('order',)):
    """JSON-serialisable description of a graph with integer or string node keys."""
    return {'nodes': [[n] + [g.nodes[n].get(a) for a in node_attrs] for n in g.nodes],
            'edges': [[u, v] + [g.edges[u, v].get(a) for a in edge_attrs] for u, v in g.edges],
            'node_attrs': list(node_attrs), 'edge_attrs': list(edge_attrs)}


def graph_from_case(c):
    g = nx.Graph()
    for row in c['nodes']:
        g.add_node(_hashable(row[0]), **{a: _hashable_val(v) for a, v in zip(c['node_attrs'], row[1:]) if v is not None})
    for row in c['edges']:
        g.add_edge(_hashable(row[0]), _hashable(row[1]), **{a: v for a, v in zip(c['edge_attrs'], row[2:]) if v is not None})
    return g


def _hashable(x):
    return tuple(x) if isinstance(x, list) else x


def _hashable_val(v):
    return v


def same_graph(g, h, node_attrs=('fragname',), edge_attrs=('order',), node_default=None, num_tol=1e-9):
    """Isomorphism that respects the listed node and edge attributes."""
    if g.number_of_nodes() != h.number_of_nodes() or g.number_of_edges() != h.number_of_edges():
        return False

    def eqv(a, b):
        if isinstance(a, (int, float)) and isinstance(b, (int, float)) and not isinstance(a, bool) and not isinstance(b, bool):
            return abs(a - b) <= num_tol
        return a == b

    def nm(a, b):
        return all(eqv(a.get(k, node_default), b.get(k, node_default)) for k in node_attrs)

    def em(a, b):
        return all(eqv(a.get(k), b.get(k)) for k in edge_attrs)
    return nx.is_isomorphic(g, h, node_match=nm, edge_match=em)


def identical_graph(g, h, node_attrs=('fragname',), edge_attrs=('order',)):
    """Same node keys, attributes and edges (no relabelling allowed)."""
    if set(g.nodes) != set(h.nodes):
        return False
    for n in g.nodes:
        for a in node_attrs:
            if g.nodes[n].get(a) != h.nodes[n].get(a):
                return False
    eg = {frozenset(e) for e in g.edges}
    eh = {frozenset(e) for e in h.edges}
    if eg != eh:
        return False
    for u, v in g.edges:
        for a in edge_attrs:
            if g.edges[u, v].get(a) != h.edges[u, v].get(a):
                return False
    return True


def canonical_dump(g, drop=('graph',)):
    """Deterministic text dump of a graph incl. all JSON-able attributes (for equality across runs)."""
    def norm(v):
        if isinstance(v, nx.Graph):
            return canonical_dump(v, drop)
        if isinstance(v, dict):
            return {str(k): norm(x) for k, x in sorted(v.items(), key=lambda kv: str(kv[0]))}
        if isinstance(v, (list, tuple)):
            return [norm(x) for x in v]
        if isinstance(v, float):
            return round(v, 9)
        if isinstance(v, (int, str, bool)) or v is None:
            return v
        try:
            import numpy as np
            if isinstance(v, np.ndarray):
                return [round(float(x), 9) for x in v.ravel()]
            if isinstance(v, np.generic):
                return norm(v.item())
        except Exception:
            pass
        return repr(v)
    nodes = [[repr(n), norm({k: v for k, v in g.nodes[n].items() if k not in drop})] for n in g.nodes]
    edges = sorted([sorted([repr(u), repr(v)]) + [norm(dict(d))] for u, v, d in g.edges(data=True)], key=lambda r: json.dumps(r, sort_keys=True))
    return json.dumps({'nodes': nodes, 'edges': edges}, sort_keys=True)


def call(fn, *a, **k):
    """Run fn; return ('ok', value) or ('exc', ExceptionTypeName, message, short traceback)."""
    try:
        return ('ok', fn(*a, **k))
    except Exception as e:  # noqa
        return ('exc', type(e).__name__, str(e)[:300], traceback.format_exc()[-800:])
