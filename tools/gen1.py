"""Developer tool: generate (not solve) the obligations of one contract, with a watchdog traceback."""
import sys, time, faulthandler, os
sys.path.insert(0, '/verif')
faulthandler.dump_traceback_later(int(os.environ.get('WATCHDOG', '60')), exit=True)
from pyvc import run, contract as C, models, speclib
run.load_contracts()
con = C.lookup(sys.argv[1], sys.argv[2] if len(sys.argv) > 2 else None)
t0 = time.time()
inf = run.verify_contract(con, os.environ.get('REPO', '/repo'), models, speclib.SPEC_FUNCS)
print(inf['status'], inf['detail'], len(inf['obligations']), round(time.time() - t0, 2))
