#!/usr/bin/env python3
"""
Rebuild memo/smt_memo.json.gz (the committed seed of solver verdicts) from the keys used by the latest runs.

    rm -f .cache/used_keys.log; PYVC_LOG_USED=1 tools/runall.sh; python3 tools/mkmemo.py

Only decided verdicts (sat/unsat) of queries that the current tree actually generates are kept.  The key is the SHA-256 of
the exact SMT-LIB text (+ solver versions and budgets): a verdict can only ever be reused for a byte-identical query.
"""
import gzip
import json
import os

ROOT = os.path.dirname(os.path.dirname(os.path.abspath(__file__)))
used = set(l.strip() for l in open(os.path.join(ROOT, '.cache', 'used_keys.log')) if l.strip())
try:
    with gzip.open(os.path.join(ROOT, 'memo', 'smt_memo.json.gz'), 'rt') as fh:
        old = json.load(fh)
except Exception:
    old = {}
out = {}
missing = 0
for k in sorted(used):
    path = os.path.join(ROOT, '.cache', 'smt', k[:2], k + '.json')
    if os.path.exists(path):
        d = json.load(open(path))
        out[k] = [d['verdict'], d['backend'].replace('+memo', ''), round(d.get('secs', 0.0), 2)]
    elif k in old:
        out[k] = old[k]
    else:
        missing += 1
os.makedirs(os.path.join(ROOT, 'memo'), exist_ok=True)
with gzip.GzipFile(os.path.join(ROOT, 'memo', 'smt_memo.json.gz'), 'w', mtime=0) as gz:
    gz.write(json.dumps(out, sort_keys=True).encode())
print('%d verdicts kept (%d used keys had no decided verdict), solver time represented: %.0f s' % (
    len(out), missing, sum(v[2] for v in out.values())))
