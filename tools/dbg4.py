import os, sys, time
sys.path.insert(0, '/verif')
import z3
from pyvc import run, contract as C, models, speclib
run.load_contracts()
tgt, pat = sys.argv[1], sys.argv[2]
con = C.lookup(tgt)
inf = run.verify_contract(con, os.environ.get('REPO','/repo'), models, speclib.SPEC_FUNCS)
def chk(hyps, goal, to=10000, **opts):
    s = z3.Solver(); s.set('timeout', to)
    for k, v in opts.items(): s.set(k, v)
    for h in hyps: s.add(h)
    s.add(z3.Not(goal)); t0=time.time(); r=s.check(); return str(r), round(time.time()-t0,2)
for ob in inf['obligations']:
    if pat in ob.name:
        full = list(getattr(ob,'axioms',[])) + ob.hyps
        rel = ob.relevant_hyps()
        print(ob.name, len(full), 'hyps;', len(rel), 'relevant')
        print(' filtered:', chk(rel, ob.goal))
        if '-h' in sys.argv:
            for h in rel: print('  H', str(h)[:260].replace('\n',' '))
            print('GOAL', str(ob.goal)[:3000])
