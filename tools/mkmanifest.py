#!/usr/bin/env python3
"""Regenerate MANIFEST.json from vf/registry.py (single source of truth) and validate it."""
import json, os, sys
HERE = os.path.dirname(os.path.dirname(os.path.abspath(__file__)))
sys.path.insert(0, HERE)
from vf import registry

def main():
    checks, na = [], []
    for pid in registry.ALL_IDS:
        e = registry.PROPS.get(pid)
        if e is None or not e.get('claimed'):
            na.append({'property_id': pid, 'reason': (e or {}).get('reason', 'check not built yet')})
            continue
        checks.append({
            'property_id': pid,
            'quick_cmd': './check %s --tier quick' % pid,
            'thorough_cmd': './check %s --tier thorough' % pid,
            'evidence_file': 'evidence/%s.json' % pid,
            'replay_cmd_template': './check %s --replay {path}' % pid,
            'engine': e.get('engine', 'pyvc+bounded'),
            'level_claimed': {'category': e['level'], 'text': e['text'], 'design_ref': e.get('design_ref', 'DESIGN.md §6 ' + pid)},
            'level_note': e['note'],
            'technique': e['technique'],
        })
    man = {
        'version': 1,
        'setup_cmd': './setup.sh',
        'hooks': registry.HOOKS,
        'engines': registry.ENGINES,
        'checks': checks,
        'notes': registry.NOTES,
        'not_applicable': na,
    }
    with open(os.path.join(HERE, 'MANIFEST.json'), 'w') as fh:
        json.dump(man, fh, indent=1)
    try:
        import jsonschema
        jsonschema.validate(man, json.load(open('/root/.vp/MANIFEST.schema.json')))
        print('MANIFEST.json valid: %d checks, %d not applicable' % (len(checks), len(na)))
    except ImportError:
        print('MANIFEST.json written (jsonschema not importable here)')

if __name__ == '__main__':
    main()
