#!/bin/sh
# tools/runall.sh [extra args] -- runs the quick tier of every property module present, prints one summary line each
cd "$(dirname "$0")/.."
for f in props/C*.py; do
  id=$(basename "$f" .py)
  out=$(./check "$id" --tier "${TIER:-quick}" "$@" 2>/tmp/runall_$id.err); rc=$?
  echo "$id rc=$rc $(echo "$out" | grep -c '^VIOLATION') violations, $(echo "$out" | grep -c '^KNOWN-FINDING') known | $(echo "$out" | tail -1)"
done
