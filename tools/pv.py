#!/usr/bin/env python3
"""Developer tool: verify the contracts of the given targets and print every obligation with its verdict."""
import os, sys, time
HERE = os.path.dirname(os.path.dirname(os.path.abspath(__file__)))
sys.path.insert(0, HERE)
from pyvc import run, contract as C, models, speclib

def main():
    repo = os.environ.get('REPO', '/repo')
    run.load_contracts()
    targets = sys.argv[1:] or sorted({t for t, v in C.REGISTRY})
    for tgt in targets:
        for con in C.variants(tgt):
            if con.trusted:
                continue
            t0 = time.time()
            inf = run.verify_contract(con, repo, models, speclib.SPEC_FUNCS)
            print('== %s#%s: %s %s (%d obligations, gen %.2fs)' % (con.target, con.variant, inf['status'], inf['detail'], len(inf['obligations']), time.time() - t0))
            only = os.environ.get('PV_ONLY')
            obs = [o for o in inf['obligations'] if not only or any(x in o.name for x in only.split(','))]
            res = run.discharge(obs)
            for ob, r in zip(obs, res):
                ok = (r['verdict'] == 'unsat') if ob.expect == 'unsat' else (r['verdict'] == 'sat')
                print('  %-4s %-7s %-5s %6.2fs  %s  L%d %s %s' % ('ok' if ok else 'FAIL', r['verdict'], r['backend'], r['secs'], ob.name, ob.line, ob.detail[:70], r['reason'][:60]))
if __name__ == '__main__':
    main()
