#!/usr/bin/env python3
"""
Confirm and evaluate seeded changes produced by independent sub-agents.

    tools/seedtest.py /tmp/mut_C04/m1 [...]      (each directory holds patch.diff, demo.py, meta.json)

For each: (1) demo exits 0 on the clean tree, (2) the patch applies to /repo, (3) the repository's 150 tests still pass,
(4) the demo exits 1, (5) the property's own quick check is run (and optionally every other quick check: ALL=1);
then /repo is restored (git checkout -- .).  Confirmed changes are copied to /verif/seeded/<id>_<name>/.
"""
import json
import os
import shutil
import subprocess
import sys
import time

HERE = os.path.dirname(os.path.dirname(os.path.abspath(__file__)))
REPO = '/repo'


def sh(cmd, **kw):
    return subprocess.run(cmd, shell=True, capture_output=True, text=True, **kw)


def demo(path):
    env = dict(os.environ, PBR_VERSION='0.0.1', PYTHONPATH=REPO)
    r = subprocess.run(['/venv/bin/python', path], cwd='/tmp', env=env, capture_output=True, text=True, timeout=600)
    return r.returncode, (r.stdout + r.stderr)[-600:]


def main():
    out = []
    for d in sys.argv[1:]:
        d = d.rstrip('/')
        meta = json.load(open(os.path.join(d, 'meta.json')))
        pid = meta['property']
        name = os.path.basename(d) if os.path.basename(d).startswith(pid + '_') else '%s_%s' % (pid, os.path.basename(d))
        rec = {'name': name, 'property': pid, 'summary': meta.get('summary'), 'needs': meta.get('needs')}
        assert sh('git -C %s status --short' % REPO).stdout.strip() == '', '/repo is not clean'
        rec['demo_clean_exit'], _ = demo(os.path.join(d, 'demo.py'))
        chk = sh('git -C %s apply --check %s' % (REPO, os.path.join(d, 'patch.diff')))
        if chk.returncode != 0:
            rec['status'] = 'patch-does-not-apply'
            rec['detail'] = chk.stderr[-300:]
            out.append(rec)
            print(json.dumps(rec))
            continue
        try:
            sh('git -C %s apply %s' % (REPO, os.path.join(d, 'patch.diff')))
            t = sh('cd %s && /venv/bin/python -m pytest -q -p no:cacheprovider --timeout=900 2>&1 | tail -1' % REPO)
            rec['tests'] = t.stdout.strip()
            rec['demo_patched_exit'], rec['demo_output'] = demo(os.path.join(d, 'demo.py'))
            checks = [pid]
            if os.environ.get('ALL'):
                checks += ['C%02d' % i for i in range(1, 21) if 'C%02d' % i != pid]
            rec['checks'] = {}
            for c in checks:
                t0 = time.time()
                r = sh('cd %s && ./check %s --tier quick' % (HERE, c))
                viol = [l for l in r.stdout.splitlines() if l.startswith('VIOLATION')]
                rec['checks'][c] = {'rc': r.returncode, 'violations': viol[:4], 'summary': r.stdout.strip().splitlines()[-1][:300] if r.stdout.strip() else r.stderr[-300:],
                                    'secs': round(time.time() - t0, 1)}
                if c == pid and viol:
                    # keep the first replay file's signature for the record
                    try:
                        path = viol[0].split('replay=')[1].split()[0]
                        rp = json.load(open(os.path.join(HERE, path)))
                        rec['first_replay'] = {k: rp.get(k) for k in ('signature', 'obligation', 'kind', 'detail', 'api')}
                    except Exception:
                        pass
        finally:
            sh('git -C %s checkout -- .' % REPO)
        ok = '150 passed' in rec.get('tests', '') and rec['demo_clean_exit'] == 0 and rec.get('demo_patched_exit') == 1
        rec['confirmed'] = ok
        rec['detected_by_own_check'] = rec['checks'][pid]['rc'] == 1
        rec['status'] = 'ok'
        out.append(rec)
        print(json.dumps({k: rec[k] for k in ('name', 'confirmed', 'detected_by_own_check')}), rec['checks'][pid]['summary'][:160], flush=True)
        if ok:
            dst = os.path.join(HERE, 'seeded', name)
            os.makedirs(dst, exist_ok=True)
            if os.path.realpath(d) != os.path.realpath(dst):
                shutil.copy(os.path.join(d, 'patch.diff'), dst)
                shutil.copy(os.path.join(d, 'demo.py'), dst)
            meta2 = {k: v for k, v in meta.items() if k not in ('check_results', 'first_replay', 'ran')}
            if 'first_pass' not in meta2 and 'check_results' in meta:
                meta2['first_pass'] = {'check_results': meta['check_results']}
            meta2.update({'breaks': pid, 'needs_to_manifest': meta.get('needs'),
                          'ran': ['git -C /repo apply patch.diff', 'pytest (repository suite): ' + rec['tests'],
                                  'demo.py on clean tree: exit %d; with the change: exit %d' % (rec['demo_clean_exit'], rec['demo_patched_exit']),
                                  './check %s --tier quick: exit %d' % (pid, rec['checks'][pid]['rc']), 'git -C /repo checkout -- .'],
                          'check_results': rec['checks'], 'first_replay': rec.get('first_replay')})
            json.dump(meta2, open(os.path.join(dst, 'meta.json'), 'w'), indent=1)
    json.dump(out, open('/tmp/seedtest_%d.json' % int(time.time()), 'w'), indent=1)


if __name__ == '__main__':
    main()
