import os, sys, time
sys.path.insert(0, '/verif')
import z3
from pyvc import run, contract as C, models, speclib
run.load_contracts()
tgt, pat = sys.argv[1], sys.argv[2]
con = C.lookup(tgt)
inf = run.verify_contract(con, os.environ.get('REPO','/repo'), models, speclib.SPEC_FUNCS)
for ob in inf['obligations']:
    if pat in ob.name:
        print(ob.name, len(ob.hyps), 'hyps')
        if '-v' in sys.argv:
            for h in ob.hyps: print('  H:', str(h)[:600])
            print('  G:', str(ob.goal)[:1500])
        for opts in ({'smt.mbqi': False}, {}, {'smt.mbqi': False, 'smt.ematching': True, 'smt.qi.eager_threshold': 100}):
            s = z3.Solver()
            s.set('timeout', 10000)
            for k, v in opts.items(): s.set(k, v)
            for h in ob.hyps: s.add(h)
            s.add(z3.Not(ob.goal))
            t0 = time.time(); r = s.check(); print('   ', opts, r, round(time.time()-t0,2), s.reason_unknown() if r == z3.unknown else '')
