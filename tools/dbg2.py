import os, sys, time
sys.path.insert(0, '/verif')
import z3
from pyvc import run, contract as C, models, speclib
run.load_contracts()
tgt, pat = sys.argv[1], sys.argv[2]
con = C.lookup(tgt)
inf = run.verify_contract(con, os.environ.get('REPO','/repo'), models, speclib.SPEC_FUNCS)
def chk(hyps, goal, to=5000, **opts):
    s = z3.Solver(); s.set('timeout', to)
    for k, v in opts.items(): s.set(k, v)
    for h in hyps: s.add(h)
    s.add(z3.Not(goal)); t0=time.time(); r=s.check(); return str(r), round(time.time()-t0,2)
for ob in inf['obligations']:
    if pat in ob.name:
        hy = list(getattr(ob,'axioms',[])) + ob.hyps
        print(ob.name, len(hy), 'hyps', chk(hy, ob.goal))
        # greedy minimisation: which hyps are needed / which make it slow
        for i, h in enumerate(hy):
            r = chk(hy[:i] + hy[i+1:], ob.goal, 3000)
            if r[0] != 'unknown' or '-a' in sys.argv:
                print('  without', i, r, str(h)[:150].replace('\n',' '))
        if '-l' in sys.argv:
            for i, h in enumerate(hy): print(i, str(h)[:300].replace('\n',' '))
            print('GOAL', ob.goal)
            # try subsets: prefix growth
            for n in range(1, len(hy)+1):
                r = chk(hy[:n], ob.goal, 3000)
                print('prefix', n, r)
