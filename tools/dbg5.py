import os, sys, time
sys.path.insert(0, '/verif')
import z3
from pyvc import run, contract as C, models, speclib
run.load_contracts()
tgt, pat = sys.argv[1], sys.argv[2]
con = C.lookup(tgt)
inf = run.verify_contract(con, os.environ.get('REPO','/repo'), models, speclib.SPEC_FUNCS)
def chk(hyps, goal, rl=3000000):
    s = z3.Solver(); s.set('rlimit', rl)
    for h in hyps: s.add(h)
    s.add(z3.Not(goal)); t0=time.time(); r=s.check(); return str(r), round(time.time()-t0,2)
for ob in inf['obligations']:
    if pat in ob.name:
        rel = ob.relevant_hyps()
        print(ob.name, len(ob.hyps), len(rel), chk(rel, ob.goal))
        print('GOAL', str(ob.goal)[:1500])
        for h in rel[-int(sys.argv[3]) if len(sys.argv) > 3 else -12:]:
            print(' H', str(h)[:700].replace('\n', ' '))
