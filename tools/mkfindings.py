#!/usr/bin/env python3
"""One-off helper used while building: seed known_findings.json from the replay files of the current run.
(known_findings.json is a committed file; checks never write it.)"""
import glob, json, os, sys
HERE = os.path.dirname(os.path.dirname(os.path.abspath(__file__)))
WHAT = {
 'read_cgsmiles/multiplied-branch-containing-branch': 'read_cgsmiles: |n on a branch whose content itself contains a branch expands to the wrong graph or raises KeyError (e.g. {[#A]([#B]([#C]))|2})',
 'read_cgsmiles/ring-inside-multiplied-branch': 'read_cgsmiles: a ring bond closed inside a multiplied branch is not repeated in the copies (e.g. {[#A]1([#B][#C]1)|2})',
 'read_cgsmiles/multiplied-branch-after-closed-branch-inside-branch': 'read_cgsmiles: |n on an inner branch that follows an already closed inner branch replays a stale recipe (e.g. {[#X]([#C]([#D])[#E]([#F])|2)})',
 'resolve/shared-aromatic-atom-stale-hcount/resolver-exception': "resolve: a '!'-shared aromatic atom keeps the kept copy's hydrogen count, so the ring cannot be kekulized (SyntaxError) depending on which fragment is listed first (e.g. {[#A][#B]}.{#A=Cc[!a],#B=c1[!a]ccccc1})",
 'resolve/shared-aromatic-atom-stale-hcount/wrong-molecule': "resolve: a '!'-shared aromatic atom keeps the kept copy's hydrogen count and the ring comes back de-aromatised",
 'resolve/coarse-fragment-node/q-keyword-not-charge': "coarse-fragment nodes are parsed with the atomistic annotation dialect: [#X;q=1] keeps q as the string '1' and charge stays 0.0",
 'resolve/ez-depends-on-fragment-order/cut-at-double-bond': 'cis/trans of a double bond cut between two fragments flips with the order of the fragments in the base graph (node-index comparison inside pysmiles)',
 'resolve/ez-depends-on-fragment-order/cut-at-marked-single-bond': 'cis/trans flips with the fragment order when the cut is at the marked single bond next to the double bond (same cause)',
}
out = {'findings': [], 'fixed': []}
for path in sorted(glob.glob(os.path.join(HERE, 'replays', 'C*', 'case_*.json'))):
    r = json.load(open(path))
    sig = r['signature']
    if sig not in WHAT:
        print('unlisted signature', r['property'], sig, file=sys.stderr)
        continue
    out['findings'].append({'property': r['property'], 'key': '%s-%d' % (r['property'], len(out['findings']) + 1), 'kind': 'finding',
                            'signature': sig, 'what': WHAT[sig], 'example': r['case'], 'detail_when_recorded': r['detail'][:400]})
json.dump(out, open(os.path.join(HERE, 'known_findings.seed.json'), 'w'), indent=1)
print(len(out['findings']), 'entries')
