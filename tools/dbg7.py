import os, sys, time
sys.path.insert(0, '/verif')
import z3
from pyvc import run, contract as C, models, speclib
run.load_contracts()
con = C.lookup(sys.argv[1])
inf = run.verify_contract(con, os.environ.get('REPO', '/repo'), models, speclib.SPEC_FUNCS)
ob = [o for o in inf['obligations'] if sys.argv[2] in o.name][0]
hy = list(ob.axioms) + ob.hyps
print(len(hy), 'hyps')
for h in hy[-int(sys.argv[3]):]:
    print(' H', str(h)[:900].replace('\n', ' '))
print('GOAL', str(ob.goal)[:2500])
