import os, sys, time
sys.path.insert(0, '/verif')
import z3
from pyvc import run, contract as C, models, speclib
run.load_contracts()
con = C.lookup('cgsmiles.resolve:MoleculeResolver.edges_from_bonding_descrpt')
inf = run.verify_contract(con, '/repo', models, speclib.SPEC_FUNCS)
def chk(hyps, goal, rl=2000000):
    s = z3.Solver(); s.set('rlimit', rl)
    for h in hyps: s.add(h)
    s.add(z3.Not(goal)); t0=time.time(); r=s.check(); return str(r), round(time.time()-t0,2)
ob = [o for o in inf['obligations'] if 'no-exc#12' in o.name][0]
hy = list(ob.axioms) + ob.hyps
print(len(hy))
# drop quantified requires one at a time? first: which hyps are quantifier-free
qf = [h for h in hy if not any(z3.is_quantifier(x) for x in [h])]
print('qf only', len(qf), chk(qf, ob.goal))
# try removing the hyps added last (the Store definitions?) 
for n in (5, 10, 20, 30, 40):
    print('last', n, 'quantified dropped', chk([h for i, h in enumerate(hy) if not (z3.is_quantifier(h) and i >= len(hy) - n)], ob.goal))
# drop all foralls that mention 'kind_ok'
print('no kind_ok', chk([h for h in hy if 'kind_ok' not in str(h)[:20000]], ob.goal))
