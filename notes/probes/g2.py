# throwaway: cut/render/resolve differential for C01
import random, sys, collections, itertools
import networkx as nx, pysmiles
from cgsmiles import MoleculeResolver
import logging; logging.getLogger('pysmiles').setLevel(logging.CRITICAL)
SYM = {1:'',2:'=',3:'#',1.5:''}
def atom_str(d):
    el = d['element']; ch = d.get('charge',0); aro = d.get('aromatic', False)
    name = el.lower() if aro else el
    if ch == 0 and el in ('B','C','N','O','P','S','F','Cl','Br','I'):
        return name
    c = '' if ch==0 else ('+' if ch>0 else '-')*1 + (str(abs(ch)) if abs(ch)>1 else '')
    return '[%s%s]'%(name, c)
def render(frag, mol, desc, rng):
    # frag: set of nodes; desc: node -> list of descriptor strings (already with order symbol)
    g = mol.subgraph(frag)
    start = rng.choice(sorted(frag))
    # spanning tree dfs with random neighbor order
    visited = []; parent = {start: None}; children = collections.defaultdict(list)
    def dfs(u):
        visited.append(u)
        nb = list(g[u]); rng.shuffle(nb)
        for v in nb:
            if v not in parent:
                parent[v]=u; children[u].append(v); dfs(v)
    dfs(start)
    tree = {frozenset((v,parent[v])) for v in parent if parent[v] is not None}
    rings = [tuple(e) for e in g.edges if frozenset(e) not in tree]
    order_idx = {n:i for i,n in enumerate(visited)}
    ring_of = collections.defaultdict(list)
    digits = list(range(1,10)); rng.shuffle(digits)
    for k,(a,b) in enumerate(rings):
        if order_idx[a] > order_idx[b]: a,b = b,a
        mk = str(digits[k]) if k < 9 else '%%%d'%(k+10)
        ring_of[a].append((mk, g.edges[a,b]['order'], True, b)); ring_of[b].append((mk, g.edges[a,b]['order'], False, a))
    def bsym(u,v):
        o = g.edges[u,v]['order']
        if o == 1.5: return ''
        if o == 1: return '-' if (g.nodes[u].get('aromatic') and g.nodes[v].get('aromatic')) else ''
        return SYM[o]
    def emit(u):
        s = atom_str(mol.nodes[u])
        rd = ''
        for mk,o,opening,other in ring_of[u]:
            rd += (bsym(u,other) if opening else '') + mk
        ds = ''.join(desc.get(u, []))
        s += (ds + rd) if rng.random()<0.5 else (rd + ds)
        ch = children[u]
        for v in ch[:-1]:
            s += '(' + bsym(u,v) + emit(v) + ')'
        if ch:
            v = ch[-1]; s += bsym(u,v) + emit(v)
        return s
    return emit(start)
def build(mol, cuts, rng, kind='$'):
    h = mol.copy(); h.remove_edges_from(cuts)
    comps = [set(c) for c in nx.connected_components(h)]
    rng.shuffle(comps)
    owner = {n:i for i,c in enumerate(comps) for n in c}
    desc = collections.defaultdict(list); between = collections.Counter()
    for k,(u,v) in enumerate(cuts):
        o = mol.edges[u,v]['order']; lab = 'x%d'%k
        pre = SYM[o]
        if kind=='$' or (kind=='mix' and k%2==0): du, dv = '[$%s]'%lab, '[$%s]'%lab
        else: du, dv = '[>%s]'%lab, '[<%s]'%lab
        desc[u].append(pre+du); desc[v].append(pre+dv)
        between[frozenset((owner[u],owner[v]))]+=1
    if any(len(k)==1 for k in between): return None   # cut inside one fragment (ring cut keeps it connected) -> self edge; skip
    if any(c>4 for c in between.values()): return None
    frs = ['#F%d=%s'%(i, render(c, mol, desc, rng)) for i,c in enumerate(comps)]
    # base graph string via spanning tree of fragment graph
    fg = nx.Graph(); fg.add_nodes_from(range(len(comps)))
    for k,c in between.items():
        a,b = tuple(k); fg.add_edge(a,b,order=c)
    for n in fg.nodes: fg.nodes[n]['fragname']='F%d'%n
    from cgsmiles.write_cgsmiles import write_cgsmiles_graph
    OS = {1:'',2:'=',3:'#',4:'$'}
    # own base writer (the repo writer is under test elsewhere): DFS with ring bonds
    start = rng.choice(list(fg.nodes)); seen=[]; par={start:None}; ch=collections.defaultdict(list)
    def dfs(u):
        seen.append(u)
        nb=list(fg[u]); rng.shuffle(nb)
        for v in nb:
            if v not in par: par[v]=u; ch[u].append(v); dfs(v)
    dfs(start)
    tree={frozenset((v,par[v])) for v in par if par[v] is not None}
    rg=[tuple(e) for e in fg.edges if frozenset(e) not in tree]; oi={n:i for i,n in enumerate(seen)}
    ro=collections.defaultdict(list)
    for k,(a,b) in enumerate(rg):
        if oi[a]>oi[b]: a,b=b,a
        ro[a].append(OS[fg.edges[a,b]['order']]+str(k+1)); ro[b].append(str(k+1))
    def em(u):
        s='[#F%d]'%u + ''.join(ro[u])
        c=ch[u]
        for v in c[:-1]: s += OS[fg.edges[u,v]['order']]+'('+em(v)+')'
        if c: v=c[-1]; s += OS[fg.edges[u,v]['order']]+em(v)
        return s
    return '{'+em(start)+'}.{'+','.join(frs)+'}'
def nm(a,b): return a.get('element')==b.get('element') and a.get('charge',0)==b.get('charge',0)
def em_(a,b): return a.get('order')==b.get('order')
SM = ['CCO','CC(=O)O','C=CC#N','c1ccccc1','Cc1ccccc1','c1ccncc1','C1CC1','C1CCCCC1O','CC(C)(C)C','C[N+](C)(C)C','CC(=O)[O-]','OS(=O)(=O)O','CP(=O)(O)O','ClC(Br)F','C=C','C#C','O=C=O','N#N','C1=CC=CC=C1','c1ccc2ccccc2c1','CC=CC','C[NH3+]','[O-][N+](=O)C','c1ccsc1'.replace('c1ccsc1','C1=CSC=C1'),'OC1CC1C=O','CSSC','c1ccccc1c1ccccc1','C1CC2CC1C2']
rng = random.Random(int(sys.argv[1]) if len(sys.argv)>1 else 0)
stats = collections.Counter(); bad = []
for smi in SM:
    mol = pysmiles.read_smiles(smi, explicit_hydrogen=False, reinterpret_aromatic=True)
    for n in mol.nodes: mol.nodes[n].pop('hcount', None)
    try:
        ref = MoleculeResolver.from_string('{[#M]}.{#M=%s}'%smi).resolve()[1]
    except Exception as e:
        print('REF FAIL', smi, e); continue
    edges = list(mol.edges)
    for trial in range(60):
        k = rng.randint(0, min(4, len(edges)))
        cuts = rng.sample(edges, k)
        s = build(mol, cuts, rng, kind=rng.choice(['$','dir','mix']))
        if s is None: stats['skip']+=1; continue
        try:
            got = MoleculeResolver.from_string(s).resolve()[1]
            ok = nx.is_isomorphic(ref, got, node_match=nm, edge_match=em_)
            stats['ok' if ok else 'DIFF']+=1
            if not ok: bad.append((smi, s, len(ref), len(got)))
        except Exception as e:
            stats['EXC '+type(e).__name__]+=1; bad.append((smi, s, type(e).__name__, str(e)[:60]))
print(stats)
for b in bad[:40]: print(b)
