# throwaway: C05 metamorphic enumerator (one multiplier per string)
import itertools, collections, sys, copy, re
import networkx as nx
from cgsmiles import read_cgsmiles
SY = ['', '=', '.']
# tree: item = dict(name, branches=[(presym, chain)], nxt, mult=None|n, bmult=None|(sym,n,aft))  ; bmult applies if exactly one branch
def render(chain, long):
    s=''
    for i,it in enumerate(chain):
        last = i==len(chain)-1
        unit = '[#%s]'%it['name']
        brs = ''.join(p+'('+render(sub,long)+')' for p,sub in it['branches'])
        if it.get('mult'):
            n = it['mult']
            s += (unit*n if long else unit+'|%d'%n) + brs
            s += '' if last else it['nxt']
        elif it.get('bmult'):
            sym,n,aft = it['bmult']
            if long:
                s += (unit+brs+sym)*(n-1) + unit+brs + ('' if last else aft)
            else:
                s += unit+brs+sym+'|%d'%n + ('' if last else aft)
        else:
            s += unit+brs + ('' if last else it['nxt'])
    return s
def chains(n, depth):
    if n==0: return
    for b in range(0,n):
        rest=n-1-b
        for brs in bsets(b, depth):
            for nxt in (SY if rest else ['']):
                tails = chains(rest, depth) if rest else [[]]
                for tail in tails:
                    yield [dict(name='A', branches=brs, nxt=nxt)] + tail
def bsets(b, depth):
    if b==0: yield []; return
    if depth==0: return
    # at most one branch per anchor here (multi-branch anchors excluded as ambiguous for |n)
    for presym in SY:
        for sub in chains(b, depth-1):
            for s in sub: pass
            yield [(presym, [dict(it, name='B') for it in sub])]
def items(chain, acc):
    for it in chain:
        acc.append(it)
        for p,sub in it['branches']: items(sub, acc)
    return acc
nm = lambda a,b: a['fragname']==b['fragname']; em = lambda a,b: a['order']==b['order']
stats=collections.Counter(); ex={}
N=int(sys.argv[1]) if len(sys.argv)>1 else 4
tot=0
for n in range(1,N+1):
    for chain in chains(n,2):
        its = items(chain, [])
        for idx in range(len(its)):
            variants=[]
            if not its[idx]['branches']:
                variants=[('mult',2),('mult',3)]
            else:
                variants=[('bmult',(sym,2,aft)) for sym in SY for aft in SY] + [('bmult',('',3,''))]
            for key,val in variants:
                c = copy.deepcopy(chain); ci = items(c, [])
                ci[idx][key]=val
                if key=='bmult' and val[2] and ci[idx] is not None:
                    pass
                sh, lo = '{'+render(c,False)+'}', '{'+render(c,True)+'}'
                tot+=1
                feat=[]
                if key=='mult':
                    feat.append('node')
                    if re.search(r'\|\d[=.]', sh): feat.append('sym-after-|n')
                    if sh.startswith('{[#A]|'): feat.append('first')
                else:
                    feat.append('branch')
                    if '))' in sh: feat.append('))')
                    if re.search(r'\)[=.]?\|\d[=.]?\)', sh): feat.append('inner')
                try:
                    gl = read_cgsmiles(lo)
                except Exception as e:
                    k=('LONG-EXC', type(e).__name__, tuple(feat)); stats[k]+=1; ex.setdefault(k,(sh,lo)); continue
                try:
                    gs = read_cgsmiles(sh)
                    ok = nx.is_isomorphic(gs, gl, node_match=nm, edge_match=em)
                    k=('ok' if ok else 'DIFF', tuple(feat))
                except Exception as e:
                    k=('EXC', type(e).__name__, tuple(feat))
                stats[k]+=1; ex.setdefault(k,(sh,lo))
print('total',tot)
for k,v in sorted(stats.items(), key=str): print(k, v, ex[k])
