import z3, time
from z3 import *
# compatible(left,right,legacy) hand-encoded paths; spec: 
left, right = Strings('left right'); legacy = Bool('legacy')
def ch(s,i): return SubString(s,i,1)
pre = And(Length(left)>=1, Length(right)>=1)
def tail(s): return SubString(s,1,Length(s)-1)
l0, r0 = ch(left,0), ch(right,0)
# code semantics
in_gt = Or(l0==StringVal('>'), l0==StringVal(' '), l0==StringVal('<'))   # left[0] in '> <' : substring test! '> <' contains also '> ', ' <', '> <' but left[0] is 1 char
lt_gt = Or(And(l0==StringVal('<'), r0==StringVal('>')), And(l0==StringVal('>'), r0==StringVal('<')))
code_legacy = If(And(left==right, Not(in_gt)), True, If(lt_gt, tail(left)==tail(right), False))
code_new = If(Or(And(l0==r0, l0==StringVal('$')), And(l0==r0, l0==StringVal('!'))), True, If(lt_gt, True, False))
code = If(legacy, code_legacy, code_new)
# spec (C03): kinds $,!,>,<; '$' with '$' and '!' with '!' of identical label(+order), '>' with '<' identical label, equal order.
kind_ok = lambda s: Or(*[ch(s,0)==StringVal(k) for k in '$!<>'])
spec_legacy = Or(And(Or(l0==StringVal('$'), l0==StringVal('!')), left==right), And(lt_gt, tail(left)==tail(right)))
spec_new = Or(And(l0==StringVal('$'), r0==StringVal('$')), And(l0==StringVal('!'), r0==StringVal('!')), lt_gt)
spec = If(legacy, spec_legacy, spec_new)
for name, extra in [('with kind precondition', And(kind_ok(left), kind_ok(right))), ('no kind pre', BoolVal(True))]:
    s = Solver(); s.set('timeout', 10000)
    s.add(pre, extra, code != spec)
    t=time.time(); r = s.check(); print(name, r, round(time.time()-t,3))
    if r==sat: print(s.model())
