import networkx as nx, cgsmiles, numpy as np, copy, random
from cgsmiles import MoleculeResolver, read_cgsmiles, MoleculeSampler
from cgsmiles.read_fragments import read_fragments
def canon(g):
    return repr([(n, sorted((k, repr(v)) for k,v in d.items() if k not in ('graph','contraction'))) for n,d in sorted(g.nodes(data=True))]) + repr(sorted((min(u,v),max(u,v),sorted((k,repr(v)) for k,v in d.items())) for u,v,d in g.edges(data=True)))
print("== C12")
s = "{[#A][#B][#A]}.{#A=[$]CC[$],#B=[$]C(=O)O[$]}"
s2 = "{[#A][#B][#A]}.{#B=[$]C(=O)O[$],#A=[$]CC[$]}"
c1,f1 = MoleculeResolver.from_string(s).resolve(); c2,f2 = MoleculeResolver.from_string(s2).resolve()
print('perm fragment defs same:', canon(f1)==canon(f2))
# from_fragment_dicts, library unmodified
lib = [read_fragments("{#A=[$]CC[$],#B=[$]C(=O)O[$]}")]
before = {k: canon(v) for k,v in lib[0].items()}
c3,f3 = MoleculeResolver.from_fragment_dicts("{[#A][#B][#A]}", lib).resolve()
after = {k: canon(v) for k,v in lib[0].items()}
print('from_fragment_dicts same:', canon(f3)==canon(f1), 'library unmodified:', before==after)
c4,f4 = MoleculeResolver.from_fragment_dicts("{[#A][#B][#A]}", lib).resolve()
print('second call same:', canon(f4)==canon(f1))
g = read_cgsmiles("{[#A][#B][#A]}")
c5,f5 = MoleculeResolver.from_graph("{#A=[$]CC[$],#B=[$]C(=O)O[$]}", g).resolve()
print('from_graph same:', canon(f5)==canon(f1))
# keys
print('keys 0..n-1:', sorted(f1.nodes)==list(range(len(f1))), 'fragid monotone:', [f1.nodes[n]['fragid'] for n in sorted(f1.nodes)])
print('atomnames', [(n, f1.nodes[n]['atomname']) for n in sorted(f1.nodes)])
print("== C17 / C16")
fs = "{#PEO=[$]COC[$],#OH=[$B]O}"
def samp(seed, **kw):
    sm = MoleculeSampler.from_fragment_string(fs, polymer_reactivities={'$':1.0,'$B':0.0}, seed=seed, **kw)
    return sm, sm.sample(200)
sm, m1 = samp(7); _, m2 = samp(7); _, m3 = samp(8)
print('masses', sm.fragment_masses)
print('same seed same:', canon(m1)==canon(m2), 'diff seed diff:', canon(m1)!=canon(m3), len(m1))
print('connected', nx.is_connected(m1), 'fragids', sorted(set(tuple(d) for n,d in m1.nodes(data='fragid'))))
print([ (u,v,d.get('bonding')) for u,v,d in m1.edges(data=True) if 'bonding' in d])
