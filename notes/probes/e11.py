import networkx as nx, cgsmiles, numpy as np, copy, random
from cgsmiles import MoleculeResolver
def res(s, **kw): return MoleculeResolver.from_string(s, **kw).resolve_all()
def ez(g):
    out=set()
    for n,l in nx.get_node_attributes(g,'ez_isomer').items():
        for (a,b,c,d,t) in l:
            ok = g.has_edge(a,b) and g.has_edge(b,c) and g.has_edge(c,d) and g.edges[b,c]['order']==2
            out.add((g.nodes[a]['element'], g.nodes[d]['element'], t, ok))
    return out
print("== C15")
for s in ["{[#A]}.{#A=F/C=C/Cl}", "{[#A][#B]}.{#A=F/C=[$],#B=[$]=C/Cl}", "{[#B][#A]}.{#A=F/C=[$],#B=[$]=C/Cl}", "{[#A][#B]}.{#A=F/C=C/[$],#B=[$]Cl}","{[#B][#A]}.{#A=F/C=C/[$],#B=[$]Cl}",
          "{[#A][#B]}.{#A=F[$],#B=[$]/C=C/Cl}", "{[#A][#B]}.{#A=F/[$],#B=[$]C=C/Cl}", "{[#A]}.{#A=F/C=C\\Cl}", "{[#A][#B]}.{#A=F/C=[$],#B=[$]=C\\Cl}", "{[#B][#A]}.{#A=F/C=[$],#B=[$]=C\\Cl}",
          "{[#A]}.{#A=C(/F)=C/Cl}", "{[#A][#B]}.{#A=C(/F)=[$],#B=[$]=C/Cl}", "{[#B][#A]}.{#A=C(/F)=[$],#B=[$]=C/Cl}", "{[#A]}.{#A=CC(/F)=C(/Cl)C}", "{[#A][#B]}.{#A=CC(/F)=[$],#B=[$]=C(/Cl)C}","{[#B][#A]}.{#A=CC(/F)=[$],#B=[$]=C(/Cl)C}",
          "{[#A][#B][#C]}.{#A=C[$],#B=[$]C(/F)=C(/Cl)[$],#C=[$]C}", "{[#C][#B][#A]}.{#A=C[$],#B=[$]C(/F)=C(/Cl)[$],#C=[$]C}"]:
    try:
        c,f = res(s); print(s, sorted(ez(f)))
    except Exception as e:
        print(s, 'EXC', type(e).__name__, e)
print("== C06")
two = "{[#PMA]([#PEG]|3)|5}.{#PMA=[<]CC[>]C(=O)OC[$],#PEG=[$]COC[$]}"
three = "{[#mPEG]|5}.{#mPEG=[$][#PMA][$]([#PEG]|3)}.{#PMA=[<]CC[>]C(=O)OC[$],#PEG=[$]COC[$]}"
c2,f2 = res(two); c3,f3 = res(three)
nm = lambda x,y: x.get('element')==y.get('element'); em = lambda x,y: x.get('order')==y.get('order')
print(len(f2), len(f3), nx.is_isomorphic(f2,f3,node_match=nm,edge_match=em))
print(sorted(d for n,d in c2.degree()), sorted(d for n,d in c3.degree()))
