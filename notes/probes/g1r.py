import itertools, sys, collections, random
import networkx as nx
from g1 import *
# add rings to generated chains: choose up to 2 ring bonds between distinct non-adjacent-node positions (in DFS order), with marker styles and order symbol at opening
def flat(chain, acc):
    for it in chain:
        acc.append(it)
        for presym, sub in it[2]: flat(sub, acc)
    return acc
def with_rings(chain, pairs):
    # pairs: list of (i, j, sym, marker) node indices in order of appearance i<j
    import copy
    c = copy.deepcopy(chain)
    items = []
    def conv(ch):
        out=[]
        for (name, rings, brs, nxt) in ch:
            it=[name, [], None, nxt]; items.append(it)
            it[2]=[(p, conv(sub)) for p,sub in brs]
            out.append(it)
        return out
    c2 = conv(c)
    for i,j,sym,mk in pairs:
        items[i][1].append((sym, mk)); items[j][1].append(('', mk))
    def back(ch): return [(n, r, [(p, back(s)) for p,s in b], x) for n,r,b,x in ch]
    return back(c2)
stats = collections.Counter(); ex = {}
N=4; tot=0
for n in range(2, N+1):
    for chain in chains(n, 2, ['A']):
        s0 = render_chain(chain)
        if '))' in s0 and not s0.endswith('))') : continue   # known class
        g0 = denote(chain)
        nn = g0.number_of_nodes()
        cand = [(i,j) for i in range(nn) for j in range(i+1,nn) if not g0.has_edge(i,j)]
        for k in (1,2):
            for prs in itertools.combinations(cand, k):
                for syms in itertools.product(['', '=', '.'], repeat=k):
                    for mks in itertools.product(['1','2','%10','%11'], repeat=k):
                        if len(set(mks))<k: continue
                        ch = with_rings(chain, [(i,j,sy,mk) for (i,j),sy,mk in zip(prs,syms,mks)])
                        s = render_chain(ch); tot+=1
                        c = classify(s, ch)
                        feat=[]
                        import re
                        if re.search(r'%\d\d\d', s): feat.append('%nn+digit')
                        if re.search(r'\d\)', s) : feat.append('ring-before-)')
                        if re.search(r'\d[=.]?\(', s): feat.append('ring-before-(')
                        if re.search(r'\d[=.]\[', s): feat.append('ring-then-order')
                        key=(c, tuple(feat)); stats[key]+=1; ex.setdefault(key, s)
print('total', tot)
for k,v in sorted(stats.items(), key=str): print(k, v, ex[k])
