import time
from z3 import *
s = Const('s', ArraySort(IntSort(), IntSort())); n = Int('n')
ch = Const('ch', ArraySort(IntSort(), IntSort())); nch = Int('nch')
start, idx, k, m, q = Ints('start idx k m q')
inchars = lambda t: Exists([q], And(0<=q, q<nch, ch[q]==t))
inv = lambda idx: ForAll([k], Implies(And(0<=k, k<idx), Not(inchars(s[start+k]))))
def prove(name, hyp, goal):
    sol = Solver(); sol.set('timeout', 20000); sol.add(hyp, Not(goal)); t=time.time(); r=sol.check(); print(name, 'proved' if r==unsat else r, round(time.time()-t,3))
pre = And(0<=start, start<=n, nch>=0)
prove('fnc preserve', And(pre, 0<=idx, start+idx<n, inv(idx), Not(inchars(s[start+idx]))), inv(idx+1))
res = idx+start
post = And(start<=res, res<n, inchars(s[res]), ForAll([m], Implies(And(start<=m, m<res), Not(inchars(s[m])))))
prove('fnc return post', And(pre, 0<=idx, start+idx<n, inv(idx), inchars(s[start+idx])), post)
post2 = ForAll([m], Implies(And(start<=m, m<n), Not(inchars(s[m]))))
prove('fnc exit post', And(pre, idx==n-start, inv(idx)), post2)
prove('MUTANT returns idx (not idx+start)', And(pre, 0<=idx, start+idx<n, inv(idx), inchars(s[start+idx])), And(start<=idx, inchars(s[idx])))
