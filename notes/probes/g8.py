import networkx as nx, collections
from cgsmiles.read_fragments import read_fragments
from cgsmiles.write_cgsmiles import write_cgsmiles_fragments, write_cgsmiles
from cgsmiles import MoleculeResolver
import logging; logging.getLogger('pysmiles').setLevel(logging.CRITICAL)
def nm(a,b):
    keys = ('element','charge','aromatic') if 'element' in a else ('atomname',)
    return all(a.get(k)==b.get(k) for k in keys) and sorted(a.get('bonding',[]))==sorted(b.get('bonding',[])) and a.get('bonding',[])==b.get('bonding',[])
em = lambda a,b: a.get('order',1)==b.get('order',1)
AA = ["[$]COC[$]", "[$]=COC[$A]", "[$A]O", "[$][$A]COC[$][$B]", "[!]ccc[!]", "[>]CC(C)[<]C(=O)OC", "C=[$a][$b]C#[>]", "[$]C[$]=[$]", "[NH3+][$]", "[O-][$]", "[$]c1ccccc1[$]", "Cl[$]Br", "[$]C1CC1[$]",
      "[$]=C1CC1", "C1=[$]CC1", "[$]C(=O)[O-]", "[<]N[>]C(=O)", "[$]C#C[$]", "[$]S(=O)(=O)[$]", "[$].CC", "[$]C=1CC=1", "[$]CC(C[$])C[$]", "[$]C(F)(Cl)Br", "[$]c1ccncc1", "[$][H]", "[C;x=R][$](F)Cl", "[O;0.5][$]C"]
CG = ["[$][#A][#B][$]", "[>][#A]1[#B][#C]1[<]", "[$A][#A]([#B][$B])[#C]", "[$]=[#P][#D][<]", "[#A]=[#B][$]#[$]", "[$][#A]([#B])=[#C][!]", "[#A;q=1][$]", "[$][#A]|3[$]"]
for name, lib, aa in (('AA',AA,True),('CG',CG,False)):
    st=collections.Counter()
    for f in lib:
        s='{#X=%s}'%f
        try:
            F=read_fragments(s, all_atom=aa)
        except Exception as e:
            st['READ0-EXC']+=1; print('  read0 exc', f, type(e).__name__, e); continue
        try:
            w=write_cgsmiles_fragments(F, smiles_format=aa)
            R=read_fragments(w, all_atom=aa)
            ok=nx.is_isomorphic(F['X'],R['X'],node_match=nm,edge_match=em)
            st['ok' if ok else 'DIFF']+=1
            if not ok: print('  DIFF', f, '->', w, dict(F['X'].nodes(data='bonding')), dict(R['X'].nodes(data='bonding')), list(F['X'].edges(data='order')), list(R['X'].edges(data='order')))
        except Exception as e:
            st['EXC '+type(e).__name__]+=1; print('  exc', f, type(e).__name__, str(e)[:80])
    print(name, dict(st))
