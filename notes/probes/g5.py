# throwaway: C07 exhaustive round trip on small graphs
import itertools, collections, sys
import networkx as nx
from networkx.generators.atlas import graph_atlas_g
from cgsmiles import read_cgsmiles
from cgsmiles.write_cgsmiles import write_cgsmiles_graph
nm = lambda a,b: a['fragname']==b['fragname']; em = lambda a,b: a['order']==b['order']
stats = collections.Counter(); ex = {}
N = int(sys.argv[1]) if len(sys.argv)>1 else 5
ORD = [0,1,2,3,4]
for G in graph_atlas_g():
    n = G.number_of_nodes()
    if n < 1 or n > N or not nx.is_connected(G): continue
    edges = list(G.edges)
    names = ['A','B','C','D','E','F']
    import random
    rng = random.Random(1)
    assigns = itertools.product(ORD, repeat=len(edges)) if len(edges) <= 5 else [tuple(rng.choice(ORD) for _ in edges) for _ in range(300)]
    for asg in assigns:
        for perm in ([list(range(n))] + [rng.sample(range(n), n) for _ in range(2)]):
            H = nx.Graph()
            for i in range(n): H.add_node(perm[i], fragname=names[i % 3])
            for (u,v),o in zip(edges, asg): H.add_edge(perm[u], perm[v], order=o)
            try:
                s = write_cgsmiles_graph(H)
            except Exception as e:
                k = ('WRITE-EXC', type(e).__name__); stats[k]+=1; ex.setdefault(k, (dict(H.nodes(data='fragname')), list(H.edges(data='order')))); continue
            try:
                R = read_cgsmiles(s)
                ok = nx.is_isomorphic(H, R, node_match=nm, edge_match=em)
                k = ('ok',) if ok else ('DIFF', 'ring' if any(c.isdigit() for c in s) else 'noring', 'zero' if 0 in asg else 'nozero')
            except Exception as e:
                k = ('READ-EXC', type(e).__name__)
            stats[k]+=1; ex.setdefault(k, (s, list(H.edges(data='order'))))
for k,v in sorted(stats.items(), key=str): print(k, v, ex[k])
