# hand-encoded core of resolve_disconnected_molecule / merge_graphs fragid arithmetic on a graph heap
import time
from z3 import *
I = IntSort()
# meta nodes in iteration order M[0..nM); precondition (read_cgsmiles output): M[k] == k
M = Const('M', ArraySort(I,I)); nM = Int('nM'); virt = Const('virt', ArraySort(I, BoolSort()))   # virt[k]: no fragment
# molecule state before iteration t: nodes 0..cnt-1 ; fragid of node (single-element list) fid ; owner[n] = meta node it was instantiated for
fid, owner = Consts('fid owner', ArraySort(I,I)); cnt, t, n, k = Ints('cnt t n k')
sz = Const('sz', ArraySort(I,I))   # size of fragment for meta node k (>=1)
# loop invariant wanted by C02/C11: every instantiated node records its own coarse node
inv = lambda fid, owner, cnt, t: And(cnt>=0, ForAll([n], Implies(And(0<=n, n<cnt), And(fid[n]==owner[n], 0<=owner[n], owner[n]<t))))
# auxiliary invariant needed for the real arithmetic: last node's fragid == number of real nodes before t - 1 ... (the real code derives offset from last node)
# one iteration for a non-virtual meta node M[t]: merge_graphs gives new nodes cnt..cnt+sz-1 with fragid = 0 + foff, foff = 0 if cnt==0 else fid[cnt-1]+1
foff = If(cnt==0, 0, fid[cnt-1]+1)
fid2, owner2 = Consts('fid2 owner2', ArraySort(I,I)); cnt2 = Int('cnt2')
step = And(cnt2 == cnt + sz[t], sz[t]>=1,
           ForAll([n], Implies(And(0<=n, n<cnt), And(fid2[n]==fid[n], owner2[n]==owner[n]))),
           ForAll([n], Implies(And(cnt<=n, n<cnt2), And(fid2[n]==foff, owner2[n]==M[t]))))
pre = And(nM>=0, ForAll([k], Implies(And(0<=k,k<nM), M[k]==k)), 0<=t, t<nM)
def prove(name, hyp, goal):
    s = Solver(); s.set('timeout', 20000); s.add(hyp, Not(goal)); t0=time.time(); r=s.check(); print(name, 'proved' if r==unsat else r, round(time.time()-t0,3))
    return s if r==sat else None
# (a) with the strengthening "no virtual node before t" (lastfid == t-1) the step preserves inv
strong = lambda fid, cnt, t: Implies(cnt>0, fid[cnt-1]==t-1)
prove('no-virtual: preserve', And(pre, inv(fid,owner,cnt,t), strong(fid,cnt,t), Implies(cnt==0, t==0), Not(virt[t]), step), And(inv(fid2,owner2,cnt2,t+1), strong(fid2,cnt2,t+1)))
# (b) a virtual node is skipped: state unchanged, t advances: strengthening breaks => defect F4
s = prove('virtual skipped: preserve', And(pre, inv(fid,owner,cnt,t), strong(fid,cnt,t), Implies(cnt==0, t==0), virt[t]), And(inv(fid,owner,cnt,t+1), strong(fid,cnt,t+1), Implies(cnt==0, t+1==0)))
if s: m = s.model(); print('   cex: t=', m.eval(t), 'cnt=', m.eval(cnt), 'nM=', m.eval(nM))
# (c) fixed code: fragid overwritten with [meta_node] after merge -> fid2[n] == M[t]; inv alone is inductive, virtual or not
stepfix = And(cnt2 == cnt + sz[t], sz[t]>=1,
           ForAll([n], Implies(And(0<=n, n<cnt), And(fid2[n]==fid[n], owner2[n]==owner[n]))),
           ForAll([n], Implies(And(cnt<=n, n<cnt2), And(fid2[n]==M[t], owner2[n]==M[t]))))
prove('FIXED real node: preserve', And(pre, inv(fid,owner,cnt,t), Not(virt[t]), stepfix), inv(fid2,owner2,cnt2,t+1))
prove('FIXED virtual: preserve', And(pre, inv(fid,owner,cnt,t), virt[t]), inv(fid,owner,cnt,t+1))
