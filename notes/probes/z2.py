import z3, time
from z3 import *
S = StringSort()
bonding = Const('bonding', SeqSort(S))
fmt = Function('fmt', SeqSort(S), IntSort(), S)      # spec fold
def sym(o):  # order_to_symbol[int(o)] for o char in '0'..'4'
    return If(o==StringVal('0'), StringVal('.'), If(o==StringVal('1'), StringVal('-'), If(o==StringVal('2'), StringVal('='), If(o==StringVal('3'), StringVal('#'), StringVal('$')))))
def piece(d):
    o = SubString(d, Length(d)-1, 1)
    return Concat(If(sym(o)==StringVal('-'), StringVal(''), sym(o)), StringVal('['), SubString(d,0,Length(d)-1), StringVal(']'))
i = Int('i'); bond_str = String('bond_str')
d = bonding[i]
def unfold(k): return fmt(bonding,k+1) == Concat(fmt(bonding,k), piece(bonding[k]))
valid = lambda d: And(Length(d)>=2, Or(*[SubString(d,Length(d)-1,1)==StringVal(c) for c in '01234']))
inv = bond_str == fmt(bonding,i)
# real body (buggy): if order_symb != '-': bond_str = order_symb ; bond_str += "[" + d[:-1] + "]"
o = SubString(d, Length(d)-1, 1); osym = sym(o)
bs1 = If(osym != StringVal('-'), osym, bond_str)
bs_buggy = Concat(bs1, StringVal('['), SubString(d,0,Length(d)-1), StringVal(']'))
bs1f = If(osym != StringVal('-'), Concat(bond_str, osym), bond_str)
bs_fixed = Concat(bs1f, StringVal('['), SubString(d,0,Length(d)-1), StringVal(']'))
for name, bs in [('buggy', bs_buggy), ('fixed', bs_fixed)]:
    s = Solver(); s.set('timeout', 20000)
    s.add(i>=0, i<Length(bonding), valid(d), inv, unfold(i), fmt(bonding,0)==StringVal(''))
    s.add(bs != fmt(bonding,i+1))
    t=time.time(); r=s.check(); print(name, r, round(time.time()-t,3))
    if r==sat:
        m=s.model(); print({str(k): m[k] for k in m.decls() if k.name() in ('i','bond_str','bonding')})
print(s.reason_unknown())
s = Solver(); s.set('timeout', 20000)
s.add(i>=0, i<Length(bonding), valid(d), inv, unfold(i), fmt(bonding,0)==StringVal(''))
s.add(bs_buggy != fmt(bonding,i+1))
open('buggy.smt2','w').write('(set-logic ALL)\n'+s.to_smt2())
