import networkx as nx, collections
from cgsmiles import MoleculeResolver, read_cgsmiles
from cgsmiles.read_fragments import read_fragments
from cgsmiles.write_cgsmiles import write_cgsmiles
import logging; logging.getLogger('pysmiles').setLevel(logging.CRITICAL)
nm = lambda a,b: a.get('element')==b.get('element') and a.get('charge',0)==b.get('charge',0) and a.get('atomname','')[:1]==b.get('atomname','')[:1]
em = lambda a,b: a.get('order')==b.get('order')
print("== C08 full strings")
for s, aa in [("{[#PEO][#PMMA][#PEO][#PMMA]}.{#PEO=[>]COC[<],#PMMA=[>]CC(C)[<]C(=O)OC}", True),
          ("{[#A]=[#B]}.{#A=[$]CC[$],#B=[$]CC[$]}", True), ("{[#A][#B]([#C])=[#A]}.{#A=[$]C=[$],#B=[$]C([$])[$],#C=[$]O}", True),
          ("{[#X]|2}.{#X=[$][#A][#B][$]}.{#A=[$]CC[$],#B=[$]O[$]}", True), ("{[#X][#Y]}.{#X=[#A]=[#B][>],#Y=[<][#B]}", False)]:
    try:
        import re
        els = re.findall(r"\{[^\}]+\}", s)
        base = read_cgsmiles(els[0]); fds = MoleculeResolver.read_fragment_strings(els[1:], last_all_atom=aa)
        w = write_cgsmiles(base, fds, last_all_atom=aa)
        r1 = MoleculeResolver.from_string(s, last_all_atom=aa).resolve_all()[1]; r2 = MoleculeResolver.from_string(w, last_all_atom=aa).resolve_all()[1]
        print(s, '->', w, 'iso' if nx.is_isomorphic(r1,r2,node_match=nm,edge_match=em) else 'NOT-ISO')
    except Exception as e: print(s, 'EXC', type(e).__name__, str(e)[:100])
print("== C10 triangle")
for s in ["{[#A]1[#B][#C]1}.{#A=[!]C[!]C,#B=[!]C[!]O,#C=[!]C[!]N}", "{[#A]1[#B][#C]1}.{#A=[!a]C[!c]C,#B=[!a]C[!b]O,#C=[!b]C[!c]N}"]:
    try:
        c,f = MoleculeResolver.from_string(s).resolve(); print(s, len(f), sorted(d for n,d in f.nodes(data='element')), [d for n,d in f.nodes(data='fragid') if len(d)>1])
    except Exception as e: print(s, 'EXC', type(e).__name__, str(e)[:100])
