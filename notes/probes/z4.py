import time
from z3 import *
s = String('s'); start, idx, k = Ints('start idx k')
c1, c2 = Strings('c1 c2')   # chars = [c1, c2] list of 1-char strings
def at(i): return SubString(s, i, 1)
inchars = lambda t: Or(t==c1, t==c2)
inv = lambda idx: ForAll([k], Implies(And(0<=k, k<idx), Not(inchars(at(start+k)))))
def prove(name, hyp, goal):
    for nm, mk in [('z3', None)]:
        sol = Solver(); sol.set('timeout', 20000); sol.add(hyp, Not(goal)); t=time.time(); r=sol.check(); print(name, 'proved' if r==unsat else r, round(time.time()-t,3))
        open(name.replace(' ','_')+'.smt2','w').write('(set-logic ALL)\n'+sol.to_smt2())
pre = And(0<=start, start<=Length(s), Length(c1)==1, Length(c2)==1)
# loop over string[start:] with index idx: token = s[start+idx]; 
prove('fnc preserve', And(pre, 0<=idx, start+idx<Length(s), inv(idx), Not(inchars(at(start+idx)))), inv(idx+1))
# return path: token in chars -> result = idx+start: post: start<=res<len, s[res] in chars, forall start<=m<res: s[m] not in chars
m = Int('m'); res = idx+start
post = And(start<=res, res<Length(s), inchars(at(res)), ForAll([m], Implies(And(start<=m, m<res), Not(inchars(at(m))))))
prove('fnc return post', And(pre, 0<=idx, start+idx<Length(s), inv(idx), inchars(at(start+idx))), post)
post2 = ForAll([m], Implies(And(start<=m, m<Length(s)), Not(inchars(at(m)))))
prove('fnc exit post', And(pre, idx==Length(s)-start, inv(idx)), post2)
