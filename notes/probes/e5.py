import networkx as nx, cgsmiles, numpy as np, copy
from cgsmiles import MoleculeResolver, read_cgsmiles
from cgsmiles.read_fragments import read_fragments
def res(s, **kw):
    try:
        r = MoleculeResolver.from_string(s, **kw)
        out = list(r.resolve_iter())
        return out
    except Exception as e:
        print(s, 'EXC', type(e).__name__, e); return None
def dump(g, keys=('element','atomname','fragname','fragid','charge','weight','chiral','q','w','hcount')):
    return [(n, {k: d[k] for k in keys if k in d}) for n, d in g.nodes(data=True)], sorted((min(u,v),max(u,v),o) for u,v,o in g.edges(data='order'))
print("== coarse annotations")
out = res("{[#X;q=2][#Y]}.{#X=[#A;q=1][$][#B;0.5],#Y=[$][#C;w=3;foo=bar]}", last_all_atom=False)
cg, fine = out[-1]; print(dump(cg)); print(dump(fine))
print("== atomistic annotations")
out = res("{[#X]|2}.{#X=[$][C;0.5;foo=1]([H;0.25])[O;x=R][$]}")
cg, fine = out[-1]; print(dump(fine))
print("== C20")
for s in ["{[#A][#B]1}.{#A=CC[$],#B=OC[$]}", "{[#A]1[#B]1}.{#A=CC[$],#B=OC[$]}", "{[#A][#B]}.{#A=CC[$]}", "{[#A;w=ab=c][#B]}.{#A=CC[$],#B=OC[$]}",
          "{[#A]([#B]1)[#C]}.{#A=C,#B=C,#C=C}", "{[#A]1[#B]1[#C]}.{#A=C,#B=C,#C=C}", "{[#A]1[#B][#C]1[#D]1}.{#A=C,#B=C,#C=C,#D=C}", "{[#A]1[#B]|2[#C]1}", "{[#A]1|2[#C]1}",
          "{[#A]%10[#B][#C]%10%11}", "{[#A][#B]|2%10}", "{[#A][#B].[#V]1}.{#A=C,#B=C}", "{[#A][#B]}.{#A=C[$],#B=[$]C[O;w=x]}", "{[#A][#B]}.{#A=C[$],#B=[$]C[O;1;R;3]}",
          "{[#A]2[#B][#C]2[#D]2}", "{[#A]1[#B]=[#C]1[#D]1[#E][#F]1}"]:
    r = res(s)
    if r: print(s, 'OK nodes', len(r[-1][1]))
    else:
        try: print('   graph only:', list(read_cgsmiles(s[:s.index('}')+1]).edges(data='order')))
        except Exception as e: print('   graph EXC', type(e).__name__, e)
