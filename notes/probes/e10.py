import networkx as nx, cgsmiles, numpy as np, copy, random
from cgsmiles import MoleculeSampler
def canon(g):
    return repr([(n, sorted((k, repr(v)) for k,v in d.items() if k not in ('graph','contraction'))) for n,d in sorted(g.nodes(data=True))]) + repr(sorted((min(u,v),max(u,v),sorted((k,repr(v)) for k,v in d.items())) for u,v,d in g.edges(data=True)))
fs = "{#PEO=[$]COC[$],#PE=[>]CC[<]}"
def samp(seed, w=200, **kw):
    sm = MoleculeSampler.from_fragment_string(fs, polymer_reactivities={'$':0.5,'>':0.25,'<':0.25}, seed=seed, **kw)
    return sm, sm.sample(w, start_fragment='PEO')
sm, m1 = samp(7); _, m2 = samp(7); _, m3 = samp(8)
print('masses', sm.fragment_masses)
print('same seed same:', canon(m1)==canon(m2), 'diff seed diff:', canon(m1)!=canon(m3), len(m1))
print('connected', nx.is_connected(m1), 'fragids', sorted(set(tuple(d) for n,d in m1.nodes(data='fragid'))))
print([ (u,v,d.get('bonding')) for u,v,d in m1.edges(data=True) if 'bonding' in d])
print([(n,d) for n,d in m1.nodes(data='fragname') if m1.nodes[n]['element']!='H'])
# sample twice from the same sampler
sm, m1 = samp(7); m1b = sm.sample(200, start_fragment='PEO')
print('second sample from same sampler equal to first?', canon(m1)==canon(m1b))
# doc example with terminals
cg="{#PMA=[>]CC[<]C(=O)OC[>A],#PEG=[<A]COC[>A][$A],#OH=[$B]O}"
sm = MoleculeSampler.from_fragment_string(cg, terminal_bonds=['$A','$B'], polymer_reactivities={'<':0.1,'>':0.1,'>A':0.8,'<A':0.8,'$A':0.3,'$B':0.0},
     fragment_reactivities={'$A':{'$A':0,'$B':1.0}}, all_atom=True, seed=3)
try:
    m = sm.sample(600, start_fragment='PMA')
    print('doc example', len(m), nx.is_connected(m))
    print([ (u,v,d.get('bonding')) for u,v,d in m.edges(data=True) if 'bonding' in d])
    print({n:d for n,d in m.nodes(data='bonding') if d})
except Exception as e:
    import traceback; traceback.print_exc()
