import random, sys, collections, itertools, warnings
import networkx as nx, numpy as np
from cgsmiles import MoleculeSampler
from cgsmiles.read_fragments import read_fragments
warnings.simplefilter('ignore')
rng = random.Random(0)
LIB_AA = ["[$]COC[$]", "[>]CC[<]", "[$A]CC[$B]", "[>]CC([$])[<]", "[$]=CC=[$]", "[<A]COC[>A][$A]", "[$B]O", "[>]CC[<]c1ccccc1", "[$]C(=O)O[$]", "[>A]N[<A]"]
LIB_CG = ["[$][#A][#B][$]", "[>][#A][<]", "[<][#A][#B][$][#C][>]", "[$A][#A]1[#B][$B][#C]1[$C]", "[$]=[#P][#D][<]"]
def compatible_pair(a, b):
    if a[0]=='$' and b[0]=='$': return a[-1]==b[-1]
    if (a[0],b[0]) in (('<','>'),('>','<')): return a[1:]==b[1:]
    return False
stats = collections.Counter(); bad=[]
for trial in range(400):
    aa = rng.random()<0.5
    lib = LIB_AA if aa else LIB_CG
    k = rng.randint(1,3)
    frs = rng.sample(lib, k)
    fs = '{'+','.join('#F%d=%s'%(i,f) for i,f in enumerate(frs))+'}'
    fd = read_fragments(fs, all_atom=aa)
    descs = sorted({b for g in fd.values() for n,bl in g.nodes(data='bonding') if bl for b in bl})
    if not descs: continue
    pr = {d: rng.choice([0, 0.2, 1.0]) for d in descs}
    if all(v==0 for v in pr.values()): pr[descs[0]] = 1.0
    seed = rng.randint(0,10**6)
    kw = dict(polymer_reactivities=pr, all_atom=aa, seed=seed)
    if not aa: kw['fragment_masses'] = {n: rng.choice([10, 42.5]) for n in fd}
    try:
        sm = MoleculeSampler.from_fragment_string(fs, **kw)
        start = rng.choice(list(fd))
        w = rng.choice([50, 120, 333.3])
        m = sm.sample(w, start_fragment=start)
    except Exception as e:
        stats['EXC '+type(e).__name__+' '+str(e)[:50]]+=1; continue
    ok = True; why=[]
    if not nx.is_connected(m): ok=False; why.append('disconnected')
    be = [(u,v,d) for u,v,d in m.edges(data=True) if 'bonding' in d]
    nfr = len({tuple(f) for n,f in m.nodes(data='fragid')})
    if len(be) != nfr-1: ok=False; why.append('bonds %d frags %d'%(len(be), nfr))
    for u,v,d in be:
        a,b = d['bonding']
        if not compatible_pair(a,b): ok=False; why.append('incompatible %s %s'%(a,b))
        if d['order'] != int(a[-1]): ok=False; why.append('order')
        if pr.get(a,0)==0: ok=False; why.append('zero-reactivity site %s'%a)
        if m.nodes[u]['fragid']==m.nodes[v]['fragid']: ok=False; why.append('intra')
    if sorted(m.nodes)!=list(range(len(m))): ok=False; why.append('keys')
    fr = [m.nodes[n]['fragid'] for n in sorted(m.nodes)]
    if fr != sorted(fr): ok=False; why.append('fragid order')
    stats['ok' if ok else 'BAD']+=1
    if not ok: bad.append((fs, pr, seed, why[:3]))
print(stats)
for b in bad[:15]: print(b)
