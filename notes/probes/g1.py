# throwaway: grammar AST enumerator + reference denotation for read_cgsmiles (no multipliers here)
import itertools, sys, collections
import networkx as nx
from cgsmiles import read_cgsmiles
ORD = {'.':0,'-':1,'=':2,'#':3,'$':4}
# AST: chain = list of items; item = (name, rings, branches, after) 
#   rings: list of (sym or '', marker_str, id) ; branches: list of (presym, chain, ) ; 
# rendering: node + rings + [presym '(' chain ')']* + (sym to next in chain)
def render_chain(chain):
    s = ''
    for i,(name, rings, branches, nxt) in enumerate(chain):
        s += '[#%s]'%name
        for sym, mk in rings: s += sym + mk
        for presym, sub in branches:
            s += presym + '(' + render_chain(sub) + ')'
        if i < len(chain)-1: s += nxt
    return s
def denote(chain):
    g = nx.Graph(); cnt=[0]; open_r = {}
    def walk(chain, anchor, order_in):
        prev, o = anchor, order_in
        for i,(name, rings, branches, nxt) in enumerate(chain):
            n = cnt[0]; cnt[0]+=1
            g.add_node(n, fragname=name)
            if prev is not None: g.add_edge(prev, n, order=o)
            for sym, mk in rings:
                rid = int(mk.lstrip('%'))
                if rid in open_r:
                    m, oo = open_r.pop(rid); g.add_edge(m, n, order=oo)
                else:
                    open_r[rid] = (n, ORD.get(sym,1))
            for presym, sub in branches:
                walk(sub, n, ORD.get(presym,1))
            prev, o = n, ORD.get(nxt,1)
    walk(chain, None, 1)
    return g
def same(g, h):
    return (sorted(g.nodes(data='fragname'))==sorted(h.nodes(data='fragname')) and
            sorted((min(u,v),max(u,v),o) for u,v,o in g.edges(data='order'))==sorted((min(u,v),max(u,v),o) for u,v,o in h.edges(data='order')))
# enumerate chains with total nodes N: tree shapes
SYMS = ['', '=', '.']
def chains(n, depth, names):
    # yields chains with exactly n nodes
    if n == 0:
        return
    # first item takes 1 node + branches total b nodes, rest chain n-1-b
    for b in range(0, n):
        rest = n-1-b
        for brs in branch_sets(b, depth):
            for name in names:
                if rest == 0:
                    yield [(name, [], brs, '')]
                else:
                    for nxt in SYMS:
                        for tail in chains(rest, depth, names):
                            yield [(name, [], brs, nxt)] + tail
def branch_sets(b, depth):
    if b == 0:
        yield []; return
    if depth == 0: return
    for first in range(1, b+1):
        for presym in SYMS:
            for sub in chains(first, depth-1, ['B']):
                for others in branch_sets(b-first, depth):
                    yield [(presym, sub)] + others
def classify(s, chain):
    try:
        g = read_cgsmiles('{'+s+'}')
    except Exception as e:
        return 'EXC '+type(e).__name__
    return 'ok' if same(g, denote(chain)) else 'WRONG'
N = int(sys.argv[1]) if len(sys.argv)>1 else 4
stats = collections.Counter(); ex = {}
tot=0
for n in range(1, N+1):
    for chain in chains(n, 3, ['A']):
        s = render_chain(chain); tot+=1
        c = classify(s, chain)
        feat = []
        if '))' in s: feat.append('))')
        if ')(' in s: feat.append(')(')
        key = (c, tuple(feat))
        stats[key]+=1; ex.setdefault(key, s)
print('total', tot)
for k,v in sorted(stats.items(), key=str): print(k, v, ex[k])
