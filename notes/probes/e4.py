import networkx as nx, cgsmiles, numpy as np
from cgsmiles import MoleculeResolver, read_cgsmiles
from cgsmiles.dialects import parse_graph_base_node, _fragment_node_parser
def show(f, s):
    try:
        print(repr(s), '->', f(s))
    except Exception as e:
        print(repr(s), 'EXC', type(e).__name__, e)
print("== C14")
for s in ["A", "A;1", "A;q=1", "A;1;2", "A;q=1;w=2", "A;w=2;q=1", "A;1;w=2", "A;w=2;1", "A;+1", "A;-0.25", "A;1e-1", "A;q=1;foo=bar", "A;foo=bar;1", "A;foo=bar", "A;q=1;q=2", "A;1;q=2",
          "A;1;2;3", "A;w=a=b", "A;q=abc", "A;", "A;;1", "fragname=A", "A;fragname=B", "A;kwargs=3", "A;q=", "A;=1", "A;q=nan", "A;q=inf", "A;q= 1", "A;1_0"]:
    show(parse_graph_base_node, s)
for s in ["", "0.5", "w=0.5", "0.5;R", "x=R", "x=R;w=0.5", "w=0.5;x=R", "0.5;x=S", "r=abc", "q=4;p=s", "0.5;R;S", "x=R;0.5"]:
    show(_fragment_node_parser, s)
