import time
from z3 import *
s = Const('s', ArraySort(IntSort(), IntSort())); n = Int('n')
In = Function('In', IntSort(), BoolSort())   # membership of a char in `chars` (member-of-list spec predicate)
start, idx, k, m, q = Ints('start idx k m q')
inv = lambda idx: ForAll([m], Implies(And(start<=m, m<start+idx), Not(In(s[m]))))
def prove(name, hyp, goal):
    sol = Solver(); sol.set('timeout', 20000); sol.add(hyp, Not(goal)); t=time.time(); r=sol.check(); print(name, 'proved' if r==unsat else r, round(time.time()-t,3))
pre = And(0<=start, start<=n)
prove('fnc preserve', And(pre, 0<=idx, start+idx<n, inv(idx), Not(In(s[start+idx]))), inv(idx+1))
res = idx+start
post = And(start<=res, res<n, In(s[res]), ForAll([m], Implies(And(start<=m, m<res), Not(In(s[m])))))
prove('fnc return post', And(pre, 0<=idx, start+idx<n, inv(idx), In(s[start+idx])), post)
post2 = ForAll([m], Implies(And(start<=m, m<n), Not(In(s[m]))))
prove('fnc exit post', And(pre, idx==n-start, inv(idx)), post2)
prove('MUTANT returns idx (not idx+start)', And(pre, 0<=idx, start+idx<n, inv(idx), In(s[start+idx])), And(start<=idx, In(s[idx])))
