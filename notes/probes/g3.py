# throwaway: C13 insertion enumerator
import itertools, collections, sys
from cgsmiles.read_fragments import strip_bonding_descriptors
ATOMS = [('C','C',{}), ('Cl','Cl',{}), ('[NH3+]','[NH3+]',None), ('[C;x=R]','[C]',{'chiral':'R'}), ('[#A]','[#A]',None), ('c','c',{}), ('[O;0.5]','[O]',{'weight':0.5})]
BONDS = ['', '=', '#']
DESCS = []
for kind in '$><!':
    for lab in ['', 'a1']:
        for sym,o in [('',1),('=',2),('#',3)]:
            DESCS.append((sym+'['+kind+lab+']', kind+lab+str(o)))
DESCS_SMALL = [d for d in DESCS if d[1] in ('$1','$a12','>3','!1','<a11')]
def skeletons():
    # linear 1..3 atoms, optional ring between atom0 and last (if >=3... allow 2? ring needs non-adjacent; use 3), optional branch form for 3 atoms: A(B)C
    for n in (1,2,3):
        for atoms in itertools.product(range(len(ATOMS)), repeat=n):
            if n==3 and len(set(atoms))>2: continue
            for bonds in itertools.product(BONDS[:2], repeat=n-1):
                shapes = ['lin'] + (['br','ring','ringsym','ring%'] if n==3 else [])
                for sh in shapes:
                    yield atoms, bonds, sh
stats = collections.Counter(); ex={}
tot=0
for atoms, bonds, sh in skeletons():
    n = len(atoms)
    # descriptor placements: for each atom choose 0..1 descriptors (or 2 on first atom), position before/after ring digits
    choices = [[()] + [(d,) for d in DESCS_SMALL] for _ in range(n)]
    choices[0] = choices[0] + [(DESCS_SMALL[0], DESCS_SMALL[2]), (DESCS_SMALL[2], DESCS_SMALL[0])]
    for dsel in itertools.product(*choices):
        for pos in ('after','before'):
            text=''; clean=''; exp_desc=collections.defaultdict(list); exp_attr={}
            for i,a in enumerate(atoms):
                src, cl, attr = ATOMS[a]
                pre = bonds[i-1] if i>0 else ''
                ring=''
                if sh.startswith('ring') and i in (0,2):
                    dig = '%12' if sh=='ring%' else '1'
                    ring = ('=' if (sh=='ringsym' and i==0) else '') + dig
                ds = ''.join(d[0] for d in dsel[i])
                for d in dsel[i]: exp_desc[i].append(d[1])
                body_t = src + ((ds+ring) if pos=='before' else (ring+ds))
                body_c = cl + ring
                if sh=='br' and i==1:
                    text += '(' + pre + body_t + ')'; clean += '(' + pre + body_c + ')'
                else:
                    text += pre + body_t; clean += pre + body_c
            # leading form for first descriptor: move first atom's first descriptor to the front sometimes
            variants=[(text,clean)]
            if dsel[0]:
                d0 = dsel[0][0]
                # leading descriptor: "[$]=" order symbol AFTER the descriptor
                sym = d0[0][:-len(d0[0].lstrip('=#'))] if d0[0][0] in '=#' else ''
                core = d0[0][len(sym):]
                src0 = ATOMS[atoms[0]][0]
                rest = text[len(src0):]
                if pos=='before' or not sh.startswith('ring'):
                    lead = core + sym + src0 + rest.replace(d0[0], '', 1)
                    variants.append((lead, clean))
            for t,c in variants:
                tot+=1
                try:
                    sm, bd, ez, at = strip_bonding_descriptors(t)
                    ok_text = (sm == c)
                    ok_desc = ({k:v for k,v in bd.items() if v} == dict(exp_desc))
                    k = ('ok',) if ok_text and ok_desc else ('BAD', 'text' if not ok_text else '', 'desc' if not ok_desc else '', sh, pos, 'lead' if t is not text else '')
                except Exception as e:
                    k = ('EXC', type(e).__name__, sh, pos)
                stats[k]+=1; ex.setdefault(k, (t, c, dict(exp_desc)))
print('total', tot)
for k,v in sorted(stats.items(), key=str): print(k, v, ex[k])
