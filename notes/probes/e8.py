import networkx as nx, cgsmiles, numpy as np, copy
from cgsmiles import MoleculeResolver, read_cgsmiles
from cgsmiles.read_fragments import read_fragments
def dump(g, keys=('element','atomname','fragname','fragid','charge','hcount','aromatic')):
    return [(n, tuple(d.get(k) for k in keys)) for n, d in sorted(g.nodes(data=True))], sorted((min(u,v),max(u,v),o) for u,v,o in g.edges(data='order'))
def res(s, **kw):
    return MoleculeResolver.from_string(s, **kw).resolve_all()
def heavy_iso(a,b):
    nm = lambda x,y: x.get('element')==y.get('element') and x.get('charge',0)==y.get('charge',0)
    em = lambda x,y: x.get('order')==y.get('order')
    return nx.is_isomorphic(a,b,node_match=nm, edge_match=em)
print("== C10 squash")
pairs = [("{[#A][#B]}.{#A=CC[!],#B=[!]CO}", "{[#A]}.{#A=CCO}"),
         ("{[#A][#B][#C]}.{#A=CC[!],#B=[!]C[!],#C=[!]CO}", "{[#A]}.{#A=CCO}"),   # one atom shared by three
         ("{[#A][#B][#C]}.{#A=CC[!],#B=[!]CC[!],#C=[!]CO}", "{[#A]}.{#A=CCCO}"),
         ("{[#A]1[#B][#C]1}.{#A=[!]C[!],#B=[!]C[!],#C=[!]C[!]}", "{[#A]}.{#A=C}"),
         ("{[#A][#B]}.{#A=CC[!][$],#B=[!]C[$]O}", "{[#A]}.{#A=CC1CO1}"),
         ("{[#SC4]1[#TC5][#TC5]1}.{#SC4=Cc(c[!])c[!],#TC5=[!]ccc[!]}", "{[#A]}.{#A=Cc1ccccc1}"),
         ("{[#A][#B]}.{#A=CC[!a][!b],#B=[!a]CO}", "{[#A]}.{#A=CCO}"),
         ("{[#A]=[#B]}.{#A=C[!]C[!],#B=[!]C[!]C}", "{[#A]}.{#A=CC}"),
         ]
for a,b in pairs:
    try:
        (ca, fa), (cb, fb) = res(a), res(b)
        print(a, 'iso' if heavy_iso(fa, fb) else 'NOT-ISO', len(fa), len(fb), [d for n,d in fa.nodes(data='fragid') if len(d)>1])
        if not heavy_iso(fa,fb): print('  ', dump(fa))
    except Exception as e:
        print(a, 'EXC', type(e).__name__, e)
