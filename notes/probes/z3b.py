import time
from z3 import *
S = StringSort(); N = IntSort()
# lists as (Array(Int,T), len)
Ks, Kt = Consts('Ks Kt', ArraySort(IntSort(), N)); nKs, nKt = Ints('nKs nKt')
Vs, Vt = Consts('Vs Vt', ArraySort(N, ArraySort(IntSort(), S))); Ls, Lt = Consts('Ls Lt', ArraySort(N, IntSort()))
compat = Function('compat', S, S, BoolSort())
i,j,a,b = Ints('i j a b'); i2,j2,a2,b2 = Ints('i2 j2 a2 b2')
wf = And(nKs>=0, nKt>=0, ForAll([i2], Ls[i2]>=0), ForAll([i2], Lt[i2]>=0))
def rngq(i2,j2,a2,b2): return And(0<=i2, i2<nKs, 0<=j2, j2<nKt, 0<=a2, a2<Ls[Ks[i2]], 0<=b2, b2<Lt[Kt[j2]])
def nocompat_upto(i,j,a,b):
    lex = Or(i2<i, And(i2==i, j2<j), And(i2==i, j2==j, a2<a), And(i2==i,j2==j,a2==a,b2<b))
    return ForAll([i2,j2,a2,b2], Implies(And(rngq(i2,j2,a2,b2), lex), Not(compat(Vs[Ks[i2]][a2], Vt[Kt[j2]][b2]))))
def prove(name, hyp, goal, expect=unsat):
    for tac in ['z3']:
        s = Solver(); s.set('timeout', 20000); s.add(wf, hyp, Not(goal)); t=time.time(); r=s.check(); print(name, 'proved' if r==unsat else r, round(time.time()-t,3))
        if r==sat: print('   model i,j,a,b =', [s.model().eval(x) for x in (i,j,a,b)])
rng = rngq(i,j,a,b)
prove('L3 preserve', And(rng, nocompat_upto(i,j,a,b), Not(compat(Vs[Ks[i]][a], Vt[Kt[j]][b]))), nocompat_upto(i,j,a,b+1))
prove('L3 exit->L2 step', And(0<=i, i<nKs, 0<=j, j<nKt, 0<=a, a<Ls[Ks[i]], nocompat_upto(i,j,a,Lt[Kt[j]])), nocompat_upto(i,j,a+1,0))
prove('L2 exit->L1 step', And(0<=i, i<nKs, 0<=j, j<nKt, nocompat_upto(i,j,Ls[Ks[i]],0)), nocompat_upto(i,j+1,0,0))
prove('L1 exit->L0 step', And(0<=i, i<nKs, nocompat_upto(i,nKt,0,0)), nocompat_upto(i+1,0,0,0))
allno = ForAll([i2,j2,a2,b2], Implies(rngq(i2,j2,a2,b2), Not(compat(Vs[Ks[i2]][a2], Vt[Kt[j2]][b2]))))
prove('exit post', nocompat_upto(nKs,0,0,0), allno)
prove('MUTANT skip first', And(rng, b==0, nocompat_upto(i,j,a,0)), nocompat_upto(i,j,a,1))
