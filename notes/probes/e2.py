import networkx as nx, cgsmiles, numpy as np
from cgsmiles import MoleculeResolver, read_cgsmiles
from cgsmiles.read_fragments import read_fragments, strip_bonding_descriptors
def show(s):
    try:
        g = read_cgsmiles(s)
        print(s, '->', [(n,d.get('fragname')) for n,d in g.nodes(data=True)], list(g.edges(data='order')))
    except Exception as e:
        print(s, 'EXC', type(e).__name__, e)
print("== C04 probes")
for s in ["{[#A]=([#B])[#C]}", "{[#A]([#B])=[#C]}", "{[#A]([#B])=([#C])[#D]}", "{[#A]1=[#B][#C]1}", "{[#A]=1[#B][#C]1}",
          "{[#A]1[#B][#C]=1}", "{[#A]%12[#B][#C]%12}", "{[#A]12[#B]1[#C]2}", "{[#A]%12%13[#B]%12[#C]%13}",
          "{[#A]1%13[#B]1[#C]%13}", "{[#A]%131[#B]1[#C]%13}", "{[#A]([#B]([#C])[#D])[#E]}", "{[#A]([#B]([#C]))[#E]}",
          "{[#A]-[#B]$[#C]#[#D].[#E]}", "{[#A]([#B]1)[#C]1}", "{[#A]([#B]=1)[#C]1}", "{[#A]([#B].)[#C]}", 
          "{[#A;q=1]([#B;w=2])[#C;x=y]}", "{[#A]=([#B]=[#C])#[#D]}", "{[#A](=[#B])[#C]}",
          "{[#A]([#B])([#C])[#D]}", "{[#A]([#B]).([#C])[#D]}","[#A][#B]", "[#A]%12[#B][#C]%12", "[#A]1[#B][#C]1", "[#A]|3", "{[#A]|3}"]:
    show(s)
print("== C05 probes")
for a,b in [("{[#A]|3}", "{[#A][#A][#A]}"), ("{[#A]=|3}", "{[#A]=[#A]=[#A]}"), ("{[#A]|3=[#B]}","{[#A][#A][#A]=[#B]}"),
            ("{[#A]=|3[#B]}","{[#A]=[#A]=[#A]=[#B]}"),
            ("{[#A]([#B])|2}", "{[#A]([#B])[#A]([#B])}"), ("{[#A]([#B])|2[#C]}", "{[#A]([#B])[#A]([#B])[#C]}"),
            ("{[#X][#A]([#B])|2[#C]}", "{[#X][#A]([#B])[#A]([#B])[#C]}"),
            ("{[#A]([#B])=|2[#C]}", "{[#A]([#B])=[#A]([#B])[#C]}"),
            ("{[#A]([#B])=|2=[#C]}", "{[#A]([#B])=[#A]([#B])=[#C]}"),
            ("{[#A]=([#B])|2[#C]}", "{[#A]=([#B])[#A]=([#B])[#C]}"),
            ("{[#A]([#B]([#C])|2)[#D]}", "{[#A]([#B]([#C])[#B]([#C]))[#D]}"),
            ("{[#A]([#B]([#C]))|2[#D]}", "{[#A]([#B]([#C]))[#A]([#B]([#C]))[#D]}"),
            ("{[#A]([#B]([#C])[#D])|2[#E]}", "{[#A]([#B]([#C])[#D])[#A]([#B]([#C])[#D])[#E]}"),
            ("{[#A]([#B]|2)|2[#E]}", "{[#A]([#B][#B])[#A]([#B][#B])[#E]}"),
            ("{[#A]([#B])([#C])|2[#E]}", "{[#A]([#B])([#C])[#A]([#B])([#C])[#E]}"),
            ("{[#A]1[#B]|2[#C]1}", "{[#A]1[#B][#B][#C]1}"),
            ("{[#A;q=1]|2}", "{[#A;q=1][#A;q=1]}"),
            ("{[#A]([#B]=[#C])|2}", "{[#A]([#B]=[#C])[#A]([#B]=[#C])}"),
            ("{[#X]=[#A]([#B])|2}", "{[#X]=[#A]([#B])[#A]([#B])}"),
            ]:
    try:
        ga, gb = read_cgsmiles(a), read_cgsmiles(b)
        nm = lambda x,y: x.get('fragname')==y.get('fragname') and x.get('charge')==y.get('charge')
        em = lambda x,y: x['order']==y['order']
        iso = nx.is_isomorphic(ga, gb, node_match=nm, edge_match=em)
        same = (list(ga.nodes(data=True))==list(gb.nodes(data=True)) and sorted(map(tuple,map(sorted,[(u,v) for u,v in ga.edges])))==sorted(map(tuple,map(sorted,[(u,v) for u,v in gb.edges]))))
        print(a, b, 'iso' if iso else 'NOT-ISO', 'same-numbering' if same else 'diff-numbering')
        if not iso:
            print('   ', list(ga.edges(data='order'))); print('   ', list(gb.edges(data='order')))
    except Exception as e:
        print(a, b, 'EXC', type(e).__name__, e)
