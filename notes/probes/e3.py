import networkx as nx, cgsmiles, numpy as np
from cgsmiles.read_fragments import read_fragments, strip_bonding_descriptors
def show(s):
    try:
        sm, bd, ez, at = strip_bonding_descriptors(s)
        print(repr(s), '->', repr(sm), dict(bd), ez, {k:v for k,v in at.items()})
    except Exception as e:
        print(repr(s), 'EXC', type(e).__name__, e)
for s in ["[$]COC[$]", "C[$]=O", "C=[$]O", "C1[$]CC1", "C1=[$]CC1", "C=1[$]CCC=1", "C%12[$]CC%12", "[$]=CC", "[$]C=C", "[Cl][$]", "Cl[$]", "ClC[$]Br[>]", 
          "C(C[$])[<]", "C(C)[<]", "C([$])C", "[C;x=R][$]", "[C@H][$]C", "[NH3+][$]", "C[$a][$b]", "C=[$a]=[$b]", "C=[$a][$b]", "c1ccccc1[$]", "c1[$]ccccc1",
          "[#A][$][#B][>]", "[#A]1[$][#B][#C]1", "[#A]([#B][$])[#C][<]", "[#A]=[$][#B]", "[#A;q=1][$]", "[#A]|3[$]",
          "C#[$]", "C$[$]", "C.[$]", "C:[$]", "C[$]:c", "[$]#CC", "C/C=C/[$]", "[>]CC(/F)=[<]", "F/C=C/F", "C-[$]", "[Na+].[Cl-][$]", "[13C][$]", "[Se][$]", "[Si][$]", "SiC", "[H][$]", "[H;0.3]C[$]",
          "C[$]1CC1", "C1[$]=CC=1"]:
    show(s)
