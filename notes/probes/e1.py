import networkx as nx, cgsmiles
from cgsmiles import MoleculeResolver, read_cgsmiles
from cgsmiles.write_cgsmiles import *
from cgsmiles.read_fragments import read_fragments, strip_bonding_descriptors

print("=== C11 virtual nodes ===")
for s in ["{[#A][#B].[#V]}.{#A=CC[$],#B=[$]O}",
          "{[#V].[#A][#B]}.{#A=CC[$],#B=[$]O}",
          "{[#A].[#V].[#B]}.{#A=CC[$],#B=[$]O}",
          "{[#A]1.[#V].[#B]1}.{#A=CC[$],#B=[$]O}"]:
    try:
        cg, aa = MoleculeResolver.from_string(s).resolve()
        print(s)
        print("  fine:", [(n, d['element'], d['fragid']) for n, d in aa.nodes(data=True)])
        print("  edges:", list(aa.edges(data='order')))
        for k in cg.nodes:
            print("  coarse", k, cg.nodes[k]['fragname'], sorted(cg.nodes[k].get('graph', nx.Graph()).nodes))
    except Exception as e:
        print(s, "EXC", type(e), e)

print("=== C08 format_bonding ===")
print(format_bonding(['$1', '$2']), format_bonding(['$2','$1']), format_bonding(['>A1','<B3','$0']))
fr = read_fragments("{#A=[$]=[$a]CC[>]#[<]}")
print(fr['A'].nodes(data='bonding'))
print(write_cgsmiles_fragments(fr))

print("=== C07 write/read ===")
g = nx.Graph(); 
for i,n in enumerate("ABCD"): g.add_node(i, fragname=n)
g.add_edge(0,1,order=1); g.add_edge(1,2,order=2); g.add_edge(1,3,order=3)
s = write_cgsmiles_graph(g); print(s)
try:
    h = read_cgsmiles(s); print(list(h.edges(data='order')))
except Exception as e: print("EXC", e)
g = nx.Graph(); 
for i,n in enumerate("ABC"): g.add_node(i, fragname=n)
g.add_edge(0,1,order=1); g.add_edge(1,2,order=1); g.add_edge(0,2,order=2)
s = write_cgsmiles_graph(g); print(s)
h = read_cgsmiles(s); print(list(h.edges(data='order')))
