import time
from z3 import *
S = StringSort(); N = IntSort()
# dict source_nodes: keys Ks: Seq(Int), vals Vs: Array(Int, Seq(String))
Ks, Kt = Consts('Ks Kt', SeqSort(N)); Vs, Vt = Consts('Vs Vt', ArraySort(N, SeqSort(S)))
compat = Function('compat', S, S, BoolSort())   # spec_compatible (callee contract: result == compat(l,r))
i,j,a,b = Ints('i j a b')
i2,j2,a2,b2 = Ints('i2 j2 a2 b2')
def nocompat_upto(i,j,a,b):
    # all tuples lexicographically before (i,j,a,b) are incompatible
    lex = Or(i2<i, And(i2==i, j2<j), And(i2==i, j2==j, a2<a), And(i2==i,j2==j,a2==a,b2<b))
    rng = And(0<=i2, i2<Length(Ks), 0<=j2, j2<Length(Kt), 0<=a2, a2<Length(Vs[Ks[i2]]), 0<=b2, b2<Length(Vt[Kt[j2]]))
    return ForAll([i2,j2,a2,b2], Implies(And(rng, lex), Not(compat(Vs[Ks[i2]][a2], Vt[Kt[j2]][b2]))))
rng = And(0<=i, i<Length(Ks), 0<=j, j<Length(Kt), 0<=a, a<Length(Vs[Ks[i]]), 0<=b, b<Length(Vt[Kt[j]]))
def prove(name, hyp, goal):
    s = Solver(); s.set('timeout', 20000); s.add(hyp, Not(goal)); t=time.time(); r=s.check(); print(name, 'proved' if r==unsat else r, round(time.time()-t,3))
# innermost loop L3 preservation: inv(i,j,a,b) & not compat(cur) => inv(i,j,a,b+1)
prove('L3 preserve', And(rng, nocompat_upto(i,j,a,b), Not(compat(Vs[Ks[i]][a], Vt[Kt[j]][b]))), nocompat_upto(i,j,a,b+1))
# L3 exit => L2 next: inv(i,j,a,len) => inv(i,j,a+1,0)
prove('L3 exit->L2 step', And(0<=i, i<Length(Ks), 0<=j, j<Length(Kt), 0<=a, a<Length(Vs[Ks[i]]), nocompat_upto(i,j,a,Length(Vt[Kt[j]]))), nocompat_upto(i,j,a+1,0))
prove('L2 exit->L1 step', And(0<=i, i<Length(Ks), 0<=j, j<Length(Kt), nocompat_upto(i,j,Length(Vs[Ks[i]]),0)), nocompat_upto(i,j+1,0,0))
prove('L1 exit->L0 step', And(0<=i, i<Length(Ks), nocompat_upto(i,Length(Kt),0,0)), nocompat_upto(i+1,0,0,0))
# raise LookupError post: no pair compatible at all
allno = ForAll([i2,j2,a2,b2], Implies(And(0<=i2, i2<Length(Ks), 0<=j2, j2<Length(Kt), 0<=a2, a2<Length(Vs[Ks[i2]]), 0<=b2, b2<Length(Vt[Kt[j2]])), Not(compat(Vs[Ks[i2]][a2], Vt[Kt[j2]][b2]))))
prove('exit post', nocompat_upto(Length(Ks),0,0,0), allno)
# a mutant: loop skips first bond_target (range starts at 1): L2 body starts inner at b=1 claiming inv(i,j,a,1) from inv(i,j,a,0)
prove('MUTANT skip first', And(rng, nocompat_upto(i,j,a,0)), nocompat_upto(i,j,a,1))
