import networkx as nx, cgsmiles, numpy as np, copy
from cgsmiles import MoleculeResolver
from cgsmiles.rdkit import *
from cgsmiles.coordinates import *
print("== C18")
cg, aa = MoleculeResolver.from_string("{[#A][#B]}.{#A=CC[$],#B=[$]CO}").resolve()
print([ (n, d['element']) for n,d in aa.nodes(data=True)])
m = networkx_to_rdkit(aa)
g2 = rdkit_to_networkx(m)
print('no conformer roundtrip ok:', nx.is_isomorphic(aa, g2, node_match=lambda a,b: a['element']==b['element']))
aa2 = aa.copy()
try:
    embed_3d_via_rdkit(aa2)
    bad = 0
    for u,v in aa2.edges:
        d = np.linalg.norm(aa2.nodes[u]['position']-aa2.nodes[v]['position'])
        if d > 1.8: bad += 1
    print('bonds longer than 1.8 A:', bad, 'of', aa2.number_of_edges())
except Exception as e:
    print('embed EXC', type(e).__name__, e)
# with conformer
from rdkit import Chem
from rdkit.Chem import AllChem
mm = Chem.AddHs(Chem.MolFromSmiles('CCO')); AllChem.EmbedMolecule(mm, randomSeed=1)
try:
    g3 = rdkit_to_networkx(mm); print('with conformer ok', g3.nodes[0])
except Exception as e:
    print('rdkit_to_networkx with conformer EXC', type(e).__name__, e)
# forward map
cg, aa = MoleculeResolver.from_string("{[#A][#B]}.{#A=[C;2]C[$],#B=[$]CO}").resolve()
for n in aa.nodes: aa.nodes[n]['position'] = np.array([float(n), 0., 0.])
forward_map_molecule(cg, aa)
p0 = {k: cg.nodes[k]['position'].copy() for k in cg.nodes}
for n in aa.nodes: aa.nodes[n]['position'] = aa.nodes[n]['position'] + np.array([10., 0, 0])
forward_map_molecule(cg, aa)
for k in cg.nodes: print(k, p0[k], cg.nodes[k]['position'], 'shift', cg.nodes[k]['position']-p0[k], 'weights', nx.get_node_attributes(cg.nodes[k]['graph'],'weight'))
