import networkx as nx, cgsmiles, numpy as np, copy, warnings
from cgsmiles import MoleculeResolver
from cgsmiles.graph_layout import vespr_layout
print("== C19")
def check(g, b=1.0, name=''):
    try:
        pos = vespr_layout(g, default_bond=b)
        ok_n = set(pos)==set(g.nodes)
        fin = all(np.all(np.isfinite(p)) and p.shape==(2,) for p in pos.values())
        d = [np.linalg.norm(pos[u]-pos[v]) for u,v in g.edges]
        print(name, 'nodes ok', ok_n, 'finite', fin, 'min bond', min(d), 'mean', np.mean(d))
    except Exception as e:
        print(name, 'EXC', type(e).__name__, e)
check(nx.path_graph(2), 1.0, 'P2'); check(nx.path_graph(5), 2.0, 'P5'); check(nx.star_graph(4), 0.5, 'star'); check(nx.cycle_graph(6), 1.0, 'C6')
g = nx.relabel_nodes(nx.path_graph(4), {0:'a',1:'b',2:'c',3:'d'}); check(g, 1.0, 'str labels')
g = nx.relabel_nodes(nx.path_graph(4), {0:10,1:3,2:7,3:1}); check(g, 1.0, 'perm labels')
cg, aa = MoleculeResolver.from_string("{[#A][#B]}.{#A=CC(/F)=[$],#B=[$]=C(\\F)C}").resolve()
print(nx.get_node_attributes(aa,'ez_isomer'))
check(aa, 1.0, 'ez mol')
cg, aa = MoleculeResolver.from_string("{[#A]|3}.{#A=[$]CC[$]c1ccccc1}").resolve()
check(aa, 1.5, 'PS3')
check(nx.path_graph(1), 1.0, 'single')
