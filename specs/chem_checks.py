"""
Comparison helpers shared by C01 / C09 / C10 / C11: reduce an all-atom resolver result to its heavy-atom
graph with a hydrogen count per atom, build the expected heavy-atom graph of a G2 molecule from the
independent valence table, compare the two.  `check_valence` (C09's per-atom oracle) lives in
specs/valence.py and is re-exported here.
"""
import networkx as nx
from specs.valence import check_valence, expected_h, heavy_bond_sum  # noqa: F401 (re-export)


def heavy_view(fine):
    """Heavy-atom graph of an all-atom molecule: nodes keep element / charge / fragid / fragname, get
    'nh' = number of hydrogen neighbours; edges keep 'order'.  Returns (graph, problems) where problems lists
    hydrogens that are not bonded to exactly one heavy atom with order 1 (then the reduction would hide something)."""
    h = nx.Graph()
    problems = []
    for n, d in fine.nodes(data=True):
        if d.get('element') != 'H':
            h.add_node(n, element=d.get('element'), charge=_num(d.get('charge', 0)), nh=0,
                       fragid=tuple(d.get('fragid') or ()), fragname=d.get('fragname'), aromatic=bool(d.get('aromatic')))
    for n, d in fine.nodes(data=True):
        if d.get('element') == 'H':
            nbrs = list(fine[n])
            if len(nbrs) != 1 or nbrs[0] not in h or fine.edges[n, nbrs[0]].get('order', 1) != 1:
                problems.append('hydrogen %r has neighbours %r' % (n, [(m, fine.nodes[m].get('element'),
                                                                        fine.edges[n, m].get('order')) for m in nbrs]))
                continue
            h.nodes[nbrs[0]]['nh'] += 1
    for u, v, d in fine.edges(data=True):
        if u in h and v in h:
            h.add_edge(u, v, order=d.get('order', 1))
    return h, problems


def _num(x):
    try:
        f = float(x)
    except (TypeError, ValueError):
        return x
    return int(f) if f == int(f) else f


def expected_heavy(mol):
    """Heavy-atom graph a G2 molecule must resolve to: element, charge, nh from the valence table, bond orders."""
    g = nx.Graph()
    orders = [[] for _ in mol['a']]
    for u, v, o in mol['b']:
        orders[u].append(o)
        orders[v].append(o)
    for i, (el, chg, arom) in enumerate(mol['a']):
        g.add_node(i, element=el, charge=chg, nh=expected_h(el, chg, heavy_bond_sum(orders[i])))
    for u, v, o in mol['b']:
        g.add_edge(u, v, order=o)
    return g


def _nlabel(d, with_h):
    return (d.get('element'), d.get('charge'), d.get('nh') if with_h else None)


def same_heavy(g, h, with_h=True, extra=None):
    """Isomorphism on element, charge, (hydrogen count,) bond order and optional extra node attribute."""
    if g.number_of_nodes() != h.number_of_nodes() or g.number_of_edges() != h.number_of_edges():
        return False

    def lab(x, d):
        return _nlabel(d, with_h) + ((d.get(extra),) if extra else ())
    if sorted(map(repr, (lab(n, d) for n, d in g.nodes(data=True)))) != sorted(map(repr, (lab(n, d) for n, d in h.nodes(data=True)))):
        return False

    def elab(gr, u, v, d):
        return repr((sorted([repr(lab(u, gr.nodes[u])), repr(lab(v, gr.nodes[v]))]), d.get('order')))
    if sorted(elab(g, u, v, d) for u, v, d in g.edges(data=True)) != sorted(elab(h, u, v, d) for u, v, d in h.edges(data=True)):
        return False
    return nx.is_isomorphic(g, h, node_match=lambda a, b: lab(None, a) == lab(None, b),
                            edge_match=lambda a, b: a.get('order') == b.get('order'))


def summary(h):
    """Compact text of a heavy-atom graph for failure details."""
    nodes = ['%s:%s%s%sH%s' % (n, d.get('element'), '' if not d.get('charge') else '%+d' % d['charge'],
                               '', d.get('nh')) for n, d in sorted(h.nodes(data=True), key=lambda x: repr(x[0]))]
    edges = ['%s-%s:%s' % (u, v, d.get('order')) for u, v, d in h.edges(data=True)]
    return ' '.join(nodes) + ' | ' + ' '.join(edges)
