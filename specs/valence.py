"""
Independent valence table for the organic subset, and the per-atom valence / hydrogen checks of
property C09 that are built on it.

Source of the numbers (NOT pysmiles, which derives valences from electron configurations):

* neutral atoms - the OpenSMILES specification, section "Organic subset / implicit hydrogens":
      B 3 | C 4 | N 3 or 5 | O 2 | P 3 or 5 | S 2, 4 or 6 | F, Cl, Br, I 1
  "the implicit hydrogen count is the smallest usual valence that is not smaller than the sum of the
  bond orders, minus that sum".
* charged centres (OpenSMILES gives no implicit-hydrogen rule for bracket atoms; CGsmiles' docs say
  hydrogens are assigned from the valence once the molecule is connected).  The table uses the usual
  Lewis / octet valences of textbook organic chemistry, i.e. those of the isoelectronic neutral
  element restricted to the states that actually occur for the charged centre:
      [N+] 4 (ammonium, iminium, nitro N)      [O+] 3 (oxonium)       [P+] 4 (phosphonium)
      [S+] 3 or 5 (sulfonium, sulfoxonium)     [C+] 3                 [B-] 4 (borate)
      [C-] 3      [N-] 2 (amide anion)         [O-] 1 (alkoxide / carboxylate O)
      [S-] 1 (thiolate)                        [F-] [Cl-] [Br-] [I-] 0 (halide ions)
  Anything else (other elements, higher charges) is NOT in the table: `standard_valences` returns `()`
  and `expected_h` returns None, so that the atom is outside the statement of C09 and never checked.

Aromatic rule (stated, as asked in the task).  In a resolver / pysmiles graph the ring bonds of an
aromatic atom carry order 1.5.  OpenSMILES treats an aromatic atom as having one electron in the ring's
pi system: in every Kekule structure exactly one of the ring bonds of the atom is double and the others
are single.  Hence `k` bonds of order 1.5 on one atom count as `k + 1` towards the valence, which is
floor(1.5 * k) for the two cases that exist (k = 2: ring atom -> 3; k = 3: ring-fusion atom -> 4).
So benzene C: 3 -> one H; substituted ring C: 3 + 1 = 4 -> none; pyridine N: 3 -> none; naphthalene
bridgehead: 4 -> none; [nH+]: 3 of 4 -> one.  (k = 1 cannot occur in a ring and is counted as 1 + 1 = 2,
never reached by the generators.)  `heavy_bond_sum` implements this correction; `expected_h` takes the
corrected sum.
"""

ORGANIC = ('B', 'C', 'N', 'O', 'P', 'S', 'F', 'Cl', 'Br', 'I')

_USUAL = {
    ('B', 0): (3,), ('C', 0): (4,), ('N', 0): (3, 5), ('O', 0): (2,), ('P', 0): (3, 5), ('S', 0): (2, 4, 6),
    ('F', 0): (1,), ('Cl', 0): (1,), ('Br', 0): (1,), ('I', 0): (1,),
    # cations
    ('N', 1): (4,), ('O', 1): (3,), ('P', 1): (4,), ('S', 1): (3, 5), ('C', 1): (3,),
    # anions
    ('B', -1): (4,), ('C', -1): (3,), ('N', -1): (2,), ('O', -1): (1,), ('S', -1): (1,),
    ('F', -1): (0,), ('Cl', -1): (0,), ('Br', -1): (0,), ('I', -1): (0,),
}


def standard_valences(element, charge=0):
    """Usual valences (ascending) of `element` with formal `charge`; () when not in the table."""
    try:
        charge = int(round(float(charge or 0)))
    except (TypeError, ValueError):
        return ()
    return _USUAL.get((element, charge), ())


def heavy_bond_sum(orders):
    """Sum of the bond orders to non-hydrogen neighbours with the aromatic correction of the module docstring.
    Returns an int, or a float when an order is neither integral nor 1.5 (then nothing is claimed)."""
    k = 0
    total = 0
    for o in orders:
        if o == 1.5:
            k += 1
        else:
            total += o
    if k:
        total += k + 1
    if isinstance(total, float) and total == int(total):
        total = int(total)
    return total


def expected_h(element, charge, heavy_sum):
    """Hydrogens needed to reach the smallest usual valence >= heavy_sum (the corrected sum of
    `heavy_bond_sum`).  None = outside C09's statement: element/charge not in the table, a non-integral
    sum, or the heavy bonds already exceed every usual valence."""
    vals = standard_valences(element, charge)
    if not vals or heavy_sum != int(heavy_sum) or heavy_sum < 0:
        return None
    for v in vals:
        if v >= heavy_sum:
            return int(v - heavy_sum)
    return None


def check_valence(mol, explicit_h=(), inherit=('fragid', 'fragname', 'weight'), h_attr_overrides=None):
    """C09 on one all-atom molecule graph (networkx, node attrs element / charge / fragid / fragname /
    weight, edge attr order).  Returns a list of (kind, node, detail) problems, empty when the molecule
    satisfies the property.

    * every hydrogen has exactly one neighbour, bonded with order 1; unless the hydrogen is listed in
      `explicit_h` (hydrogens that were written as fragments / annotated atoms of their own and therefore
      keep their own attributes) it carries its neighbour's `inherit` attributes.  `h_attr_overrides`
      maps a hydrogen node to {attr: value} for attributes that were written explicitly on it.
    * every non-hydrogen atom whose corrected heavy-bond sum fits a usual valence has exactly
      `expected_h` hydrogen neighbours, so that its bond orders add up to that valence.
    Atoms outside the table are skipped (never a problem).
    """
    problems = []
    explicit_h = set(explicit_h)
    h_attr_overrides = h_attr_overrides or {}
    for n, d in mol.nodes(data=True):
        el = d.get('element')
        if el == 'H':
            nbrs = list(mol[n])
            if len(nbrs) != 1:
                problems.append(('h-degree', n, 'hydrogen %r has %d neighbours' % (n, len(nbrs))))
                continue
            a = nbrs[0]
            if mol.edges[n, a].get('order', 1) != 1:
                problems.append(('h-bond-order', n, 'H %r bonded with order %r' % (n, mol.edges[n, a].get('order'))))
            if mol.nodes[a].get('element') == 'H':
                problems.append(('h-h-bond', n, 'H %r bonded to H %r' % (n, a)))
            if n in explicit_h:
                continue
            for attr in inherit:
                want = h_attr_overrides.get(n, {}).get(attr, mol.nodes[a].get(attr))
                if d.get(attr) != want:
                    problems.append(('h-attribute', n, 'H %r has %s=%r, its neighbour %r has %r'
                                     % (n, attr, d.get(attr), a, mol.nodes[a].get(attr))))
            continue
        orders = []
        nh = 0
        for m in mol[n]:
            o = mol.edges[n, m].get('order', 1)
            if mol.nodes[m].get('element') == 'H':
                nh += o
            else:
                orders.append(o)
        hs = heavy_bond_sum(orders)
        want = expected_h(el, d.get('charge', 0), hs)
        if want is None:
            continue
        if nh != want:
            problems.append(('h-count', n, '%s%s (node %r) with heavy-bond sum %s carries %s H, the usual valence %s needs %s'
                             % (el, _chg(d.get('charge', 0)), n, hs, nh,
                                [v for v in standard_valences(el, d.get('charge', 0)) if v >= hs][0], want)))
    return problems


def _chg(c):
    c = int(round(float(c or 0)))
    return '' if c == 0 else ('%+d' % c)
