"""
Independent executable spec pieces for the sampler properties C16 / C17.

Nothing here imports cgsmiles or pysmiles: the atomic-mass table, the usual-valence table and the
structural decomposition of a sampled molecule are written from the property statements.

Reading of "element-derived fragment masses equal the sum of atomic masses including implicit hydrogens"
(C17): the mass of a fragment is the mass of the fragment's SMILES read as a molecule of its own, i.e.
every heavy atom is completed with hydrogens up to its usual valence, the positions of the bonding
descriptors included (`[>]COC[<]` weighs as dimethyl ether C2H6O = 46.07, not as the repeat unit C2H4O).
That is what "implicit hydrogens" of a SMILES fragment are, and it is what `compute_mass` (hydrogen
completion of a copy, then PTE sum) does; the repeat-unit reading would be a different property.
"""
from collections import Counter, defaultdict
import networkx as nx
from networkx.algorithms import isomorphism as iso

ATOMIC_MASS = {'H': 1.008, 'C': 12.011, 'N': 14.007, 'O': 15.999, 'S': 32.06, 'F': 18.998,
               'Cl': 35.45, 'Br': 79.904, 'P': 30.974}
MASS_TOL_PER_ATOM = 0.01

# usual valences of the OpenSMILES organic subset
USUAL_VALENCES = {'B': [3], 'C': [4], 'N': [3, 5], 'O': [2], 'P': [3, 5], 'S': [2, 4, 6],
                  'F': [1], 'Cl': [1], 'Br': [1], 'I': [1]}


def implicit_h(element, bond_sum):
    """Hydrogens completing `element` with bond-order sum `bond_sum` to its smallest usual valence."""
    for v in USUAL_VALENCES[element]:
        if v >= bond_sum - 1e-9:
            return int(round(v - bond_sum))
    return 0


def template_mass(tpl):
    """(mass, atom count incl. hydrogens) of an all-atom template read as a molecule of its own."""
    sums = [0.0] * len(tpl['atoms'])
    for i, j, o in tpl['bonds']:
        sums[i] += o
        sums[j] += o
    mass, n = 0.0, 0
    for el, s in zip(tpl['atoms'], sums):
        h = implicit_h(el, s)
        mass += ATOMIC_MASS[el] + h * ATOMIC_MASS['H']
        n += 1 + h
    return mass, n


# ----------------------------------------------------------------------------------------------------
# decomposition of a sampled molecule
# ----------------------------------------------------------------------------------------------------
class Decomposition:
    """copies: {fragid: [nodes]}, bonds: [dict(site, partner, s, p, order, new, old)], problems: [(kind, detail)]"""

    def __init__(self, mol):
        self.mol = mol
        self.problems = []
        self.fid = {}
        self.copies = defaultdict(list)
        self.bonds = []
        for n, d in mol.nodes(data=True):
            f = d.get('fragid')
            if not (isinstance(f, list) and len(f) == 1 and isinstance(f[0], int) and not isinstance(f[0], bool)):
                self.problems.append(('membership', 'node %r has fragid %r (expected a one-element list)' % (n, f)))
                continue
            self.fid[n] = f[0]
            self.copies[f[0]].append(n)
        if self.problems:
            return
        for u, v, d in mol.edges(data=True):
            fu, fv = self.fid[u], self.fid[v]
            b = d.get('bonding')
            if b is None:
                if fu != fv:
                    self.problems.append(('attachment', 'edge %r-%r joins copies %d and %d without a bonding record' % (u, v, fu, fv)))
                continue
            if fu == fv:
                self.problems.append(('attachment', 'bonding edge %r-%r lies inside copy %d' % (u, v, fu)))
                continue
            if not (isinstance(b, (tuple, list)) and len(b) == 2 and all(isinstance(x, str) and x for x in b)):
                self.problems.append(('attachment', 'edge %r-%r has bonding record %r' % (u, v, b)))
                continue
            site, partner = (u, v) if fu < fv else (v, u)
            self.bonds.append({'site': site, 'partner': partner, 's': b[0], 'p': b[1], 'order': d.get('order'),
                               'new': max(fu, fv), 'old': min(fu, fv)})
        self.bonds.sort(key=lambda e: e['new'])

    def consumed(self):
        """{node: [descriptors consumed on bonds at that node]}, {node: [bonds where the node is the growth site]}"""
        used = defaultdict(list)
        as_site = defaultdict(list)
        for e in self.bonds:
            used[e['site']].append(e['s'])
            used[e['partner']].append(e['p'])
            as_site[e['site']].append(e)
        return used, as_site

    def copy_name(self, f):
        names = {self.mol.nodes[n].get('fragname') for n in self.copies[f]}
        return names.pop() if len(names) == 1 else None


def template_graph(tpl):
    g = nx.Graph()
    for i, a in enumerate(tpl['atoms']):
        g.add_node(i, sym=a)
    for i, j, o in tpl['bonds']:
        g.add_edge(i, j, order=o)
    return g


def match_copy(mol, nodes, tpl, sym_attr, atom_ok):
    """Is the subgraph on `nodes` isomorphic to the template (symbols, bond orders) by a mapping under which
    `atom_ok(node, template descriptors of its image)` holds everywhere?

    Aromatic template bonds (order 1.5) may come back in aromatic or in Kekule form (pysmiles decides that, it is
    not CGsmiles' choice): such an edge matches order 1, 1.5 or 2, and every atom on aromatic template bonds
    must keep a ring bond-order sum of 3 (1.5 + 1.5 or 1 + 2) — a ring that lost a double bond is a different molecule.

    -> 'ok' | 'no-iso' | 'dearomatised' | 'accounting'"""
    sub = mol.subgraph(nodes)
    tg = template_graph(tpl)
    if sub.number_of_nodes() != tg.number_of_nodes() or sub.number_of_edges() != tg.number_of_edges():
        return 'no-iso'

    def nm(a, b):
        return a.get(sym_attr) == b['sym']

    def em(a, b):
        o = a.get('order')
        if not isinstance(o, (int, float)):
            return False
        if b['order'] == 1.5:
            return o in (1, 1.5, 2)
        return abs(o - b['order']) < 1e-9
    arom_edges = [(i, j) for i, j, o in tpl['bonds'] if o == 1.5]
    gm = iso.GraphMatcher(sub, tg, node_match=nm, edge_match=em)
    best = 'no-iso'
    rank = {'no-iso': 0, 'dearomatised': 1, 'accounting': 2}
    for mapping in gm.isomorphisms_iter():
        res = 'ok'
        if arom_edges:
            inv = {t: n for n, t in mapping.items()}
            ring_sum = defaultdict(float)
            for i, j in arom_edges:
                o = sub.edges[inv[i], inv[j]]['order']
                ring_sum[i] += o
                ring_sum[j] += o
            if any(abs(v - 3) > 1e-9 for v in ring_sum.values()):
                res = 'dearomatised'
        if res == 'ok' and not all(atom_ok(n, tpl['desc'][t]) for n, t in mapping.items()):
            res = 'accounting'
        if res == 'ok':
            return 'ok'
        if rank[res] > rank[best]:
            best = res
    return best


def sub_multiset(a, b):
    ca, cb = Counter(a), Counter(b)
    return all(cb[k] >= v for k, v in ca.items())


def check_valence_local(mol):
    """Conservative valence completeness of an all-atom sample: every heavy atom of C N O S P F Cl Br has a
    bond-order sum equal to the smallest usual valence that accommodates its bonds to heavy atoms; every H has
    degree 1, a heavy neighbour, and that neighbour's fragid / fragname / weight.  -> [(kind, detail)]"""
    out = []
    for n, d in mol.nodes(data=True):
        el = d.get('element')
        if el == 'H':
            nb = list(mol.neighbors(n))
            if len(nb) != 1:
                out.append(('valence', 'hydrogen %r has degree %d' % (n, len(nb))))
                continue
            a = mol.nodes[nb[0]]
            if a.get('element') == 'H':
                out.append(('valence', 'hydrogen %r bonded to hydrogen %r' % (n, nb[0])))
            for attr in ('fragid', 'fragname', 'weight'):
                if d.get(attr) != a.get(attr):
                    out.append(('hydrogen-attrs', 'hydrogen %r has %s=%r, its neighbour %r has %r' % (n, attr, d.get(attr), nb[0], a.get(attr))))
            continue
        if el not in USUAL_VALENCES:
            out.append(('valence', 'node %r has element %r' % (n, el)))
            continue
        total = heavy = 0.0
        for m in mol.neighbors(n):
            o = mol.edges[n, m].get('order')
            if not isinstance(o, (int, float)):
                out.append(('valence', 'edge %r-%r has order %r' % (n, m, o)))
                o = 0
            total += o
            if mol.nodes[m].get('element') != 'H':
                heavy += o
        want = [v for v in USUAL_VALENCES[el] if v >= heavy - 1e-9]
        if not want or abs(total - want[0]) > 1e-9:
            out.append(('valence', '%s atom %r: bond-order sum %s (to heavy atoms %s), usual valences %s' % (el, n, total, heavy, USUAL_VALENCES[el])))
    return out
