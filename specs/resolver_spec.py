"""
Executable specification of what one resolution step of `MoleculeResolver` must return (properties C02, C03,
C06, C12).  Written from the property statements, not from the resolver: every function takes the RETURNED
graphs (coarse, fine), the fragment templates as read by `cgsmiles.read_fragments` (trusted here: reading the
fragment text is property C13 / C08) and facts known by construction, and returns a list of
`(clause, detail)` violations.  Nothing here calls the resolver.
"""
import json
import networkx as nx

# attributes of a template node that are bookkeeping of the readers / the resolver, not annotations of the atom
NOT_ANNOTATIONS = {'fragid', 'hcount', 'bonding', 'mapping', 'ez_isomer_class', 'ez_isomer_atoms', 'ez_isomer',
                   'aromatic', '_atom_str', '_pos', 'single_h_frag', 'graph', 'contraction'}


# ------------------------------------------------------------------------------------------- descriptors
def spec_compatible(a, b, legacy):
    """Property C03: '$' with '$' and '!' with '!' of identical label, '>' with '<' of identical label, equal
    annotated order; label-insensitive convention: only the symbol kind counts."""
    ka, kb = a[0], b[0]
    directed = (ka, kb) in (('<', '>'), ('>', '<'))
    same_kind = ka == kb and ka in '$!'
    if legacy:
        return (same_kind and a == b) or (directed and a[1:] == b[1:])
    return same_kind or directed


def _eq(a, b, tol=1e-9):
    num = (int, float)
    if isinstance(a, num) and isinstance(b, num) and not isinstance(a, bool) and not isinstance(b, bool):
        return abs(a - b) <= tol
    return a == b


def _short(x, n=300):
    s = x if isinstance(x, str) else json.dumps(x, default=str)
    return s if len(s) <= n else s[:n] + '...'


# ------------------------------------------------------------------------------------------- membership (C02 a)
def members(fine, k):
    return [n for n in fine.nodes if k in (fine.nodes[n].get('fragid') or [])]


def check_membership(coarse, fine, shared_atoms=False):
    """Each fine node records the coarse node(s) it stems from; each coarse node carries exactly the fine nodes
    that record it; the sets cover the fine graph (and are disjoint when the input has no shared atoms)."""
    out = []
    ckeys = set(coarse.nodes)
    for n in fine.nodes:
        fid = fine.nodes[n].get('fragid')
        if not isinstance(fid, list) or not fid:
            out.append(('fragid-missing', 'fine node %r has fragid %r' % (n, fid)))
            continue
        if any(k not in ckeys for k in fid):
            out.append(('fragid-not-a-coarse-node', 'fine node %r has fragid %r, coarse nodes are %s' % (n, fid, sorted(ckeys, key=repr))))
        if not shared_atoms and len(fid) != 1:
            out.append(('fragid-not-single', 'fine node %r has fragid %r although no atom is shared' % (n, fid)))
    for k in coarse.nodes:
        g = coarse.nodes[k].get('graph')
        want = set(members(fine, k))
        if g is None:
            if want:
                out.append(('coarse-graph-missing', 'coarse node %r has no graph but fine nodes %s record it' % (k, sorted(want))))
            continue
        got = set(g.nodes)
        if got != want:
            out.append(('coarse-graph-members', 'coarse node %r (%s): graph has %s, fine nodes recording it: %s' % (
                k, coarse.nodes[k].get('fragname'), sorted(got), sorted(want))))
        else:
            # the membership graph is the subgraph of the fine graph: same nodes with the same attributes, induced edges
            diff = [n for n in want if dict(g.nodes[n]) != dict(fine.nodes[n])]
            if shared_atoms:
                # an atom shared by several coarse nodes is named once per coarse node at the all-atom level (element +
                # running index within that node, C12): its 'atomname' in one membership graph need not be the one the fine
                # graph ends up with
                diff = [n for n in diff if len(fine.nodes[n].get('fragid') or []) < 2
                        or {k: v for k, v in g.nodes[n].items() if k != 'atomname'} != {k: v for k, v in fine.nodes[n].items() if k != 'atomname'}]
            if diff:
                n = diff[0]
                out.append(('coarse-graph-node-attributes', 'coarse node %r: graph node %r has %s, the fine node has %s' % (
                    k, n, _short(dict(g.nodes[n])), _short(dict(fine.nodes[n])))))
            induced = {frozenset(e) for e in fine.subgraph(want).edges}
            if {frozenset(e) for e in g.edges} != induced:
                out.append(('coarse-graph-edges', 'coarse node %r: graph edges %s, induced fine edges %s' % (
                    k, sorted(map(sorted, g.edges)), sorted(map(sorted, induced)))))
    return out


# ------------------------------------------------------------------------------------------- shared atoms (C02 a, by construction)
def check_shared(coarse, fine, expect, names, all_atom):
    """Inputs with shared atoms (`!`) whose fine graph is known by construction (gen.gr_resolver_inputs.shared_cases):
    expect = {'atoms': [{'name', 'members': [coarse keys], 'origin': [[coarse key, template atom], ...]}],
    'bonds': [[i, j, order]]}, names = {coarse key: fragment name}.  There must be an isomorphism between the heavy fine
    graph and the expected graph (element / atomname, bond orders) under which every atom records exactly the coarse
    nodes whose fragment contains it (each once), and - the resolver's own 'mapping' record - exactly the template atoms
    it stems from.  Completed hydrogens carry the membership of the atom they sit on; an atom that belongs to one
    coarse node reports that node's fragment name, a shared atom the name of one of its coarse nodes."""
    out = []
    attr = 'element' if all_atom else 'atomname'
    heavy = [n for n in fine.nodes if not (all_atom and fine.nodes[n].get('element') == 'H')]
    E = nx.Graph()
    for i, a in enumerate(expect['atoms']):
        E.add_node(i, name=a['name'], members=sorted(a['members']), origin=sorted((names[k], t) for k, t in a['origin']))
    for u, v, o in expect['bonds']:
        E.add_edge(u, v, order=o)
    H = fine.subgraph(heavy)

    def fid(b):
        f = b.get('fragid')
        try:
            return sorted(f) if isinstance(f, list) else None
        except TypeError:
            return None

    def mapped(b):
        m = b.get('mapping')
        try:
            return sorted((x[0], x[1]) for x in m) if isinstance(m, list) else None
        except (TypeError, IndexError, KeyError):
            return None

    def em(a, b):
        return _eq(a.get('order'), b.get('order'))
    seen = _short([(n, fine.nodes[n].get(attr), fine.nodes[n].get('fragid'), fine.nodes[n].get('mapping')) for n in heavy], 700)
    want = _short([(a['name'], a['members'], [(names[k], t) for k, t in a['origin']]) for a in expect['atoms']], 700)
    same_size = H.number_of_nodes() == E.number_of_nodes() and H.number_of_edges() == E.number_of_edges()
    if not (same_size and nx.is_isomorphic(E, H, node_match=lambda a, b: a['name'] == b.get(attr), edge_match=em)):
        out.append(('shared-structure', 'heavy fine graph (%d nodes, %d edges) %s edges %s is not the molecule the fragments describe '
                    '(%d atoms, bonds %s)' % (H.number_of_nodes(), H.number_of_edges(), seen,
                                              _short(sorted((min(u, v), max(u, v), d.get('order')) for u, v, d in H.edges(data=True))),
                                              E.number_of_nodes(), _short(expect['bonds']))))
        return out
    if not nx.is_isomorphic(E, H, node_match=lambda a, b: a['name'] == b.get(attr) and a['members'] == fid(b), edge_match=em):
        out.append(('shared-membership', 'no isomorphism under which every atom records exactly the coarse nodes whose fragment '
                    'contains it: fine (node, name, fragid, mapping) %s; by construction (name, coarse nodes, template atoms) %s' % (seen, want)))
    elif not nx.is_isomorphic(E, H, node_match=lambda a, b: a['name'] == b.get(attr) and a['members'] == fid(b)
                              and a['origin'] == mapped(b), edge_match=em):
        out.append(('shared-mapping', 'memberships are right but the mapping records are not the template atoms the atoms stem '
                    'from: fine (node, name, fragid, mapping) %s; by construction %s' % (seen, want)))
    for n in fine.nodes:
        d = fine.nodes[n]
        f = fid(d)
        if n in H:
            if f and not any(d.get('fragname') == names.get(k) for k in f):
                out.append(('fragname', 'fine node %r belongs to coarse nodes %s (%s) but reports fragname %r' % (
                    n, f, [names.get(k) for k in f], d.get('fragname'))))
                break
            continue
        nb = list(fine.neighbors(n))
        if len(nb) != 1:
            out.append(('completed-node-not-a-hydrogen', 'hydrogen %r has %d neighbours' % (n, len(nb))))
        elif f is None or f != fid(fine.nodes[nb[0]]):
            out.append(('shared-hydrogen-membership', 'hydrogen %r records %r, the atom %r it sits on records %r' % (
                n, d.get('fragid'), nb[0], fine.nodes[nb[0]].get('fragid'))))
            break
    return out


# ------------------------------------------------------------------------------------------- copies (C02 b)
def heavy_nodes(fine, nodes, template, all_atom):
    """The non-completed nodes among `nodes`: everything that is not a hydrogen, plus as many hydrogens as the
    template itself contains (those the resolver marks with a 'mapping'; verified by the isomorphism below)."""
    if not all_atom:
        return list(nodes)
    n_h = sum(1 for t in template.nodes if template.nodes[t].get('element') == 'H')
    heavy = [n for n in nodes if fine.nodes[n].get('element') != 'H']
    if n_h:
        hs = [n for n in nodes if fine.nodes[n].get('element') == 'H' and fine.nodes[n].get('mapping')]
        heavy += hs
    return heavy


def check_copies(coarse, fine, templates, all_atom, names=None):
    """The heavy nodes of one coarse node form a copy of the fragment defined under that node's name."""
    out = []
    name_attr = 'element' if all_atom else 'atomname'
    for k in coarse.nodes:
        fname = names[k] if names is not None else coarse.nodes[k].get('fragname')
        mem = members(fine, k)
        if fname not in templates:
            if mem:
                out.append(('virtual-node-owns-atoms', 'coarse node %r (#%s) has no fragment but fine nodes %s record it' % (k, fname, mem)))
            continue
        T = templates[fname]
        for n in mem:
            if fine.nodes[n].get('fragname') != fname:
                out.append(('fragname', 'fine node %r of coarse node %r (#%s) reports fragname %r' % (n, k, fname, fine.nodes[n].get('fragname'))))
                break
        heavy = heavy_nodes(fine, mem, T, all_atom)
        if all_atom:
            extra = [n for n in mem if n not in set(heavy)]
            bad = [n for n in extra if fine.nodes[n].get('element') != 'H' or fine.degree(n) != 1]
            if bad:
                out.append(('completed-node-not-a-hydrogen', 'coarse node %r: nodes %s are neither template atoms nor terminal hydrogens' % (k, bad)))
        if len(heavy) != T.number_of_nodes():
            out.append(('copy-size', 'coarse node %r (#%s): %d heavy nodes %s, template has %d' % (
                k, fname, len(heavy), [(n, fine.nodes[n].get(name_attr)) for n in heavy], T.number_of_nodes())))
            continue
        keys = {t: sorted(set(T.nodes[t]) - NOT_ANNOTATIONS - ({'atomname'} if all_atom else set())) for t in T.nodes}

        def node_ok(t, n):
            a, b = T.nodes[t], fine.nodes[n]
            return all(key in b and _eq(a[key], b[key]) for key in keys[t])
        sub = fine.subgraph(heavy)
        # first the resolver's own record, which must be an isomorphism onto the template
        mp, ok_map = {}, True
        for n in heavy:
            m = fine.nodes[n].get('mapping')
            if not (isinstance(m, list) and len(m) == 1 and m[0][0] == fname and m[0][1] in T.nodes and m[0][1] not in mp):
                ok_map = False
                break
            mp[m[0][1]] = n
        iso = False
        if not ok_map:
            out.append(('mapping-attribute', 'coarse node %r (#%s): the heavy nodes do not each record one distinct template node: %s' % (
                k, fname, _short([(n, fine.nodes[n].get('mapping')) for n in heavy]))))
        if ok_map:
            iso = (all(node_ok(t, n) for t, n in mp.items())
                   and all(sub.has_edge(mp[a], mp[b]) and _eq(sub.edges[mp[a], mp[b]].get('order'), T.edges[a, b].get('order'))
                           for a, b in T.edges)
                   and sub.number_of_edges() == T.number_of_edges())
            if not iso:
                out.append(('mapping-attribute', 'coarse node %r (#%s): the recorded mapping %s is not an isomorphism onto the template' % (
                    k, fname, sorted(mp.items()))))
        if not iso:
            iso = nx.is_isomorphic(T, sub, node_match=lambda a, b: all(
                key in b and _eq(a[key], b[key]) for key in set(a) - NOT_ANNOTATIONS - ({'atomname'} if all_atom else set())),
                edge_match=lambda a, b: _eq(a.get('order'), b.get('order')))
            if not iso:
                out.append(('copy-not-isomorphic', 'coarse node %r (#%s): heavy nodes %s edges %s vs template nodes %s edges %s' % (
                    k, fname, _short([(n, {q: fine.nodes[n].get(q) for q in ('element', 'atomname', 'charge', 'weight', 'chiral')}) for n in heavy]),
                    _short(sorted((min(a, b), max(a, b), d.get('order')) for a, b, d in sub.edges(data=True))),
                    _short([(t, {q: T.nodes[t].get(q) for q in keys[t]}) for t in T.nodes]),
                    _short(sorted((min(a, b), max(a, b), d.get('order')) for a, b, d in T.edges(data=True))))))
    return out


# ------------------------------------------------------------------------------------------- bonds (C03)
def template_descriptors(template):
    """[(template atom, descriptor), ...] in template order; [] for a node without fragment."""
    if template is None:
        return []
    return [(t, d) for t in template.nodes for d in (template.nodes[t].get('bonding') or [])]


def spec_exact_counts(base, desc, legacy):
    """For which base-graph edges is the number of inter-fragment bonds determined by the statement
    ('exactly that many whenever the fragments were written with a dedicated compatible descriptor pair per unit
    of order')?  desc: {coarse node: [(template atom, descriptor), ...]}.  Two sufficient conditions, both
    independent of the order in which pairs are searched:

    (H) all descriptors in a connected part of the base graph are mutually compatible '$' descriptors and every
        copy carries at least as many as its weighted degree: every unit of order can get its own pair, whatever
        is picked first  ->  `order` pairs are used on every edge of that part;
    (X) the descriptors of p that are compatible with some descriptor of q are compatible with no descriptor of
        any other neighbour of p (and vice versa): they are dedicated to this edge.  The compatibility relation
        between two descriptor lists is a disjoint union of complete bipartite blocks, so ANY maximal sequence of
        picks has the same length M = sum over blocks of min(size left, size right) -> min(order, M) pairs are used.
    Used pairs are distinct BONDS only if no two of them join the same two atoms (a molecule has at most one bond
    per atom pair); this is guaranteed when, on one side of the edge, the descriptors in question sit on pairwise
    different atoms - a claim is made only then.
    Returns {frozenset((p, q)): count}; edges not listed are only bounded by their order."""
    res = {}

    def spread(pairs):
        atoms = [t for t, _ in pairs]
        return len(set(atoms)) == len(atoms)
    real = [(u, v, o) for u, v, o in base.edges(data='order') if o and o >= 1]
    g1 = nx.Graph()
    g1.add_nodes_from(base.nodes)
    g1.add_edges_from((u, v) for u, v, _ in real)
    for comp in nx.connected_components(g1):
        ds = [d for n in comp for _, d in desc.get(n, [])]
        if not ds or any(d[0] != '$' for d in ds):
            continue
        if legacy and len(set(ds)) > 1:
            continue
        wdeg = {n: sum(o for _, _, o in base.edges(n, data='order') if o) for n in comp}
        if all(len(desc.get(n, [])) >= wdeg[n] for n in comp):
            for u, v, o in real:
                if u in comp and (spread(desc.get(u, [])) or spread(desc.get(v, []))):
                    res[frozenset((u, v))] = o
    for u, v, o in real:
        key = frozenset((u, v))
        if key in res:
            continue
        du, dv = desc.get(u, []), desc.get(v, [])
        eu = [i for i, (_, d) in enumerate(du) if any(spec_compatible(d, e, legacy) for _, e in dv)]
        ev = [j for j, (_, e) in enumerate(dv) if any(spec_compatible(d, e, legacy) for _, d in du)]

        def exclusive(p, other, idxs, dl):
            for w in base.neighbors(p):
                if w == other or not base.edges[p, w].get('order'):
                    continue
                for i in idxs:
                    if any(spec_compatible(dl[i][1], e, legacy) for _, e in desc.get(w, [])):
                        return False
            return True
        if not (exclusive(u, v, eu, du) and exclusive(v, u, ev, dv)):
            continue
        if not (spread([du[i] for i in eu]) or spread([dv[j] for j in ev])):
            continue
        blocks = {}
        for i in eu:
            nb = frozenset(j for j in ev if spec_compatible(du[i][1], dv[j][1], legacy))
            blocks[nb] = blocks.get(nb, 0) + 1
        sets = list(blocks)
        if any(a & b for x, a in enumerate(sets) for b in sets[x + 1:]):
            continue      # not a union of complete bipartite blocks: no claim
        res[key] = min(o, sum(min(cnt, len(nb)) for nb, cnt in blocks.items()))
    return res


def in_aromatic_ring(fine, u, v):
    """The bond u-v is part of a ring made of aromatic atoms only."""
    if not (fine.nodes[u].get('aromatic') and fine.nodes[v].get('aromatic')):
        return False
    arom = [n for n in fine.nodes if fine.nodes[n].get('aromatic')]
    h = nx.Graph(fine.subgraph(arom).edges)
    if not h.has_edge(u, v):
        return False
    h.remove_edge(u, v)
    return nx.has_path(h, u, v)


def template_atom(fine, n):
    m = fine.nodes[n].get('mapping')
    if isinstance(m, list) and len(m) == 1:
        return m[0]
    return None


def check_bonds(base, fine, templates, legacy, all_atom, names=None, planned=None):
    """All clauses of C03 on one resolution step.  base: the graph whose edges the bonds must follow (intended
    base graph, or the coarse graph of the step), names: {coarse node: fragment name} (default: base fragname)."""
    out = []
    if names is None:
        names = {k: base.nodes[k].get('fragname') for k in base.nodes}
    desc = {k: template_descriptors(templates.get(names[k])) for k in base.nodes}
    per_edge = {}
    bonding_edges = []
    for u, v, d in fine.edges(data=True):
        fu, fv = fine.nodes[u].get('fragid') or [None], fine.nodes[v].get('fragid') or [None]
        cu, cv = fu[0], fv[0]
        if cu == cv:
            continue
        if 'bonding' not in d:
            out.append(('inter-fragment-bond-without-bonding', 'fine edge %r-%r joins coarse nodes %r and %r but has no bonding record' % (u, v, cu, cv)))
            continue
        bonding_edges.append((u, v, d))
        if not base.has_edge(cu, cv):
            out.append(('bond-across-non-edge', 'fine edge %r-%r joins coarse nodes %r and %r which are not adjacent in the base graph' % (u, v, cu, cv)))
            continue
        per_edge.setdefault(frozenset((cu, cv)), []).append((u, v))
    for key, lst in per_edge.items():
        p, q = tuple(key)
        o = base.edges[p, q].get('order')
        if len(lst) > o:
            out.append(('more-bonds-than-order', 'base edge %r-%r has order %r but %d inter-fragment bonds %s' % (p, q, o, len(lst), lst)))
    exact = spec_exact_counts(base, desc, legacy)
    for key, cnt in exact.items():
        got = len(per_edge.get(key, []))
        if got != cnt:
            p, q = tuple(key)
            out.append(('bond-count', 'base edge %r-%r (order %r, #%s %s / #%s %s): %d bonds, dedicated pairs determine %d' % (
                p, q, base.edges[p, q].get('order'), names[p], [d for _, d in desc[p]], names[q], [d for _, d in desc[q]], got, cnt)))
    # descriptor rules per bond
    use = []           # (u, v, b0, b1, feasible orientations)
    for u, v, d in bonding_edges:
        b = d['bonding']
        if not (isinstance(b, (tuple, list)) and len(b) == 2 and all(isinstance(x, str) and x for x in b)):
            out.append(('bonding-record-malformed', 'fine edge %r-%r: bonding=%r' % (u, v, b)))
            continue
        b0, b1 = b
        if not spec_compatible(b0, b1, legacy):
            out.append(('incompatible-pair', 'fine edge %r-%r was formed by %r and %r (legacy=%s)' % (u, v, b0, b1, legacy)))
        tu, tv = template_atom(fine, u), template_atom(fine, v)
        if tu is None or tv is None or tu[0] not in templates or tv[0] not in templates \
                or tu[1] not in templates[tu[0]].nodes or tv[1] not in templates[tv[0]].nodes:
            out.append(('endpoint-without-template-atom', 'fine edge %r-%r: mapping %r / %r' % (u, v, tu, tv)))
            continue
        du = templates[tu[0]].nodes[tu[1]].get('bonding') or []
        dv = templates[tv[0]].nodes[tv[1]].get('bonding') or []
        orient = []
        if b0 in du and b1 in dv:
            orient.append((b0, b1))
        if b1 in du and b0 in dv:
            orient.append((b1, b0))
        if not orient:
            out.append(('descriptor-not-on-atom', 'fine edge %r-%r recorded %r: template atoms %r carry %s, %r carry %s' % (u, v, b, tu, du, tv, dv)))
            continue
        use.append((u, v, orient, du, dv))
        # bond order
        annotated = {int(x[-1]) for x in (b0, b1) if x[-1].isdigit()}
        got = d.get('order')
        if all_atom and in_aromatic_ring(fine, u, v):
            if not _eq(got, 1.5):
                out.append(('aromatic-bond-order', 'fine edge %r-%r lies in an aromatic ring but has order %r' % (u, v, got)))
        elif not any(_eq(got, a) for a in annotated):
            out.append(('bond-order', 'fine edge %r-%r formed by %r has order %r' % (u, v, b, got)))
    # no written descriptor used for more than one bond: search an orientation of every record
    avail = {}
    for u, v, orient, du, dv in use:
        avail.setdefault(u, list(du))
        avail.setdefault(v, list(dv))

    def place(i, left):
        if i == len(use):
            return True
        u, v, orient, _, _ = use[i]
        for xu, xv in dict.fromkeys(orient):
            if xu in left[u] and xv in left[v]:
                left[u].remove(xu)
                left[v].remove(xv)
                if place(i + 1, left):
                    return True
                left[u].append(xu)
                left[v].append(xv)
        return False
    if use and not place(0, {n: list(l) for n, l in avail.items()}):
        out.append(('descriptor-used-twice', 'the bonding records %s cannot be assigned to distinct written descriptors %s' % (
            _short([(u, v, o) for u, v, o, _, _ in use]), _short({str(n): l for n, l in avail.items()}))))
    # bonds known by construction
    if planned is not None:
        index = {}
        for n in fine.nodes:
            fid, t = fine.nodes[n].get('fragid'), template_atom(fine, n)
            if fid and t is not None:
                index[(fid[0], t[1])] = n
        for p, q, tp, tq, border in planned:
            a, b = index.get((p, tp)), index.get((q, tq))
            if a is None or b is None or not fine.has_edge(a, b) or 'bonding' not in fine.edges[a, b]:
                out.append(('planned-bond-missing', 'no bond between template atom %r of coarse node %r and template atom %r of coarse node %r' % (tp, p, tq, q)))
            elif not _eq(fine.edges[a, b].get('order'), border) and not (all_atom and in_aromatic_ring(fine, a, b)):
                out.append(('planned-bond-order', 'bond %r-%r has order %r, written %r' % (a, b, fine.edges[a, b].get('order'), border)))
        if len(bonding_edges) != len(planned):
            out.append(('planned-bond-total', '%d inter-fragment bonds, %d written pairs' % (len(bonding_edges), len(planned))))
    return out


# ------------------------------------------------------------------------------------------- numbering (C12)
def check_numbering(coarse, fine, all_atom):
    """Keys 0..n-1; the atoms of each coarse node form one contiguous block of KEYS, blocks in ascending coarse-key
    order; all-atom: atomname = element + running index, unique within each coarse node."""
    out = []
    n = fine.number_of_nodes()
    if set(fine.nodes) != set(range(n)):
        out.append(('keys-not-0..n-1', 'node keys %s' % _short(sorted(fine.nodes, key=repr))))
        return out
    nxt = 0
    for k in sorted(coarse.nodes):
        mem = sorted(members(fine, k))
        if not mem:
            continue
        if mem != list(range(nxt, nxt + len(mem))):
            out.append(('block-not-contiguous', 'coarse node %r owns keys %s, expected the block starting at %d' % (k, mem, nxt)))
            return out
        nxt += len(mem)
        if all_atom:
            idxs = []
            for m in mem:
                el, an = fine.nodes[m].get('element'), fine.nodes[m].get('atomname')
                if not (isinstance(an, str) and isinstance(el, str) and an.startswith(el) and an[len(el):].isdigit()):
                    out.append(('atomname-not-element-index', 'node %r: element %r atomname %r' % (m, el, an)))
                    break
                idxs.append(int(an[len(el):]))
            else:
                names = [fine.nodes[m]['atomname'] for m in mem]
                if len(set(names)) != len(names):
                    out.append(('atomname-not-unique', 'coarse node %r: %s' % (k, names)))
                elif idxs != list(range(min(idxs), min(idxs) + len(idxs))):
                    # "running index": it runs along the atoms of the coarse node in the order of their keys
                    out.append(('atomname-index-not-running', 'coarse node %r: %s' % (k, names)))
    return out


# ------------------------------------------------------------------------------------------- dumps
def pair_dump(coarse, fine):
    """Canonical text of a (coarse, fine) pair incl. the membership graphs (node lists and edges)."""
    from vf.util import canonical_dump
    mem = [[repr(k), sorted(map(repr, coarse.nodes[k]['graph'].nodes)) if coarse.nodes[k].get('graph') is not None else None,
            sorted(sorted(map(repr, e)) for e in coarse.nodes[k]['graph'].edges) if coarse.nodes[k].get('graph') is not None else None]
           for k in coarse.nodes]
    return json.dumps({'coarse': canonical_dump(coarse), 'fine': canonical_dump(fine), 'members': mem})
