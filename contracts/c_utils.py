"""Contracts for cgsmiles/cgsmiles_utils.py and the pure helpers of cgsmiles/sample.py."""
import itertools
from pyvc.contract import contract, Loop

_DESCR = ['$1', '$A1', '$A2', '$B1', '>1', '<1', '>A1', '<A1', '>A2', '<B2', '!1', '$2']


def _ex_compl():
    import random
    rng = random.Random(3)
    for b in _DESCR:
        yield {'bonding_descriptor': b, 'ellegible_descriptors': []}
        for n in (1, 2, 3, 5):
            for _ in range(25):
                yield {'bonding_descriptor': b, 'ellegible_descriptors': [rng.choice(_DESCR) for _ in range(n)]}


contract(
    target='cgsmiles.cgsmiles_utils:find_complementary_bonding_descriptor', serves=['C16', 'C17'],
    types={'bonding_descriptor': 'Str', 'ellegible_descriptors': 'List[Str]'}, returns='List[Str]',
    locals={'compl': 'List[Str]'},
    requires=["is_descriptor(bonding_descriptor)", "all(is_descriptor(d) for d in ellegible_descriptors)"],
    ensures=[
        # every returned descriptor is eligible and complementary ('$..o' <-> '$..o', '<Lo' <-> '>Lo')
        "all(member(c, ellegible_descriptors) and complementary(bonding_descriptor, c) for c in result)",
        # '$': ALL eligible complements are returned (labels only steer probabilities), in list order
        "implies(bonding_descriptor[0] == '$' and len(ellegible_descriptors) > 0, "
        "all(implies(complementary(bonding_descriptor, d), member(d, result)) for d in ellegible_descriptors))",
        "implies(bonding_descriptor[0] != '$', len(result) == 1)",
    ],
    raises={'OSError': {'iff': True, 'when':
            "(bonding_descriptor[0] != '$' or len(ellegible_descriptors) == 0) and "
            "not any(complementary(bonding_descriptor, d) for d in ellegible_descriptors)"}},
    loops={0: Loop(over='ellegible_descriptors', invariant=[
        "all(member(c, ellegible_descriptors) and complementary(bonding_descriptor, c) for c in compl)",
        "all(implies(complementary(bonding_descriptor, ellegible_descriptors[k]), member(ellegible_descriptors[k], compl)) "
        "for k in range(_i0))"],
        hints=["complementary(bonding_descriptor, descriptor)"])},
    opaque=['complementary', 'is_descriptor'],
    examples=_ex_compl,
)


def _ex_defaults_list():
    pool = ['$', '$A', '$A1', '>', '<B2', '$0', '!x', '>9']
    yield {'bonding': []}
    for n in (1, 2, 3):
        for combo in itertools.product(pool, repeat=n):
            yield {'bonding': list(combo)}


contract(
    target='cgsmiles.sample:_set_bond_order_defaults', variant='list', serves=['C17'],
    types={'bonding': 'List[Str]'}, returns='List[Str]', locals={'default_list': 'List[Str]'},
    requires=["all(len(b) >= 1 for b in bonding)"],
    ensures=["len(result) == len(bonding)",
             "all(result[k] == default_suffix(bonding[k]) for k in range(len(bonding)))"],
    loops={1: Loop(over='bonding', invariant=[
        "len(default_list) == _i1",
        "all(default_list[k] == default_suffix(bonding[k]) for k in range(_i1))"])},
    examples=_ex_defaults_list,
)


def _ex_defaults_dict():
    pool = ['$', '$A', '$A1', '>', '<B2', '$0']
    yield {'bonding': {}}
    for n in (1, 2, 3):
        for combo in itertools.permutations(pool, n):
            yield {'bonding': {k: 0.1 * (i + 1) for i, k in enumerate(combo)}}


contract(
    target='cgsmiles.sample:_set_bond_order_defaults', variant='dict', serves=['C17'],
    types={'bonding': 'Dict[Str,Real]'}, returns='Dict[Str,Real]', locals={'default_dict': 'Dict[Str,Real]'},
    # two keys that become equal once the default order is appended ('$A' and '$A1') would collide: excluded
    requires=["all(len(b) >= 1 for b in keys(bonding))",
              "all(implies(default_suffix(keys(bonding)[a]) == default_suffix(keys(bonding)[b]), a == b) "
              "for a in range(len(bonding)) for b in range(len(bonding)))"],
    ensures=["len(result) == len(bonding)",
             "all(keys(result)[k] == default_suffix(keys(bonding)[k]) for k in range(len(bonding)))",
             "all(result[default_suffix(keys(bonding)[k])] == bonding[keys(bonding)[k]] for k in range(len(bonding)))"],
    loops={0: Loop(over='bonding.items()', invariant=[
        "len(default_dict) == _i0",
        "all(keys(default_dict)[k] == default_suffix(keys(bonding)[k]) for k in range(_i0))",
        "all(default_suffix(keys(bonding)[k]) in default_dict and "
        "default_dict[default_suffix(keys(bonding)[k])] == bonding[keys(bonding)[k]] for k in range(_i0))"])},
    examples=_ex_defaults_dict,
)


# ------------------------------------------------------------------------------------------------ sampler helpers
def _ex_select():
    import random
    random.seed(1)
    bonds_pool = [['$1'], ['$A1', '$B1'], ['>1', '<1', '$1'], ['$A1', '$A1', '>2']]
    tables = [None, {}, {'$A1': 0.5, '$B1': 0.5}, {'$A1': 0.0, '$B1': 1.0}, {'>1': 0.2, '$1': 0, '<1': 0.8}, {'$A1': 0, '>2': 0}, {'$Z1': 1.0}]
    for b in bonds_pool:
        for t in tables:
            for _ in range(4):
                yield {'bonds': list(b), 'probabilities': t}


contract(
    target='cgsmiles.sample:_select_bonding_operator', serves=['C17'],
    types={'bonds': 'List[Str]', 'probabilities': 'Opt[Dict[Str,Real]]'}, returns='Str',
    # reactivities are probabilities: never negative
    requires=["implies(probabilities is not None, all(probabilities[k] >= 0 for k in keys(probabilities)))"],
    ensures=[
        "member(result, bonds)",
        # with a non-empty table, a descriptor with reactivity 0 (or without an entry) is never chosen
        "implies(probabilities is not None and len(probabilities) > 0, result in probabilities and probabilities[result] > 0)",
    ],
    raises={'ValueError': {'when': None}, 'IndexError': {'when': None}},
    examples=_ex_select,
)


def _ex_open_bonds():
    import random
    import networkx as nx
    rng = random.Random(9)
    pool = [[], ['$1'], ['$1', '$1'], ['>1', '$A1'], ['<2']]
    for _ in range(200):
        g = nx.Graph()
        for i in range(rng.randint(0, 5)):
            if rng.random() < 0.8:
                g.add_node(i * 2, bonding=list(rng.choice(pool)))
            else:
                g.add_node(i * 2)
        yield {'molecule': g, 'target_nodes': None}


_OB_SOUND = ("all(has_attr(molecule, n, 'bonding') and member(b, attr(molecule, n, 'bonding')) "
             "for b in keys({d}) for n in {d}[b])")
_OB_COMPLETE = ("all(all(d in {d} and member(n, {d}[d]) for d in attr(molecule, n, 'bonding')) "
                "for n in nodes(molecule) if has_attr(molecule, n, 'bonding'){extra})")

contract(
    target='cgsmiles.cgsmiles_utils:find_open_bonds', serves=['C16', 'C17'],
    types={'molecule': 'Graph:mol', 'target_nodes': 'Opt[Int]'}, fix={'target_nodes': None},
    returns='DefaultDict[Str,List[Int]]',
    locals={'open_bonds_by_descriptor': 'DefaultDict[Str,List[Int]]'},
    ensures=[
        # every node listed under a descriptor carries that descriptor ...
        _OB_SOUND.format(d='result'),
        # ... and every descriptor on a node's 'bonding' list has the node listed under it
        _OB_COMPLETE.format(d='result', extra=''),
        # a descriptor is a key only if some node is listed under it
        "all(len(result[b]) > 0 for b in keys(result))",
        # keys are descriptors (from the graph data invariant on 'bonding' lists)
        "all(is_descriptor(b) for b in keys(result))",
    ],
    modifies=[], opaque=['is_descriptor'], heap_invariants=['descriptors'],
    loops={
        0: Loop(over='open_bonds.items()', invariant=[
            "all(is_descriptor(b) for b in keys(open_bonds_by_descriptor))",
            _OB_SOUND.format(d='open_bonds_by_descriptor'),
            _OB_COMPLETE.format(d='open_bonds_by_descriptor', extra=' and key_index(open_bonds, n) < _i0'),
            "all(len(open_bonds_by_descriptor[b]) > 0 for b in keys(open_bonds_by_descriptor))"]),
        1: Loop(over='bonding_types', invariant=[
            "all(is_descriptor(b) for b in keys(open_bonds_by_descriptor))",
            "all(len(open_bonds_by_descriptor[b]) > 0 for b in keys(open_bonds_by_descriptor))",
            _OB_SOUND.format(d='open_bonds_by_descriptor'),
            _OB_COMPLETE.format(d='open_bonds_by_descriptor', extra=' and key_index(open_bonds, n) < _i0'),
            "all(attr(molecule, node, 'bonding')[j] in open_bonds_by_descriptor and "
            "member(node, open_bonds_by_descriptor[attr(molecule, node, 'bonding')[j]]) for j in range(_i1))"]),
    },
    examples=_ex_open_bonds,
)
