"""Contracts for cgsmiles/cgsmiles_utils.py and the pure helpers of cgsmiles/sample.py."""
import itertools
from pyvc.contract import contract, Loop

_DESCR = ['$1', '$A1', '$A2', '$B1', '>1', '<1', '>A1', '<A1', '>A2', '<B2', '!1', '$2']


def _ex_compl():
    import random
    rng = random.Random(3)
    for b in _DESCR:
        yield {'bonding_descriptor': b, 'ellegible_descriptors': []}
        for n in (1, 2, 3, 5):
            for _ in range(25):
                yield {'bonding_descriptor': b, 'ellegible_descriptors': [rng.choice(_DESCR) for _ in range(n)]}


contract(
    target='cgsmiles.cgsmiles_utils:find_complementary_bonding_descriptor', serves=['C16', 'C17'],
    types={'bonding_descriptor': 'Str', 'ellegible_descriptors': 'List[Str]'}, returns='List[Str]',
    locals={'compl': 'List[Str]'},
    requires=["is_descriptor(bonding_descriptor)", "all(is_descriptor(d) for d in ellegible_descriptors)"],
    ensures=[
        # every returned descriptor is eligible and complementary ('$..o' <-> '$..o', '<Lo' <-> '>Lo')
        "all(member(c, ellegible_descriptors) and complementary(bonding_descriptor, c) for c in result)",
        # '$': ALL eligible complements are returned (labels only steer probabilities), in list order
        "implies(bonding_descriptor[0] == '$' and len(ellegible_descriptors) > 0, "
        "all(implies(complementary(bonding_descriptor, d), member(d, result)) for d in ellegible_descriptors))",
        "implies(bonding_descriptor[0] != '$', len(result) == 1)",
    ],
    raises={'OSError': {'iff': True, 'when':
            "(bonding_descriptor[0] != '$' or len(ellegible_descriptors) == 0) and "
            "not any(complementary(bonding_descriptor, d) for d in ellegible_descriptors)"}},
    loops={0: Loop(over='ellegible_descriptors', invariant=[
        "all(member(c, ellegible_descriptors) and complementary(bonding_descriptor, c) for c in compl)",
        "all(implies(complementary(bonding_descriptor, ellegible_descriptors[k]), member(ellegible_descriptors[k], compl)) "
        "for k in range(_i0))"],
        hints=["complementary(bonding_descriptor, descriptor)"])},
    opaque=['complementary', 'is_descriptor'],
    examples=_ex_compl,
)


def _ex_defaults_list():
    pool = ['$', '$A', '$A1', '>', '<B2', '$0', '!x', '>9']
    yield {'bonding': []}
    for n in (1, 2, 3):
        for combo in itertools.product(pool, repeat=n):
            yield {'bonding': list(combo)}


contract(
    target='cgsmiles.sample:_set_bond_order_defaults', variant='list', serves=['C17'],
    types={'bonding': 'List[Str]'}, returns='List[Str]', locals={'default_list': 'List[Str]'},
    requires=["all(len(b) >= 1 for b in bonding)"],
    ensures=["len(result) == len(bonding)",
             "all(result[k] == default_suffix(bonding[k]) for k in range(len(bonding)))"],
    loops={1: Loop(over='bonding', invariant=[
        "len(default_list) == _i1",
        "all(default_list[k] == default_suffix(bonding[k]) for k in range(_i1))"])},
    examples=_ex_defaults_list,
)


def _ex_defaults_dict():
    pool = ['$', '$A', '$A1', '>', '<B2', '$0']
    yield {'bonding': {}}
    for n in (1, 2, 3):
        for combo in itertools.permutations(pool, n):
            yield {'bonding': {k: 0.1 * (i + 1) for i, k in enumerate(combo)}}


contract(
    target='cgsmiles.sample:_set_bond_order_defaults', variant='dict', serves=['C17'],
    types={'bonding': 'Dict[Str,Real]'}, returns='Dict[Str,Real]', locals={'default_dict': 'Dict[Str,Real]'},
    # two keys that become equal once the default order is appended ('$A' and '$A1') would collide: excluded
    requires=["all(len(b) >= 1 for b in keys(bonding))",
              "all(implies(default_suffix(keys(bonding)[a]) == default_suffix(keys(bonding)[b]), a == b) "
              "for a in range(len(bonding)) for b in range(len(bonding)))"],
    ensures=["len(result) == len(bonding)",
             "all(keys(result)[k] == default_suffix(keys(bonding)[k]) for k in range(len(bonding)))",
             "all(result[default_suffix(keys(bonding)[k])] == bonding[keys(bonding)[k]] for k in range(len(bonding)))"],
    loops={0: Loop(over='bonding.items()', invariant=[
        "len(default_dict) == _i0",
        "all(keys(default_dict)[k] == default_suffix(keys(bonding)[k]) for k in range(_i0))",
        "all(default_suffix(keys(bonding)[k]) in default_dict and "
        "default_dict[default_suffix(keys(bonding)[k])] == bonding[keys(bonding)[k]] for k in range(_i0))"])},
    examples=_ex_defaults_dict,
)
