"""Sidecar contracts for the real functions of /repo/cgsmiles (nothing is written into /repo)."""
from . import c_resolve, c_write, c_read, c_utils, c_coords, c_graph_utils, c_sample, c_pysmiles  # noqa
