"""Contracts for cgsmiles/read_cgsmiles.py (helpers; the scanner itself is bounded-tier only)."""
import itertools
from pyvc.contract import contract, Loop


def _ex_find_next():
    texts = ['', '[', 'ab[', '|12)', '|3[#A]', '))|2}', 'abc', '(]', '}{']
    for t in texts:
        for start in range(0, len(t) + 2):
            for chars in (['['], ['[', ')', '(', '}'], [')'], []):
                yield {'string': t, 'chars': chars, 'start': start}


contract(
    target='cgsmiles.read_cgsmiles:_find_next_character', serves=['C04', 'C05'],
    # a str that is only indexed / sliced / iterated per character is modelled as the list of its characters
    types={'string': 'List[Str]', 'chars': 'List[Str]', 'start': 'Int'}, returns='Int',
    requires=["start >= 0"],
    ensures=[
        # least position >= start holding one of `chars`, else len(string)
        "result <= len(string)",
        "result >= start or result == len(string)",
        "implies(result < len(string), result >= start and member(string[result], chars))",
        "all(not member(string[m], chars) for m in range(start, result))",
    ],
    loops={0: Loop(over='enumerate(string[start:])', invariant=[
        "all(not member(string[m], chars) for m in range(start, start + _i0))"])},
    notes='str parameter modelled as List[Str] of 1-character strings (same len/index/slice/iteration semantics)',
    examples=_ex_find_next,
)
