"""Contracts for cgsmiles/graph_utils.py."""
from pyvc.contract import contract, Loop

# ---------------------------------------------------------------------------------------------- merge_graphs
# off: last key of the source before the call (-1 for an empty source); new keys are off+1 .. off+|T| in template order.
_OFF = "(-1 if old(n_nodes(source_graph)) == 0 else old(max_node_key(source_graph)))"
_FOFF = ("(0 if old(n_nodes(source_graph)) == 0 else "
         "list_max(old(attr(source_graph, max_node_key(source_graph), 'fragid')) "
         "if old(has_attr(source_graph, max_node_key(source_graph), 'fragid')) else [0]) + 1)")
_N0 = "old(n_nodes(source_graph))"
_TN = "nodes(target_graph)[{j}]"


COPIED_ATTRS = ('bonding', 'fragname', 'atomname', 'element', 'aromatic', 'hcount', 'charge', 'weight', 'graph',
                'mapping', 'position', 'single_h_frag', 'order')


def _node_facts(count, off, foff):
    """What holds after `count` template nodes have been copied."""
    return [
        "n_nodes(source_graph) == %s + %s" % (_N0, count),
        "all(nodes(source_graph)[j] == old(nodes(source_graph))[j] for j in range(%s))" % _N0,
        "all(nodes(source_graph)[%s + j] == %s + 1 + j for j in range(%s))" % (_N0, off, count),
        "forall_int(lambda n: has_node(source_graph, n) == (old(has_node(source_graph, n)) or (%s + 1 <= n and n < %s + 1 + %s)))" % (off, off, count),
        # old part untouched
        "forall_int(lambda n: implies(old(has_node(source_graph, n)), node_unchanged(source_graph, n)))",
        # the copies: every attribute of the template node, fragid offset, ez references shifted
    ] + [
        "all(same_attr(source_graph, %s + 1 + j, target_graph, %s, '%s') for j in range(%s))" % (off, _TN.format(j='j'), a, count)
        for a in COPIED_ATTRS
    ] + [
        "all(same_other_attrs(source_graph, %s + 1 + j, target_graph, %s) for j in range(%s))" % (off, _TN.format(j='j'), count),
        "all(has_attr(source_graph, %s + 1 + j, 'fragid') and len(attr(source_graph, %s + 1 + j, 'fragid')) == 1 and "
        "attr(source_graph, %s + 1 + j, 'fragid')[0] == (attr(target_graph, %s, 'fragid') if has_attr(target_graph, %s, 'fragid') else 0) + %s "
        "for j in range(%s))" % (off, off, off, _TN.format(j='j'), _TN.format(j='j'), foff, count),
        "all(same_has_attr(source_graph, %s + 1 + j, target_graph, %s, 'ez_isomer_atoms') for j in range(%s))"
        % (off, _TN.format(j='j'), count),
        "all(implies(has_attr(target_graph, %s, 'ez_isomer_atoms'), "
        "attr(source_graph, %s + 1 + j, 'ez_isomer_atoms')[0] == attr(target_graph, %s, 'ez_isomer_atoms')[0] + %s + 1 and "
        "attr(source_graph, %s + 1 + j, 'ez_isomer_atoms')[1] == attr(target_graph, %s, 'ez_isomer_atoms')[1] + %s + 1) for j in range(%s))"
        % (_TN.format(j='j'), off, _TN.format(j='j'), off, off, _TN.format(j='j'), off, count),
    ]


def _corr_facts(count, off, name):
    return [
        "len(%s) == %s" % (name, count),
        "all(keys(%s)[j] == %s and %s in %s and %s[%s] == %s + 1 + j for j in range(%s))"
        % (name, _TN.format(j='j'), _TN.format(j='j'), name, name, _TN.format(j='j'), off, count),
    ]


def _edge_facts(count, off):
    ta, tb = _TN.format(j='a'), _TN.format(j='b')
    new = "has_edge(source_graph, %s + 1 + a, %s + 1 + b)" % (off, off)
    return [
        # every edge that touches an old node is exactly as before
        "forall_int(lambda u, v: implies(u <= %s or v <= %s, edge_unchanged(source_graph, u, v)))" % (off, off),
        # among the copies: exactly the template's edges processed so far (self loops are not copied)
        "all(%s == (has_edge(target_graph, %s, %s) and %s != %s and edge_index(target_graph, %s, %s) < %s) "
        "for a in range(n_nodes(target_graph)) for b in range(n_nodes(target_graph)))" % (new, ta, tb, ta, tb, ta, tb, count),
    ] + [
        "all(implies(%s, same_eattr(source_graph, %s + 1 + a, %s + 1 + b, target_graph, %s, %s, '%s')) "
        "for a in range(n_nodes(target_graph)) for b in range(n_nodes(target_graph)))" % (new, off, off, ta, tb, k)
        for k in ('order', 'bonding')
    ]


def _ex_merge():
    import random
    import networkx as nx
    rng = random.Random(5)
    for trial in range(150):
        src = nx.Graph()
        n0 = rng.choice([0, 0, 1, 3, 5])
        for i in range(n0):
            src.add_node(i, fragid=[rng.randint(0, 3)] if i < n0 - 1 or rng.random() < 0.8 else [2, 4], element='C', bonding=['$1'])
        for _ in range(n0):
            if n0 > 1:
                a, b = rng.sample(range(n0), 2)
                src.add_edge(a, b, order=1)
        tgt = nx.Graph()
        nt = rng.randint(1, 4)
        keys = rng.sample(range(0, 9), nt)
        for k in keys:
            tgt.add_node(k, fragid=0, fragname='X', atomname='C%d' % k, element=rng.choice('CNO'),
                         bonding=[rng.choice(['$1', '>2', '<A1'])] if rng.random() < 0.5 else [], weight=1)
            if rng.random() < 0.3:
                tgt.nodes[k]['ez_isomer_atoms'] = (keys[0], keys[-1])
            if rng.random() < 0.3:
                tgt.nodes[k]['custom'] = 'free'
        for _ in range(nt):
            if nt > 1:
                a, b = rng.sample(keys, 2)
                tgt.add_edge(a, b, order=rng.choice([1, 2, 1.5]))
        yield {'source_graph': src, 'target_graph': tgt}


contract(
    target='cgsmiles.graph_utils:merge_graphs', serves=['C02', 'C11', 'C12', 'C16', 'C01'],
    types={'source_graph': 'Graph:mol', 'target_graph': 'Graph:tmpl', 'max_node': 'Opt[Int]'},
    fix={'max_node': None},          # every call site in the repository passes two arguments
    returns='Dict[Int,Int]', locals={'correspondence': 'Dict[Int,Int]'},
    requires=[
        "source_graph != target_graph",
    ],
    # data invariant: a membership list stored on a node is never empty (so max() of the last node's list is defined)
    heap_invariants=['fragid'],
    ensures=(_corr_facts("n_nodes(target_graph)", _OFF, "result") + _node_facts("n_nodes(target_graph)", _OFF, _FOFF)
             + _edge_facts("n_edges(target_graph)", _OFF)
             + ["forall_int(lambda n: implies(has_node(target_graph, n), n in result and has_node(source_graph, result[n]) and "
                "result[n] == " + _OFF + " + 1 + node_index(target_graph, n)))",
                # the same copy facts addressed by template node instead of by position (what callers need)
                "forall_int(lambda n: implies(has_node(target_graph, n), same_attr(source_graph, result[n], target_graph, n, 'bonding') and "
                "same_attr(source_graph, result[n], target_graph, n, 'element') and same_attr(source_graph, result[n], target_graph, n, 'fragname') and "
                "same_attr(source_graph, result[n], target_graph, n, 'weight') and same_attr(source_graph, result[n], target_graph, n, 'single_h_frag') and "
                "has_attr(source_graph, result[n], 'fragid')))",
                # every node that was added is the copy of a template node (named explicitly: the (m - off - 1)-th one)
                "forall_int(lambda m: implies(has_node(source_graph, m) and not old(has_node(source_graph, m)), "
                "has_node(target_graph, nodes(target_graph)[m - " + _OFF + " - 1]) and result[nodes(target_graph)[m - " + _OFF + " - 1]] == m))",
                # ... so a template neighbour of the original of a copy gives a (different) neighbour of the copy
                "forall_int(lambda m, k: implies(has_node(source_graph, m) and not old(has_node(source_graph, m)) and "
                "has_edge(target_graph, nodes(target_graph)[m - " + _OFF + " - 1], k) and k != nodes(target_graph)[m - " + _OFF + " - 1], "
                "has_edge(source_graph, m, result[k]) and result[k] != m and has_node(source_graph, result[k])))",
                # every old key is at most the offset, so bonds of old nodes are exactly as before
                "forall_int(lambda u, v: implies(old(has_node(source_graph, u)) or old(has_node(source_graph, v)), edge_unchanged(source_graph, u, v)))",
                # template bonds are copied (addressed by template node)
                "forall_int(lambda a, b: implies(has_edge(target_graph, a, b) and a != b, has_edge(source_graph, result[a], result[b])))",
                ]),
    modifies=["source_graph"],
    loops={
        0: Loop(over='enumerate(target_graph.nodes(), start=offset + 1)',
                modifies=["source_graph:nodes,attrs"],
                invariant=(["offset == " + _OFF, "fragment_offset == " + _FOFF]
                           + _corr_facts("_i0", "offset", "correspondence") + _node_facts("_i0", "offset", "fragment_offset"))),
        1: Loop(over='target_graph.edges', modifies=["source_graph:edges,eattrs"],
                invariant=(["forall_int(lambda n: implies(has_node(target_graph, n), n in correspondence and "
                            "correspondence[n] == offset + 1 + node_index(target_graph, n)))"]
                           + _edge_facts("_i1", "offset")
                           + ["forall_int(lambda a, b: implies(has_edge(target_graph, a, b) and a != b and edge_index(target_graph, a, b) < _i1, "
                              "has_edge(source_graph, correspondence[a], correspondence[b])))"]),
                lemmas=["correspondence[node1] == offset + 1 + node_index(target_graph, node1)",
                        "correspondence[node2] == offset + 1 + node_index(target_graph, node2)",
                        "nodes(target_graph)[node_index(target_graph, node1)] == node1",
                        "nodes(target_graph)[node_index(target_graph, node2)] == node2",
                        "edge_index(target_graph, node1, node2) == _i1 and edge_index(target_graph, node2, node1) == _i1",
                        "has_edge(target_graph, node1, node2)"]),
    },
    examples=_ex_merge,
)


# ---------------------------------------------------------------------------------------------- set_atom_names_atomistic
# (resolver form: the fragments are taken from the coarse graph's per-node fragment graphs)
_FGK = "attr(meta_graph, k, 'graph')"
_NAMED = ("all(has_attr({g}, nodes({g})[i], 'atomname') and attr({g}, nodes({g})[i], 'atomname') == "
          "attr(molecule, nodes({g})[i], 'element') + str(i) for i in range({upto}))")


def _ex_names():
    import logging
    logging.getLogger('pysmiles').setLevel(logging.ERROR)
    from cgsmiles.resolve import MoleculeResolver
    import networkx as nx
    for s in ["{[#A][#B]}.{#A=CC[$],#B=[$]O}", "{[#V].[#A][#B]}.{#A=CC[$],#B=[$]O}", "{[#A]|3}.{#A=[$]CC[$]}",
              "{[#A][#B]}.{#A=CC[!],#B=[!]CO}", "{[#A]}.{#A=c1ccccc1}"]:
        try:
            coarse, fine = MoleculeResolver.from_string(s).resolve()
        except Exception:      # noqa: preparation failed (a changed tree): this example is skipped
            continue
        for n in fine.nodes:
            fine.nodes[n].pop('atomname', None)
        for k in coarse.nodes:
            if 'graph' in coarse.nodes[k]:
                for n in coarse.nodes[k]['graph'].nodes:
                    coarse.nodes[k]['graph'].nodes[n].pop('atomname', None)
        yield {'molecule': fine, 'meta_graph': coarse}


contract(
    target='cgsmiles.graph_utils:set_atom_names_atomistic', variant='resolver', serves=['C12'],
    types={'molecule': 'Graph:mol', 'meta_graph': 'Graph:mol'}, returns=None,
    locals={'fraglist': 'DefaultDict[Int,List[Int]]'},
    requires=[
        "n_nodes(meta_graph) > 0 and meta_graph != molecule",
        "all(" + _FGK + " != molecule and " + _FGK + " != meta_graph and "
        "all(has_node(molecule, n) and has_attr(molecule, n, 'element') for n in nodes(" + _FGK + ")) "
        "for k in nodes(meta_graph) if has_attr(meta_graph, k, 'graph'))",
        "all(implies(" + _FGK.replace('k,', 'a,') + " == " + _FGK.replace('k,', 'b,') + ", a == b) "
        "for a in nodes(meta_graph) if has_attr(meta_graph, a, 'graph') for b in nodes(meta_graph) if has_attr(meta_graph, b, 'graph'))",
    ],
    ensures=[
        # within every coarse node the i-th atom is named element + i (hence unique within the coarse node)
        "all(" + _NAMED.format(g=_FGK, upto="n_nodes(" + _FGK + ")") + " for k in nodes(meta_graph) if has_attr(meta_graph, k, 'graph'))",
    ],
    modifies=["molecule:attr:atomname", "graphs_of(meta_graph):attr:atomname"],
    loops={
        0: Loop(over='meta_graph.nodes', invariant=[
            "all((k in fraglist) == (has_attr(meta_graph, k, 'graph') and n_nodes(" + _FGK + ") > 0 and node_index(meta_graph, k) < _i0) for k in nodes(meta_graph))",
            "all(has_node(meta_graph, k) and has_attr(meta_graph, k, 'graph') and len(fraglist[k]) == n_nodes(" + _FGK + ") and "
            "all(fraglist[k][i] == nodes(" + _FGK + ")[i] for i in range(n_nodes(" + _FGK + "))) for k in keys(fraglist))",
        ]),
        2: Loop(over='fraglist.items()', invariant=[
            "all(" + _NAMED.format(g=_FGK, upto="n_nodes(" + _FGK + ")") + " for k in keys(fraglist) if key_index(fraglist, k) < _i2)",
        ]),
        3: Loop(over='enumerate(fragnodes)', invariant=[
            "all(" + _NAMED.format(g=_FGK, upto="n_nodes(" + _FGK + ")") + " for k in keys(fraglist) if key_index(fraglist, k) < _i2)",
            _NAMED.format(g="attr(meta_graph, meta_node, 'graph')", upto="_i3"),
        ]),
    },
    wf_all_graphs=True,
    examples=_ex_names,
)


# ---------------------------------------------------------------------------------------------- annotate_fragments
# The per-node fragment graphs of the coarse graph are rebuilt from the membership lists of the fine graph (C02):
# atom n is in the fragment graph of coarse node k  <=>  k is in n's membership list; bonds are the fine graph's bonds
# between two atoms of the fragment.  (itertools.combinations assumed.)
_AFG = "attr(meta_graph, k, 'graph')"
_AF_ATTRS = ('fragid', 'fragname', 'atomname', 'element', 'bonding', 'weight', 'charge', 'hcount', 'mapping', 'aromatic')
_AF_SOUND = ("all(has_node(molecule, n) and has_attr(molecule, n, 'fragid') and member(f, attr(molecule, n, 'fragid')) "
             "for f in keys(fragid_to_node) for n in fragid_to_node[f])")
_AF_COMPLETE = ("all(all(f in fragid_to_node and member(n, fragid_to_node[f]) for f in attr(molecule, n, 'fragid')) "
                "for n in nodes(molecule) if has_attr(molecule, n, 'fragid'){extra})")


def _af_nodes(g, k):
    """Every node of fragment graph g is a fine node that lists k, with the fine node's attributes."""
    return ("all(has_node(molecule, n) and has_attr(molecule, n, 'fragid') and member(%s, attr(molecule, n, 'fragid')) and "
            % k + " and ".join("same_attr(%s, n, molecule, n, '%s')" % (g, a) for a in _AF_ATTRS) + " for n in nodes(%s))" % g)


def _af_edges(g):
    return "all(has_edge(molecule, e[0], e[1]) for e in edge_list(%s))" % g


def _af_done(cond):
    pre = "all("
    post = " for k in nodes(meta_graph) if " + cond + ")"
    return [
        pre + "has_attr(meta_graph, k, 'graph') and fresh_graph(" + _AFG + ") and " + _AFG + " != molecule and " + _AFG + " != meta_graph" + post,
        pre + _af_nodes(_AFG, 'k') + post,
        pre + _af_edges(_AFG) + post,
        # completeness: every atom that lists k is in k's graph; every fine bond between two of them is in it
        pre + "all(has_node(" + _AFG + ", x) for x in fragid_to_node[k])" + post,
        pre + "all(implies(has_node(" + _AFG + ", e[0]) and has_node(" + _AFG + ", e[1]) and e[0] != e[1], has_edge(" + _AFG + ", e[0], e[1])) "
        "for e in edge_list(molecule))" + post,
    ]


def _ex_annotate():
    import logging
    logging.getLogger('pysmiles').setLevel(logging.ERROR)
    from cgsmiles.resolve import MoleculeResolver
    for s in ["{[#A][#B]}.{#A=CC[$],#B=[$]O}", "{[#V].[#A][#B]}.{#A=CC[$],#B=[$]O}", "{[#A]|3}.{#A=[$]CC[$]}",
              "{[#A][#B]}.{#A=CC[!],#B=[!]CO}", "{[#A]}.{#A=c1ccccc1}", "{[#A][#B]}.{#A=[#a][#b][$],#B=[$][#c]}",
              "{[#A]1[#B][#C]1}.{#A=[$]CC[!],#B=[$]CC[!],#C=[!][!]CN}"]:
        try:
            coarse, fine = MoleculeResolver.from_string(s, last_all_atom=('#a' not in s)).resolve()
        except Exception:      # noqa: preparation failed (a changed tree): this example is skipped
            continue
        for k in coarse.nodes:
            coarse.nodes[k].pop('graph', None)
        yield {'meta_graph': coarse, 'molecule': fine}


contract(
    target='cgsmiles.graph_utils:annotate_fragments', serves=['C02', 'C06', 'C12'],
    types={'meta_graph': 'Graph:mol', 'molecule': 'Graph:mol'}, returns='Graph:mol',
    locals={'fragid_to_node': 'DefaultDict[Int,List[Int]]', 'node_to_fragids': 'Dict[Int,List[Int]]', 'combinations': 'List[Tuple[Int,Int]]'},
    requires=["meta_graph != molecule"],
    ensures=[
        "result == meta_graph",
        # fragment graph of k: exactly the atoms that list k (=>), with the fine graph's attributes; bonds are fine-graph bonds
        "all(has_attr(meta_graph, k, 'graph') and " + _af_nodes(_AFG, 'k') + " and " + _af_edges(_AFG) + " for k in nodes(meta_graph))",
        # (<=) every atom that lists k is in k's fragment graph
        "all(all(implies(has_node(meta_graph, k), has_node(" + _AFG + ", n)) for k in attr(molecule, n, 'fragid')) "
        "for n in nodes(molecule) if has_attr(molecule, n, 'fragid'))",
        # every fine bond between two different atoms of a fragment is a bond of the fragment graph
        "all(all(implies(has_node(" + _AFG + ", e[0]) and has_node(" + _AFG + ", e[1]) and e[0] != e[1], has_edge(" + _AFG + ", e[0], e[1])) "
        "for e in edge_list(molecule)) for k in nodes(meta_graph))",
        # the fine graph is only read
        "forall_int(lambda n: node_unchanged(molecule, n))",
    ],
    modifies=["meta_graph:attr:graph"], allocates=True, wf_all_graphs=True,
    loops={
        0: Loop(over='node_to_fragids.items()', invariant=[
            _AF_SOUND, _AF_COMPLETE.format(extra=' and key_index(node_to_fragids, n) < _i0')]),
        1: Loop(over='fragids', invariant=[
            _AF_SOUND, _AF_COMPLETE.format(extra=' and key_index(node_to_fragids, n) < _i0'),
            "all(attr(molecule, node, 'fragid')[j] in fragid_to_node and "
            "member(node, fragid_to_node[attr(molecule, node, 'fragid')[j]]) for j in range(_i1))"]),
        2: Loop(over='meta_graph.nodes', modifies=["meta_graph:attr:graph"], invariant=[
            _AF_SOUND, _AF_COMPLETE.format(extra='')] + _af_done("node_index(meta_graph, k) < _i2")),
        3: Loop(over='fragid_to_node[meta_node]', modifies=["graph_frag"], invariant=[
            "fresh_graph(graph_frag) and graph_frag != molecule and graph_frag != meta_graph",
            _AF_SOUND, _AF_COMPLETE.format(extra='')] + _af_done("node_index(meta_graph, k) < _i2") + [
            "all(" + _AFG + " != graph_frag for k in nodes(meta_graph) if node_index(meta_graph, k) < _i2)",
            _af_nodes("graph_frag", "meta_node"),
            "all(has_node(graph_frag, fragid_to_node[meta_node][i]) for i in range(_i3))",
            "forall_int(lambda n: implies(has_node(graph_frag, n), any(fragid_to_node[meta_node][i] == n for i in range(_i3))))",
            "n_edges(graph_frag) == 0",
        ]),
        4: Loop(over='combinations', modifies=["graph_frag:edges,eattrs"], invariant=[
            _af_edges("graph_frag"),
            "forall_int(lambda i, j: implies(0 <= i and i < j and j < len(fragid_to_node[meta_node]) and "
            "comb_pos(combinations, fragid_to_node[meta_node], i, j) < _i4 and "
            "has_edge(molecule, fragid_to_node[meta_node][i], fragid_to_node[meta_node][j]), "
            "has_edge(graph_frag, fragid_to_node[meta_node][i], fragid_to_node[meta_node][j])))",
        ]),
    },
    examples=_ex_annotate,
)
