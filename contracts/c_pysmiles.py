"""Contracts for cgsmiles/pysmiles_utils.py.  Everything inside pysmiles is assumed (trusted contracts below)."""
from pyvc.contract import contract, Loop

_INHERITED = ('fragid', 'fragname', 'weight')
_KEPT = _INHERITED + ('element', 'single_h_frag')

# ------------------------------------------------------------------------------------------------ assumed: pysmiles
_T_CORRECT_AROMATIC_RINGS = dict(
    target='pysmiles.smiles_helper.correct_aromatic_rings', trusted=True,
    params=[('mol', None), ('strict', 'False')], types={'mol': 'Graph:mol', 'strict': 'Bool'}, returns=None,
    modifies=["mol:attr:aromatic,attr:hcount,eattrs"], raises={'SyntaxError': {'when': None}},
    assumes=['pysmiles.correct_aromatic_rings only rewrites aromatic flags / hydrogen counts / bond orders (or raises SyntaxError)'],
)
contract(**_T_CORRECT_AROMATIC_RINGS)
contract(**dict(_T_CORRECT_AROMATIC_RINGS, variant='tmpl', types={k: v.replace('Graph:mol', 'Graph:tmpl') for k, v in _T_CORRECT_AROMATIC_RINGS['types'].items()}))
_T_FILL_VALENCE = dict(
    target='pysmiles.smiles_helper.fill_valence', trusted=True,
    params=[('mol', None), ('respect_hcount', 'True'), ('respect_bond_order', 'True'), ('max_bond_order', '3')],
    types={'mol': 'Graph:mol', 'respect_hcount': 'Bool'}, returns=None, modifies=["mol:attr:hcount"],
    assumes=['pysmiles.fill_valence only writes hcount'],
)
contract(**_T_FILL_VALENCE)
contract(**dict(_T_FILL_VALENCE, variant='tmpl', types={k: v.replace('Graph:mol', 'Graph:tmpl') for k, v in _T_FILL_VALENCE['types'].items()}))
_T_ADD_EXPLICIT_HYDROGENS = dict(
    target='pysmiles.smiles_helper.add_explicit_hydrogens', trusted=True,
    params=[('mol', None)], types={'mol': 'Graph:mol'}, returns=None, modifies=["mol"],
    ensures=[
        # existing atoms stay, with every attribute the inheritance step reads
        "forall_int(lambda n: implies(old(has_node(mol, n)), has_node(mol, n) and "
        + " and ".join("attr_unchanged(mol, n, '%s')" % a for a in _KEPT) + "))",
        # a new node is a bare hydrogen bonded to an existing atom
        "forall_int(lambda n: implies(has_node(mol, n) and not old(has_node(mol, n)), "
        "has_attr(mol, n, 'element') and attr(mol, n, 'element') == 'H' and has_neighbor(mol, n) and "
        + " and ".join("not has_attr(mol, n, '%s')" % a for a in _KEPT[:3] + ('single_h_frag',)) + "))",
        # bonds of hydrogens: a new hydrogen is bonded to existing atoms only, old bonds are kept
        "forall_int(lambda u, v: implies(old(has_edge(mol, u, v)), has_edge(mol, u, v)))",
        "forall_int(lambda u, v: implies(has_edge(mol, u, v) and not old(has_node(mol, u)), old(has_node(mol, v))))",
    ],
    assumes=["pysmiles.add_explicit_hydrogens adds bare [H] nodes (element only) bonded to existing atoms and changes nothing else "
             "but the hcount attribute"],
)
contract(**_T_ADD_EXPLICIT_HYDROGENS)
contract(**dict(_T_ADD_EXPLICIT_HYDROGENS, variant='tmpl', types={k: v.replace('Graph:mol', 'Graph:tmpl') for k, v in _T_ADD_EXPLICIT_HYDROGENS['types'].items()}))


def _ex_rebuild():
    import logging
    logging.getLogger('pysmiles').setLevel(logging.ERROR)
    import networkx as nx
    from cgsmiles.resolve import MoleculeResolver
    strings = ["{[#A][#B]}.{#A=CC[$],#B=[$]O}", "{[#A][#B]}.{#A=[C;0.5]([H;0.25])C[$],#B=[$]O[H;0]}", "{[#A]|3}.{#A=[$]CC[$]}",
               "{[#H][#A][#H]}.{#A=[$]CC[$],#H=[$][H]}", "{[#A][#B]}.{#A=[O;0]([H;0])C[$],#B=[$]C[H;w=0]}", "{[#A]}.{#A=c1ccccc1}",
               "{[#A][#B]}.{#A=[C;w=0]C[$],#B=[$][N;0]}"]
    for s in strings:
        try:
            res = MoleculeResolver.from_string(s)
            res.meta_graph = res.molecule
            nx.set_node_attributes(res.meta_graph, nx.get_node_attributes(res.meta_graph, "fragname"), "fragname")
            res.molecule = nx.Graph()
            res.resolve_disconnected_molecule(res.fragment_dicts[0])
            res.edges_from_bonding_descrpt(all_atom=True)
            res.squash_atoms()
        except Exception:      # noqa: preparation failed (a changed tree): this example is skipped
            continue
        yield {'mol_graph': res.molecule}


_H_NODE = "has_attr(mol_graph, n, 'element') and attr(mol_graph, n, 'element') == 'H'"
_SINGLE = "(has_attr(mol_graph, n, 'single_h_frag') and attr(mol_graph, n, 'single_h_frag'))"
_OLD_KEPT = ("forall_int(lambda n: implies(old(has_node(mol_graph, n)), "
             + " and ".join("attr_unchanged(mol_graph, n, '%s')" % a for a in _INHERITED) + "))")


def _new_h(attr, upto):
    """A completed hydrogen carries the value of an atom it is bonded to (its only neighbour)."""
    return ("forall_int(lambda n: implies(has_node(mol_graph, n) and not old(has_node(mol_graph, n))" + upto + ", "
            "has_attr(mol_graph, n, '%(a)s') and any(has_edge(mol_graph, n, m) and has_attr(mol_graph, m, '%(a)s') and "
            "attr(mol_graph, m, '%(a)s') == attr(mol_graph, n, '%(a)s') for m in nodes(mol_graph))))") % {'a': attr}


_RB = dict(
    target='cgsmiles.pysmiles_utils:rebuild_h_atoms', serves=['C02', 'C09'],
    types={'mol_graph': 'Graph:mol', 'keep_bonding': 'Bool'},
    fix={'keep_bonding': False, 'copy_attrs': ['fragid', 'fragname', 'weight']}, returns=None,
    requires=[
        # every atom instantiated from a fragment (explicit hydrogens included) carries element, membership, fragment name and weight
        "all(has_attr(mol_graph, n, 'element') and " + " and ".join("has_attr(mol_graph, n, '%s')" % a for a in _INHERITED) + " for n in nodes(mol_graph))",
        "all(implies(" + _H_NODE + " and not " + _SINGLE + ", has_neighbor(mol_graph, n)) for n in nodes(mol_graph))",
    ],
    ensures=[
        # atoms that were there keep membership, name and weight — explicitly written hydrogens keep their own annotations, zero included
        _OLD_KEPT,
    ] + [_new_h(a, '') for a in _INHERITED] + [
        # elements: the atoms that were there keep theirs, everything that was added is a hydrogen
        "forall_int(lambda n: implies(old(has_node(mol_graph, n)), has_node(mol_graph, n) and attr_unchanged(mol_graph, n, 'element')))",
        "forall_int(lambda n: implies(has_node(mol_graph, n) and not old(has_node(mol_graph, n)), "
        "has_attr(mol_graph, n, 'element') and attr(mol_graph, n, 'element') == 'H'))",
    ],
    # the same two clauses in a form the run-time monitor can evaluate (bounded tier and refuter)
    native_ensures=[
        "all(implies(old(has_node(mol_graph, n)), " + " and ".join("attr_unchanged(mol_graph, n, '%s')" % a for a in _INHERITED) + ") for n in nodes(mol_graph))",
    ] + ["all(implies(not old(has_node(mol_graph, n)), has_attr(mol_graph, n, '%(a)s') and any(has_edge(mol_graph, n, m) and "
         "has_attr(mol_graph, m, '%(a)s') and attr(mol_graph, m, '%(a)s') == attr(mol_graph, n, '%(a)s') for m in nodes(mol_graph))) "
         "for n in nodes(mol_graph))" % {'a': a} for a in _INHERITED],
    raises={'SyntaxError': {'when': None}},
    modifies=["mol_graph"],
    loops={1: Loop(over="mol_graph.nodes(data='element')", modifies=["mol_graph:attr:fragid,attr:fragname,attr:weight"],
                   invariant=[_OLD_KEPT] + [_new_h(a, ' and node_index(mol_graph, n) < _i1') for a in _INHERITED] + [
                       "forall_int(lambda n: implies(has_node(mol_graph, n) and node_index(mol_graph, n) >= _i1 and not old(has_node(mol_graph, n)), "
                       + " and ".join("not has_attr(mol_graph, n, '%s')" % a for a in _INHERITED) + "))",
                   ])},
    heap_invariants=['fragid'],
    examples=_ex_rebuild,
)
contract(**_RB)
# the same function applied to a fragment template (membership is a plain index there, not a list): used by compute_mass
_RBT = dict(_RB)
_RBT.update(variant='tmpl', types={'mol_graph': 'Graph:tmpl', 'keep_bonding': 'Bool'}, heap_invariants=[], examples=None, native_ensures=[])
contract(**_RBT)



# ------------------------------------------------------------------------------------------------ compute_mass
def _ex_mass():
    import logging
    logging.getLogger('pysmiles').setLevel(logging.ERROR)
    from cgsmiles.read_fragments import read_fragments
    for text in ["{#PEO=[$]COC[$]}", "{#PS=[$]CC[$]c1ccccc1,#OH=[$]O}", "{#A=[>]CC[<]C(=O)OC}", "{#H=[$][H],#N=[$]N([H;0.5])C}", "{#B=[$]=CC=[$]}"]:
        try:
            frags = read_fragments(text, all_atom=True)
        except Exception:      # noqa: preparation failed (a changed tree): this example is skipped
            continue
        for name, g in frags.items():
            yield {'input_molecule': g}


contract(
    target='cgsmiles.pysmiles_utils:compute_mass', serves=['C17', 'C09'],
    types={'input_molecule': 'Graph:tmpl'}, returns='Real', new_graph_schema='tmpl',
    requires=[
        # what rebuild_h_atoms needs of the (copied) fragment, and every element is in the periodic table
        "all(has_attr(input_molecule, n, 'element') and " + " and ".join("has_attr(input_molecule, n, '%s')" % a for a in _INHERITED)
        + " for n in nodes(input_molecule))",
        "all(implies(" + _H_NODE.replace('mol_graph', 'input_molecule') + " and not " + _SINGLE.replace('mol_graph', 'input_molecule')
        + ", has_neighbor(input_molecule, n)) for n in nodes(input_molecule))",
        "all(known_element(attr(input_molecule, n, 'element')) for n in nodes(input_molecule)) and known_element('H')",
    ],
    ensures=[
        # the mass is computed on a copy: the fragment handed in is left exactly as it was (frame), the result is positive for a
        # non-empty fragment
        "implies(n_nodes(input_molecule) > 0, result > 0)",
    ],
    # the frame (modifies nothing) in a form the run-time monitor can evaluate
    native_ensures=["n_nodes(input_molecule) == old(n_nodes(input_molecule)) and n_edges(input_molecule) == old(n_edges(input_molecule)) and "
                    "all(node_unchanged(input_molecule, n) for n in nodes(input_molecule))"],
    raises={'SyntaxError': {'when': None}},
    modifies=[], allocates=True,
    loops={0: Loop(over='molecule.nodes', invariant=["mass >= 0", "implies(_i0 > 0, mass > 0)"])},
    examples=_ex_mass,
)
