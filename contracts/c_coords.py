"""Contracts for cgsmiles/coordinates.py (reals per coordinate: numpy vectors are treated componentwise)."""
from pyvc.contract import contract, Loop

_W = "node_attrs(attr(cg_mol, {k}, 'graph'), 'weight')"


def _ex_forward_map():
    import random
    import networkx as nx
    rng = random.Random(11)
    for trial in range(120):
        aa = nx.Graph()
        n = rng.randint(2, 7)
        for i in range(n):
            aa.add_node(i, position=float(rng.randint(-20, 20)) / 4, weight=rng.choice([1, 1, 2, 0.5, 3]))
        cg = nx.Graph()
        nb = rng.randint(1, 3)
        for k in range(nb):
            members = rng.sample(range(n), rng.randint(1, n))
            bead = nx.Graph()
            for m in members:
                bead.add_node(m, weight=aa.nodes[m]['weight'])
            cg.add_node(k + 10, graph=bead)
        yield {'cg_mol': cg, 'aa_mol': aa}


contract(
    target='cgsmiles.coordinates:forward_map_molecule', serves=['C18'],
    types={'cg_mol': 'Graph:mol', 'aa_mol': 'Graph:mol'}, returns=None,
    requires=[
        "cg_mol != aa_mol",
        "all(has_attr(cg_mol, k, 'graph') and attr(cg_mol, k, 'graph') != cg_mol for k in nodes(cg_mol))",
        # every weighted member of a bead is an atom with a position; the weights of a bead do not sum to zero
        "all(all(has_attr(aa_mol, a, 'position') for a in keys(" + _W.format(k='k') + ")) for k in nodes(cg_mol))",
        "all(dvsum(" + _W.format(k='k') + ", len(" + _W.format(k='k') + ")) != 0 for k in nodes(cg_mol))",
    ],
    ensures=[
        # the weight-normalised average of exactly the bead's own atoms
        "all(has_attr(cg_mol, k, 'position') and attr(cg_mol, k, 'position') == "
        "wpsum(" + _W.format(k='k') + ", aa_mol, len(" + _W.format(k='k') + ")) / "
        "dvsum(" + _W.format(k='k') + ", len(" + _W.format(k='k') + ")) for k in nodes(cg_mol))",
    ],
    modifies=["cg_mol:attr:position"],
    loops={
        0: Loop(over='cg_mol.nodes', invariant=[
            "all(has_attr(cg_mol, nodes(cg_mol)[j], 'position') and attr(cg_mol, nodes(cg_mol)[j], 'position') == "
            "wpsum(" + _W.format(k='nodes(cg_mol)[j]') + ", aa_mol, len(" + _W.format(k='nodes(cg_mol)[j]') + ")) / "
            "dvsum(" + _W.format(k='nodes(cg_mol)[j]') + ", len(" + _W.format(k='nodes(cg_mol)[j]') + ")) for j in range(_i0))"]),
        1: Loop(over='weights.items()', invariant=["cg_pos == wpsum(weights, aa_mol, _i1)"]),
    },
    assumes=['numpy vectors are treated per coordinate as one mathematical real (componentwise arithmetic, no NaN/inf)'],
    examples=_ex_forward_map,
)
