"""Contracts for cgsmiles/resolve.py."""
from pyvc.contract import contract, Loop

DESCRS = ['$1', '$A1', '$A2', '$B1', '!1', '!A1', '<1', '>1', '<A1', '>A1', '>A2', '<B1', '$', '<', '>', '!']


def _ex_compatible():
    for l in DESCRS:
        for r in DESCRS:
            for legacy in (True, False):
                yield {'left': l, 'right': r, 'legacy': legacy}


contract(
    target='cgsmiles.resolve:compatible', serves=['C03', 'C10', 'C01'],
    types={'left': 'Str', 'right': 'Str', 'legacy': 'Bool'}, returns='Bool',
    # the kind precondition is real: without it the body answers True for ('A', 'A') (DESIGN A.1)
    requires=["kind_ok(left) and kind_ok(right)"],
    ensures=["result == spec_compatible(left, right, legacy)"],
    examples=_ex_compatible,
)


# ------------------------------------------------------------------------------------------------
# match_bonding_descriptors: first compatible pair in (source node, target node, source descriptor,
# target descriptor) lexicographic order; LookupError iff there is none; pure.
_NOPAIR = ("not spec_compatible(source_nodes[keys(source_nodes)[i]][a], "
           "target_nodes[keys(target_nodes)[j]][b], legacy)")
_WF = ("all(all(kind_ok(d) for d in attr({g}, n, 'bonding')) "
       "for n in nodes({g}) if has_attr({g}, n, 'bonding'))")


def _ex_match():
    import networkx as nx
    import itertools
    import random
    pool = [['$1'], ['$A1', '>1'], ['<1'], ['!1', '$B1'], [], ['>A1'], ['<A1', '$A1'], ['$B1', '$A1'], ['>1', '<A1']]
    combos = list(itertools.product(pool, repeat=4))
    random.Random(7).shuffle(combos)
    for sa, sb, ta, tb in combos:
        for legacy in (True, False):
            s = nx.Graph()
            s.add_node(0, bonding=list(sa))
            s.add_node(1, bonding=list(sb))
            s.add_node(2)
            t = nx.Graph()
            t.add_node(5, bonding=list(ta))
            t.add_node(3, bonding=list(tb))
            yield {'source': s, 'target': t, 'bond_attribute': 'bonding', 'legacy': legacy}


contract(
    target='cgsmiles.resolve:match_bonding_descriptors', serves=['C03', 'C01', 'C10'],
    types={'source': 'Graph:mol', 'target': 'Graph:mol', 'bond_attribute': 'Str', 'legacy': 'Bool'},
    fix={'bond_attribute': 'bonding'},
    returns='Tuple[Tuple[Int,Int],Tuple[Str,Str]]',
    requires=[_WF.format(g='source'), _WF.format(g='target')],
    ensures=[
        "has_attr(source, result[0][0], 'bonding') and member(result[1][0], attr(source, result[0][0], 'bonding'))",
        "has_attr(target, result[0][1], 'bonding') and member(result[1][1], attr(target, result[0][1], 'bonding'))",
        "spec_compatible(result[1][0], result[1][1], legacy)",
    ],
    raises={'LookupError': {'iff': True, 'when':
            "not any(spec_compatible(a, b, legacy) "
            "for s in nodes(source) if has_attr(source, s, 'bonding') "
            "for t in nodes(target) if has_attr(target, t, 'bonding') "
            "for a in attr(source, s, 'bonding') for b in attr(target, t, 'bonding'))"}},
    modifies=[], abstract=['spec_compatible', 'kind_ok'],
    loops={
        0: Loop(over='source_nodes', invariant=[
            "all(" + _NOPAIR + " for i in range(_i0) for j in range(len(target_nodes)) "
            "for a in range(len(source_nodes[keys(source_nodes)[i]])) for b in range(len(target_nodes[keys(target_nodes)[j]])))"]),
        1: Loop(over='target_nodes', invariant=[
            "all(" + _NOPAIR.replace('[i]', '[_i0]') + " for j in range(_i1) "
            "for a in range(len(source_nodes[keys(source_nodes)[_i0]])) for b in range(len(target_nodes[keys(target_nodes)[j]])))"]),
        2: Loop(over='bond_sources', invariant=[
            "all(" + _NOPAIR.replace('[i]', '[_i0]').replace('[j]', '[_i1]') + " for a in range(_i2) "
            "for b in range(len(target_nodes[keys(target_nodes)[_i1]])))"]),
        3: Loop(over='bond_targets', invariant=[
            "all(" + _NOPAIR.replace('[i]', '[_i0]').replace('[j]', '[_i1]').replace('[a]', '[_i2]') + " for b in range(_i3))"]),
    },
    examples=_ex_match,
)
