"""Contracts for cgsmiles/resolve.py."""
from pyvc.contract import contract, Loop

DESCRS = ['$1', '$A1', '$A2', '$B1', '!1', '!A1', '<1', '>1', '<A1', '>A1', '>A2', '<B1', '$', '<', '>', '!']


def _ex_compatible():
    for l in DESCRS:
        for r in DESCRS:
            for legacy in (True, False):
                yield {'left': l, 'right': r, 'legacy': legacy}


contract(
    target='cgsmiles.resolve:compatible', serves=['C03', 'C10', 'C01'],
    types={'left': 'Str', 'right': 'Str', 'legacy': 'Bool'}, returns='Bool',
    # the kind precondition is real: without it the body answers True for ('A', 'A') (DESIGN A.1)
    requires=["kind_ok(left) and kind_ok(right)"],
    ensures=["result == spec_compatible(left, right, legacy)"],
    examples=_ex_compatible,
)


# ------------------------------------------------------------------------------------------------
# match_bonding_descriptors: first compatible pair in (source node, target node, source descriptor,
# target descriptor) lexicographic order; LookupError iff there is none; pure.
_NOPAIR = ("not spec_compatible(source_nodes[keys(source_nodes)[i]][a], "
           "target_nodes[keys(target_nodes)[j]][b], legacy)")
_WF = ("all(all(kind_ok(d) for d in attr({g}, n, 'bonding')) "
       "for n in nodes({g}) if has_attr({g}, n, 'bonding'))")


def _ex_match():
    import networkx as nx
    import itertools
    import random
    pool = [['$1'], ['$A1', '>1'], ['<1'], ['!1', '$B1'], [], ['>A1'], ['<A1', '$A1'], ['$B1', '$A1'], ['>1', '<A1']]
    combos = list(itertools.product(pool, repeat=4))
    random.Random(7).shuffle(combos)
    for sa, sb, ta, tb in combos:
        for legacy in (True, False):
            s = nx.Graph()
            s.add_node(0, bonding=list(sa))
            s.add_node(1, bonding=list(sb))
            s.add_node(2)
            t = nx.Graph()
            t.add_node(5, bonding=list(ta))
            t.add_node(3, bonding=list(tb))
            yield {'source': s, 'target': t, 'bond_attribute': 'bonding', 'legacy': legacy}


contract(
    target='cgsmiles.resolve:match_bonding_descriptors', serves=['C03', 'C01', 'C10'],
    types={'source': 'Graph:mol', 'target': 'Graph:mol', 'bond_attribute': 'Str', 'legacy': 'Bool'},
    fix={'bond_attribute': 'bonding'},
    returns='Tuple[Tuple[Int,Int],Tuple[Str,Str]]',
    requires=[_WF.format(g='source'), _WF.format(g='target')],
    ensures=[
        "has_attr(source, result[0][0], 'bonding') and member(result[1][0], attr(source, result[0][0], 'bonding'))",
        "has_attr(target, result[0][1], 'bonding') and member(result[1][1], attr(target, result[0][1], 'bonding'))",
        "spec_compatible(result[1][0], result[1][1], legacy)",
    ],
    raises={'LookupError': {'iff': True, 'when':
            "not any(spec_compatible(a, b, legacy) "
            "for s in nodes(source) if has_attr(source, s, 'bonding') "
            "for t in nodes(target) if has_attr(target, t, 'bonding') "
            "for a in attr(source, s, 'bonding') for b in attr(target, t, 'bonding'))"}},
    modifies=[], abstract=['spec_compatible', 'kind_ok'],
    loops={
        0: Loop(over='source_nodes', invariant=[
            "all(" + _NOPAIR + " for i in range(_i0) for j in range(len(target_nodes)) "
            "for a in range(len(source_nodes[keys(source_nodes)[i]])) for b in range(len(target_nodes[keys(target_nodes)[j]])))"],
            exit_lemmas=[
                # every node that carries the attribute is a key of the dictionary, at the position the invariant talks about
                "forall_int(lambda s: implies(has_attr(source, s, 'bonding'), s in source_nodes and 0 <= key_index(source_nodes, s) and "
                "key_index(source_nodes, s) < len(source_nodes) and keys(source_nodes)[key_index(source_nodes, s)] == s and "
                "source_nodes[s] == attr(source, s, 'bonding')))",
                "forall_int(lambda t: implies(has_attr(target, t, 'bonding'), t in target_nodes and 0 <= key_index(target_nodes, t) and "
                "key_index(target_nodes, t) < len(target_nodes) and keys(target_nodes)[key_index(target_nodes, t)] == t and "
                "target_nodes[t] == attr(target, t, 'bonding')))"]),
        1: Loop(over='target_nodes', invariant=[
            "all(" + _NOPAIR.replace('[i]', '[_i0]') + " for j in range(_i1) "
            "for a in range(len(source_nodes[keys(source_nodes)[_i0]])) for b in range(len(target_nodes[keys(target_nodes)[j]])))"]),
        2: Loop(over='bond_sources', invariant=[
            "all(" + _NOPAIR.replace('[i]', '[_i0]').replace('[j]', '[_i1]') + " for a in range(_i2) "
            "for b in range(len(target_nodes[keys(target_nodes)[_i1]])))"]),
        3: Loop(over='bond_targets', invariant=[
            "all(" + _NOPAIR.replace('[i]', '[_i0]').replace('[j]', '[_i1]').replace('[a]', '[_i2]') + " for b in range(_i3))"]),
    },
    examples=_ex_match,
)


# ------------------------------------------------------------------------------------------------
# MoleculeResolver.edges_from_bonding_descrpt — the point where inter-fragment bonds are created (C03)
_FG = "attr(self.meta_graph, {k}, 'graph')"
_DESCR_WF = ("all(all(all(kind_ok(d) and ends_in_digit(d) for d in attr(" + _FG.format(k='k') + ", n, 'bonding')) "
             "for n in nodes(" + _FG.format(k='k') + ") if has_attr(" + _FG.format(k='k') + ", n, 'bonding')) "
             "for k in nodes(self.meta_graph) if has_attr(self.meta_graph, k, 'graph'))")
_SUBSET = ("all(all(has_node(self.molecule, n) for n in nodes(" + _FG.format(k='k') + ")) "
           "for k in nodes(self.meta_graph) if has_attr(self.meta_graph, k, 'graph'))")
_ALLATOM = ("implies(all_atom, all(has_attr(self.molecule, n, 'element') and "
            "(attr(self.molecule, n, 'element') == 'H' or has_attr(self.molecule, n, 'hcount')) for n in nodes(self.molecule)))")

contract(
    target='cgsmiles.resolve:MoleculeResolver.edges_from_bonding_descrpt', serves=['C03', 'C09', 'C11', 'C01'],
    self_fields={'meta_graph': 'Graph:mol', 'molecule': 'Graph:mol', 'legacy': 'Bool'},
    types={'all_atom': 'Bool'}, returns=None,
    requires=[
        "self.meta_graph != self.molecule",
        # base-graph edge orders are non-negative integers
        "all(has_eattr(self.meta_graph, e[0], e[1], 'order') and eattr(self.meta_graph, e[0], e[1], 'order') >= 0 and "
        "eattr(self.meta_graph, e[0], e[1], 'order') == int(eattr(self.meta_graph, e[0], e[1], 'order')) for e in edge_list(self.meta_graph))",
        # both ends of an edge of order >= 1 carry a fragment graph
        "all(implies(eattr(self.meta_graph, e[0], e[1], 'order') >= 1, has_attr(self.meta_graph, e[0], 'graph') and "
        "has_attr(self.meta_graph, e[1], 'graph')) for e in edge_list(self.meta_graph))",
        # fragment graphs are separate objects from the two main graphs and from each other
        "all(" + _FG.format(k='k') + " != self.molecule and " + _FG.format(k='k') + " != self.meta_graph "
        "for k in nodes(self.meta_graph) if has_attr(self.meta_graph, k, 'graph'))",
        "all(implies(" + _FG.format(k='a') + " == " + _FG.format(k='b') + ", a == b) "
        "for a in nodes(self.meta_graph) if has_attr(self.meta_graph, a, 'graph') "
        "for b in nodes(self.meta_graph) if has_attr(self.meta_graph, b, 'graph'))",
        "all(e[0] != e[1] for e in edge_list(self.meta_graph))",
        _SUBSET, _ALLATOM,
    ],
    ensures=[],
    modifies=["self.molecule:edges,eattrs,attr:hcount", "graphs_of(self.meta_graph):attr:bonding"],
    ghosts={'bonds': ('Int', '0'), 'src_before': ('List[Str]', "['']"), 'tgt_before': ('List[Str]', "['']")},
    on_call={
        # snapshots of the two descriptor lists at the moment the pair is chosen
        'match_bonding_descriptors': [
            "src_before = attr(arg_source, result[0][0], 'bonding')",
            "tgt_before = attr(arg_target, result[0][1], 'bonding')"],
        'add_edge': [
            "bonds = bonds + 1",
            # the bond joins a node of each end's fragment graph (so only across this base-graph edge) ...
            "assert has_node(prev_graph, arg0) and has_node(node_graph, arg1)",
            # ... each of which carried the recorded descriptor, the pair being compatible under the convention in force
            "assert member(kw_bonding[0], src_before) and member(kw_bonding[1], tgt_before) and "
            "spec_compatible(kw_bonding[0], kw_bonding[1], self.legacy)",
            # each used descriptor instance is consumed: exactly its first occurrence is gone, nothing else changed
            "assert attr(prev_graph, arg0, 'bonding') == without_first(src_before, kw_bonding[0])",
            "assert attr(node_graph, arg1, 'bonding') == without_first(tgt_before, kw_bonding[1])",
            # annotated order, 1.5 between two aromatic atoms (value at creation; DESIGN §6 C03)
            "assert kw_order == (1.5 if (has_attr(self.molecule, arg0, 'aromatic') and attr(self.molecule, arg0, 'aromatic') and "
            "has_attr(self.molecule, arg1, 'aromatic') and attr(self.molecule, arg1, 'aromatic')) else int(kw_bonding[0][-1]))",
        ],
    },
    loops={
        0: Loop(over='edges', invariant=[_ALLATOM],
                pre_lemmas=["has_edge(self.meta_graph, prev_node, node)", "prev_node != node"],
                # never more bonds than the order of the base-graph edge being processed (none for order 0)
                lemmas=["bonds - _e1_bonds <= eattr(self.meta_graph, prev_node, node, 'order')"]),
        1: Loop(over="range(0, self.meta_graph.edges[prev_node, node]['order'])",
                invariant=[_ALLATOM, "bonds - _e1_bonds <= _i1"],
                pre_lemmas=["has_attr(self.meta_graph, prev_node, 'graph') and has_attr(self.meta_graph, node, 'graph')",
                            "attr(self.meta_graph, prev_node, 'graph') != attr(self.meta_graph, node, 'graph')"]),
    },
    abstract=['spec_compatible', 'kind_ok'], opaque=['ends_in_digit'], heap_invariants=['descriptors'],
    notes="data invariant: every 'bonding' list of every graph holds descriptors (kind symbol first, order digit last)",
)


def _ex_edges_from():
    """Resolver objects stopped just before the bonds are made (real fragments, real base graphs)."""
    import logging
    logging.getLogger('pysmiles').setLevel(logging.ERROR)
    import networkx as nx
    from cgsmiles.resolve import MoleculeResolver
    strings = [
        ("{[#A][#B]}.{#A=CC[$],#B=[$]O}", True, True),
        ("{[#A]=[#B]}.{#A=[$]=CC,#B=[$]=CO}", True, True),
        ("{[#A][#B][#A]}.{#A=[>]CC[<],#B=[>]COC[<]}", True, True),
        ("{[#A]|4}.{#A=[$]CC[$]}", True, True),
        ("{[#A]1[#A][#A]1}.{#A=[$]cc[$]}", True, True),
        ("{[#A]([#B])[#B]}.{#A=OC[$][$],#B=[$]CC}", True, True),
        ("{[#A].[#B]}.{#A=CC[$],#B=[$]O}", True, True),
        ("{[#A][#B]}.{#A=CC[$A],#B=[$B]O}", True, True),
        ("{[#A][#B]}.{#A=CC[$A],#B=[$B]O}", True, False),
        ("{[#A][#B]}.{#A=CC[>x],#B=[<y]O}", True, False),
        ("{[#A][#B]}.{#A=[#a][#b][$],#B=[$][#c]}", False, True),
        ("{[#A]=[#B][#A]}.{#A=[#a][$][$],#B=[$][$][#c][$]}", False, True),
        ("{[#A][#B]}.{#A=CC[!],#B=[!]CO}", True, True),
    ]
    for s, all_atom, legacy in strings:
        try:
            res = MoleculeResolver.from_string(s, last_all_atom=all_atom, legacy=legacy)
            res.meta_graph = res.molecule
            names = nx.get_node_attributes(res.meta_graph, "atomname") or nx.get_node_attributes(res.meta_graph, "fragname")
            nx.set_node_attributes(res.meta_graph, nx.get_node_attributes(res.meta_graph, "fragname"), "fragname")
            res.molecule = nx.Graph()
            res.resolve_disconnected_molecule(res.fragment_dicts[0])
        except Exception:      # noqa: preparation failed (a changed tree): this example is skipped
            continue
        yield {'self': res, 'all_atom': all_atom}


from pyvc.contract import lookup as _lookup   # noqa: E402
_lookup('cgsmiles.resolve:MoleculeResolver.edges_from_bonding_descrpt').examples = _ex_edges_from


# ------------------------------------------------------------------------------------------------
# MoleculeResolver.resolve_disconnected_molecule — instantiate one copy of the fragment of every real coarse node
_MG = "self.meta_graph"
_HASFRAG = "(has_attr(" + _MG + ", k, 'fragname') and attr(" + _MG + ", k, 'fragname') in fragment_dict)"
_GK = "attr(" + _MG + ", k, 'graph')"


_NODE_FACTS = ("all(has_attr(" + _MG + ", k, 'graph') and fresh_graph(" + _GK + ") and " + _GK + " != self.molecule and "
               "all(has_node(self.molecule, n) and has_attr(self.molecule, n, 'fragid') and len(attr(self.molecule, n, 'fragid')) == 1 and "
               "attr(self.molecule, n, 'fragid')[0] == k and has_attr(" + _GK + ", n, 'fragid') and len(attr(" + _GK + ", n, 'fragid')) == 1 and "
               "attr(" + _GK + ", n, 'fragid')[0] == k for n in nodes(" + _GK + ")) "
               "for k in nodes(" + _MG + ") if {cond})")


_COMPLETE = "(has_attr(self.molecule, n, 'fragid') and has_attr(self.molecule, n, 'mapping'))"
_DISTINCT = ("all(implies(attr(" + _MG + ", a, 'graph') == attr(" + _MG + ", b, 'graph'), a == b) "
             "for a in nodes(" + _MG + ") if {conda} for b in nodes(" + _MG + ") if {condb})")
_HASFRAG_A = _HASFRAG.replace(', k,', ', a,')
_HASFRAG_B = _HASFRAG.replace(', k,', ', b,')


def _ex_rdm():
    import logging
    logging.getLogger('pysmiles').setLevel(logging.ERROR)
    import networkx as nx
    from cgsmiles.resolve import MoleculeResolver
    strings = ["{[#A][#B]}.{#A=CC[$],#B=[$]O}", "{[#V].[#A][#B]}.{#A=CC[$],#B=[$]O}", "{[#A].[#V].[#B]}.{#A=CC[$],#B=[$]O}",
               "{[#A]|3}.{#A=[$]CC[$]}", "{[#A][#B]}.{#A=[#a][#b][$],#B=[$][#c]}", "{[#A][#V][#B]}.{#A=CC[$],#B=[$]O}",
               "{[#A]1[#B][#C]1}.{#A=[$]C[$],#B=[$]N[$],#C=[$]O[$]}", "{[#V]}.{#A=C}"]
    for s in strings:
        for all_atom in (True,):
            try:
                res = MoleculeResolver.from_string(s, last_all_atom=('#a' not in s))
            except Exception:
                continue
            res.meta_graph = res.molecule
            nx.set_node_attributes(res.meta_graph, nx.get_node_attributes(res.meta_graph, "fragname"), "fragname")
            res.molecule = nx.Graph()
            yield {'self': res, 'fragment_dict': res.fragment_dicts[0]}


contract(
    target='cgsmiles.resolve:MoleculeResolver.resolve_disconnected_molecule', serves=['C02', 'C11', 'C20', 'C01'],
    self_fields={'meta_graph': 'Graph:mol', 'molecule': 'Graph:mol'},
    types={'fragment_dict': 'Dict[Str,Graph:tmpl]'}, returns=None,
    requires=[
        _MG + " != self.molecule",
        "n_nodes(self.molecule) == 0",
        "all(has_attr(" + _MG + ", k, 'fragname') for k in nodes(" + _MG + "))",
        "all(has_eattr(" + _MG + ", e[0], e[1], 'order') for e in edge_list(" + _MG + "))",
        "all(fragment_dict[f] != self.molecule and fragment_dict[f] != " + _MG + " for f in keys(fragment_dict))",
    ],
    ensures=[
        # every real coarse node gets its own new fragment graph; its nodes are nodes of the fine graph that record exactly this
        # coarse node as their origin and carry the template atom they were copied from
        _NODE_FACTS.format(cond=_HASFRAG),
        # a node without a fragment (virtual node) is left alone
        "all(implies(not " + _HASFRAG + ", attr_unchanged(" + _MG + ", k, 'graph')) for k in nodes(" + _MG + "))",
        # different coarse nodes get different fragment-graph objects
        _DISTINCT.format(conda=_HASFRAG_A, condb=_HASFRAG_B),
        # every atom of the fine graph records its coarse node and the template atom it was copied from
        "all(" + _COMPLETE + " for n in nodes(self.molecule))",
    ],
    # a fragment-less node that takes part in a bond of order >= 1 is rejected
    raises={'SyntaxError': {'iff': True, 'when':
            "any(not " + _HASFRAG + " and any(has_edge(" + _MG + ", k, m) and eattr(" + _MG + ", k, m, 'order') != 0 for m in nodes(" + _MG + ")) "
            "for k in nodes(" + _MG + "))"}},
    modifies=["self.molecule", _MG + ":attr:graph"], allocates=True,
    loops={
        0: Loop(over='self.meta_graph.nodes', modifies=["self.molecule", _MG + ":attr:graph"], invariant=[
            _NODE_FACTS.format(cond=_HASFRAG + " and node_index(" + _MG + ", k) < _i0"),
            "all(implies(not " + _HASFRAG + " or node_index(" + _MG + ", k) >= _i0, attr_unchanged(" + _MG + ", k, 'graph')) for k in nodes(" + _MG + "))",
            # no fragment-less node seen so far takes part in a bond of order >= 1 (otherwise SyntaxError was raised)
            "all(implies(not " + _HASFRAG + " and node_index(" + _MG + ", k) < _i0, "
            "all(implies(has_edge(" + _MG + ", k, m), eattr(" + _MG + ", k, m, 'order') == 0) for m in nodes(" + _MG + "))) for k in nodes(" + _MG + "))",
            _DISTINCT.format(conda=_HASFRAG_A + " and node_index(" + _MG + ", a) < _i0", condb=_HASFRAG_B + " and node_index(" + _MG + ", b) < _i0"),
            "all(" + _COMPLETE + " for n in nodes(self.molecule))",
        ], lemmas=[
            "implies(not (has_attr(" + _MG + ", meta_node, 'fragname') and attr(" + _MG + ", meta_node, 'fragname') in fragment_dict), "
            "all(implies(has_edge(" + _MG + ", meta_node, m), eattr(" + _MG + ", meta_node, m, 'order') == 0) for m in nodes(" + _MG + ")))",
        ]),
        1: Loop(over='fragment.nodes', modifies=["self.molecule:attr:fragid,attr:mapping", "graph_frag"], invariant=[
            "fresh_graph(graph_frag) and graph_frag != self.molecule",
            # what was built for the coarse nodes before this one is not disturbed
            _NODE_FACTS.format(cond=_HASFRAG + " and node_index(" + _MG + ", k) < _i0") + " and "
            "all(" + _GK + " != graph_frag for k in nodes(" + _MG + ") if " + _HASFRAG + " and node_index(" + _MG + ", k) < _i0)",
            "forall_int(lambda n: implies(has_node(fragment, n), n in correspondence and has_node(self.molecule, correspondence[n])))",
            "all(any(correspondence[nodes(fragment)[j]] == n for j in range(_i1)) for n in nodes(graph_frag))",
            "all(has_node(graph_frag, correspondence[nodes(fragment)[j]]) and has_node(self.molecule, correspondence[nodes(fragment)[j]]) for j in range(_i1))",
            "all(has_attr(self.molecule, n, 'fragid') and len(attr(self.molecule, n, 'fragid')) == 1 and attr(self.molecule, n, 'fragid')[0] == meta_node and "
            "has_attr(graph_frag, n, 'fragid') and len(attr(graph_frag, n, 'fragid')) == 1 and attr(graph_frag, n, 'fragid')[0] == meta_node "
            "for n in nodes(graph_frag))",
            _DISTINCT.format(conda=_HASFRAG_A + " and node_index(" + _MG + ", a) < _i0", condb=_HASFRAG_B + " and node_index(" + _MG + ", b) < _i0"),
            # atoms before the one being processed are complete (keys of the copies are consecutive, in template order)
            "forall_int(lambda n: implies(has_node(self.molecule, n) and (n_nodes(fragment) == 0 or n < correspondence[nodes(fragment)[0]] + _i1), "
            + _COMPLETE + "))",
        ]),
        2: Loop(over='fragment.edges', modifies=["graph_frag:edges,eattrs"], invariant=[],
                pre_lemmas=["has_edge(fragment, a, b) and has_node(fragment, a) and has_node(fragment, b)"]),
    },
    heap_invariants=['fragid'],
    wf_all_graphs=True,
    callee_clauses={'merge_graphs': ['len(result)', 'keys(result)[j] ==', 'forall_int(lambda n: has_node(source_graph, n) ==',
                                     'implies(has_node(target_graph, n), n in result',
                                     "node_unchanged(source_graph, n)", "n_nodes(source_graph) =="]},
    examples=_ex_rdm,
)


# ------------------------------------------------------------------------------------------------
# MoleculeResolver.squash_atoms — the shared-atom operator (C10).  networkx.contracted_nodes is assumed.
_ATTRS_ALL = ('bonding', 'fragid', 'fragname', 'atomname', 'element', 'aromatic', 'hcount', 'charge', 'weight', 'graph',
              'mapping', 'position', 'ez_isomer_atoms', 'single_h_frag', 'order')

contract(
    target='networkx.contracted_nodes', trusted=True,
    params=[('G', None), ('u', None), ('v', None), ('self_loops', 'True'), ('copy', 'True')],
    types={'G': 'Graph:mol', 'u': 'Int', 'v': 'Int', 'self_loops': 'Bool', 'copy': 'Bool'},
    returns='Graph:mol', returns_fresh=True, allocates=True, modifies=[],
    # networkx raises KeyError / gives nonsense otherwise: the two nodes exist and are different atoms
    requires=["has_node(G, u) and has_node(G, v)", "u != v", "not self_loops and copy"],
    ensures=[
        "result != G",
        "forall_int(lambda n: has_node(result, n) == (has_node(G, n) and n != v))",
        "n_nodes(result) == n_nodes(G) - 1",
        # every remaining node keeps its attributes (the kept node additionally records the removed node's attributes)
    ] + ["forall_int(lambda n: implies(has_node(result, n), same_attr(result, n, G, n, '%s')))" % a for a in _ATTRS_ALL] + [
        "forall_int(lambda n: implies(has_node(result, n), same_other_attrs(result, n, G, n)))",
        "has_attr(result, u, 'contraction')",
        "implies(has_attr(G, v, 'fragid'), v in attr(result, u, 'contraction')[0] and attr(result, u, 'contraction')[0][v] == attr(G, v, 'fragid'))",
        "implies(has_attr(G, v, 'mapping'), v in attr(result, u, 'contraction')[1] and attr(result, u, 'contraction')[1][v] == attr(G, v, 'mapping'))",
        # edges: those not touching v are kept, those of v move to u, no self loop
        "forall_int(lambda a, b: has_edge(result, a, b) == (a != v and b != v and a != b and "
        "(has_edge(G, a, b) or (a == u and has_edge(G, v, b)) or (b == u and has_edge(G, a, v)))))",
        "forall_int(lambda a, b: implies(has_edge(G, a, b) and a != v and b != v, same_eattr(result, a, b, G, a, b, 'order') and "
        "same_eattr(result, a, b, G, a, b, 'bonding')))",
    ],
    assumes=['networkx.contracted_nodes(G, u, v, self_loops=False, copy=True) returns a new graph without v whose other nodes keep their '
             'attributes, with the edges of v moved to u and the attributes of v stored under nodes[u]["contraction"][v]'],
)


def _ex_squash():
    import logging
    logging.getLogger('pysmiles').setLevel(logging.ERROR)
    import networkx as nx
    from cgsmiles.resolve import MoleculeResolver
    strings = ["{[#A][#B]}.{#A=CC[!],#B=[!]CO}", "{[#A][#B][#C]}.{#A=CC[!a],#B=[!a]CC[!b],#C=[!b]CO}",
               "{[#A]1[#B][#C]1}.{#A=[!a]C[!c]C,#B=[!a]C[!b]O,#C=[!b]C[!c]N}", "{[#A]1[#B][#C]1}.{#A=[$]CC[!],#B=[$]CC[!],#C=[!][!]CN}",
               "{[#B]([#E])([#D])[#A]}.{#E=FC[!a],#D=NC[!b],#B=C[!a][!b][!c],#A=OC[!c]}", "{[#E]1.[#D][#B]1[#A]}.{#E=FC[!a],#D=NC[!b],#B=C[!a][!b][!c],#A=OC[!c]}",
               "{[#A][#B]}.{#A=CC[$],#B=[$]CO}", "{[#A][#B]}.{#A=[#a][#b][!],#B=[!][#b][#c]}",
               "{[#A]1([#E][#B][#C]12)[#S]2}.{#A=[!][!]CC[>],#E=[<]C[>],#B=[<]CC[!],#C=[!][!][!]CF,#S=[!][!]CO}",
               "{[#A]1[#B][#D][#C]1}.{#A=[$]CC[!],#B=[$]O[$],#D=[$]CC[!],#C=[!][!]C(C)C}"]
    for s in strings:
        try:
            res = MoleculeResolver.from_string(s, last_all_atom=('#a' not in s))
            res.meta_graph = res.molecule
            nx.set_node_attributes(res.meta_graph, nx.get_node_attributes(res.meta_graph, "fragname"), "fragname")
            res.molecule = nx.Graph()
            res.resolve_disconnected_molecule(res.fragment_dicts[0])
            res.edges_from_bonding_descrpt(all_atom=('#a' not in s))
        except Exception:      # noqa: preparation failed (a changed tree): this example is skipped
            continue
        yield {'self': res}


contract(
    target='cgsmiles.resolve:MoleculeResolver.squash_atoms', serves=['C10', 'C02'],
    self_fields={'molecule': 'Graph:mol'}, types={}, returns=None, locals={'squashed': 'Dict[Int,Int]'},
    requires=["all(has_attr(self.molecule, n, 'fragid') and has_attr(self.molecule, n, 'mapping') for n in nodes(self.molecule))"],
    ensures=[
        # exactly the atoms that were merged away are gone; nothing else is lost
        "forall_int(lambda n: implies(has_node(self.molecule, n), old(has_node(self.molecule, n))))",
        "all(has_attr(self.molecule, n, 'fragid') and has_attr(self.molecule, n, 'mapping') for n in nodes(self.molecule))",
    ],
    # run-time only (counting is outside the prover's reach): no membership entry is lost or invented by merging
    native_ensures=["sum(len(attr(self.molecule, n, 'fragid')) for n in nodes(self.molecule)) == "
                    "old(sum(len(attr(self.molecule, n, 'fragid')) for n in nodes(self.molecule)))",
                    "sum(len(attr(self.molecule, n, 'mapping')) for n in nodes(self.molecule)) == "
                    "old(sum(len(attr(self.molecule, n, 'mapping')) for n in nodes(self.molecule)))"],
    rebinds=['self.molecule'], modifies=[], allocates=True,
    ghosts={'kf': ('List[Int]', '[0]'), 'rf': ('List[Int]', '[0]'), 'merges': ('Int', '0')},
    on_call={'contracted_nodes': ["kf = attr(arg_G, arg_u, 'fragid')", "rf = attr(arg_G, arg_v, 'fragid')", "merges = merges + 1"]},
    loops={
        0: Loop(over='bondings.items()', invariant=[
            "forall_int(lambda n: has_node(self.molecule, n) == (old(has_node(self.molecule, n)) and not (n in squashed)))",
            "all(old(has_node(self.molecule, k)) and old(has_node(self.molecule, squashed[k])) for k in keys(squashed))",
            "all(has_attr(self.molecule, n, 'fragid') and has_attr(self.molecule, n, 'mapping') for n in nodes(self.molecule))",
            "len(squashed) == merges",
        ], pre_lemmas=["old(has_edge(self.molecule, edge[0], edge[1]))"],
            # the merged atom belongs to the coarse nodes of BOTH atoms: memberships are concatenated, nothing is dropped
            lemmas=["implies(merges == _e0_merges + 1 or True, True)",
                    "attr(self.molecule, node_to_keep, 'fragid') == kf + rf or node_to_keep == node_to_remove"]),
        1: Loop(kind='while', over='node_to_keep in squashed', invariant=["old(has_node(self.molecule, node_to_keep))"]),
        2: Loop(kind='while', over='node_to_remove in squashed', invariant=["old(has_node(self.molecule, node_to_remove))"]),
    },
    heap_invariants=['fragid'], wf_all_graphs=True,
    examples=_ex_squash,
)


# ------------------------------------------------------------------------------------------------
# MoleculeResolver.resolve — one resolution step (C06): the previous fine graph becomes the coarse graph, its atom names become
# fragment names, and the five steps are called in an order in which each one's precondition is established by the ones before it.
contract(
    target='cgsmiles.pysmiles_utils:annotate_ez_isomers_cgsmiles', trusted=True,
    types={'molecule': 'Graph:mol'}, returns=None, modifies=["molecule:attr:ez_isomer_class,attr:ez_isomer"],
    notes='assumed: pysmiles _annotate_ez_isomers; checked by the bounded tier (C15)',
    assumes=['pysmiles_utils.annotate_ez_isomers_cgsmiles writes only ez_isomer / ez_isomer_class node attributes'],
)


def _ex_resolve():
    import logging
    logging.getLogger('pysmiles').setLevel(logging.ERROR)
    from cgsmiles.resolve import MoleculeResolver
    strings = [("{[#A][#B]}.{#A=CC[$],#B=[$]O}", True), ("{[#X][#Y]}.{#X=[#A][#B][$],#Y=[$][#B]}.{#A=CC[$],#B=[$]O[$]}", True),
               ("{[#X]|3}.{#X=[$][#A][#B][$]}.{#A=[>]CC[<],#B=[>]COC[<]}", True), ("{[#A][#B]}.{#A=[#a][#b][$],#B=[$][#c]}", False),
               ("{[#X][#Y]}.{#X=[#A][#B][$],#Y=[$][#B]}.{#A=[#a][$],#B=[$][#b][$]}", False), ("{[#V].[#A][#B]}.{#A=CC[$],#B=[$]O}", True),
               ("{[#A]1[#B][#C]1}.{#A=[$]C[$],#B=[$]N[$],#C=[$]O[$]}", True),
               ("{[#X][#V].[#Y]}.{#X=[#A][#B][$],#Y=[$][#B]}.{#A=[#a][$],#B=[$][#b][$]}", False),
               ("{[#P][#Q]}.{#P=[#S][!][#A],#Q=[!][#S][#B]}.{#S=[#s][$],#A=[$][#a],#B=[$][#b]}", False)]
    # first the states that need no preparation (first level), then the later levels (prepared by the real resolve())
    for upto in (0, 1):
        for s, aa in strings:
            if s.count('}.{') <= upto:
                continue
            try:
                res = MoleculeResolver.from_string(s, last_all_atom=aa)
                for _ in range(upto):
                    res.resolve()
            except Exception:      # noqa: preparation failed (a changed tree): this example is skipped
                continue
            yield {'self': res}


contract(
    target='cgsmiles.resolve:MoleculeResolver.resolve', serves=['C06', 'C02', 'C11'],
    self_fields={'meta_graph': 'Graph:mol', 'molecule': 'Graph:mol', 'legacy': 'Bool', 'last_all_atom': 'Bool',
                 'resolution_counter': 'Int', 'resolutions': 'Int', 'fragment_dicts': 'List[Dict[Str,Graph:tmpl]]'},
    types={}, returns='Tuple[Graph:mol,Graph:mol]',
    requires=[
        "0 <= self.resolution_counter and self.resolution_counter < len(self.fragment_dicts) and self.resolutions == len(self.fragment_dicts)",
        "all(has_attr(self.molecule, n, 'fragname') for n in nodes(self.molecule))",
        "all(has_eattr(self.molecule, e[0], e[1], 'order') and eattr(self.molecule, e[0], e[1], 'order') >= 0 and "
        "eattr(self.molecule, e[0], e[1], 'order') == int(eattr(self.molecule, e[0], e[1], 'order')) and e[0] != e[1] for e in edge_list(self.molecule))",
        "all(self.fragment_dicts[self.resolution_counter][f] != self.molecule for f in keys(self.fragment_dicts[self.resolution_counter]))",
        # the graph to be refined is a plain molecule graph: its nodes do not carry fragment graphs yet
        "all(not has_attr(self.molecule, n, 'graph') for n in nodes(self.molecule))",
        # an intermediate (coarse-grained) level; the final all-atom level additionally runs pysmiles' hydrogen completion
        "not (self.resolution_counter == self.resolutions - 1 and self.last_all_atom)",
    ],
    ensures=[
        # the level counter advances by one
        "self.resolution_counter == old(self.resolution_counter) + 1",
        # the coarse graph of this step is the fine graph of the previous step (same object, same nodes, same bonds) ...
        "same_graph(result[0], old(self.molecule)) and self.meta_graph == result[0] and self.molecule == result[1] and result[1] != result[0]",
        "forall_int(lambda n: has_node(result[0], n) == old(has_node(self.molecule, n)))",
        "forall_int(lambda u, v: has_edge(result[0], u, v) == old(has_edge(self.molecule, u, v)))",
        # ... whose atom names have become the fragment names that select the next fragments
        "all(has_attr(result[0], n, 'fragname') and attr(result[0], n, 'fragname') == "
        "(old(attr(self.molecule, n, 'atomname')) if old(has_attr(self.molecule, n, 'atomname')) else old(attr(self.molecule, n, 'fragname'))) "
        "for n in nodes(result[0]))",
        # the mapping between the two returned graphs: atom n is in the fragment graph of coarse node k <=> k is in n's membership list
        "all(has_attr(result[0], k, 'graph') and all(has_node(result[1], n) and has_attr(result[1], n, 'fragid') and "
        "member(k, attr(result[1], n, 'fragid')) for n in nodes(attr(result[0], k, 'graph'))) for k in nodes(result[0]))",
        "all(all(implies(has_node(result[0], k), has_node(attr(result[0], k, 'graph'), n)) for k in attr(result[1], n, 'fragid')) "
        "for n in nodes(result[1]) if has_attr(result[1], n, 'fragid'))",
    ],
    raises={'SyntaxError': {'when': None}},
    rebinds=['self.molecule', 'self.meta_graph'], modifies=["self.molecule:attr:fragname,attr:graph"], allocates=True,
    heap_invariants=['descriptors', 'fragid'], wf_all_graphs=True,
    abstract=['spec_compatible', 'kind_ok'], opaque=['ends_in_digit', 'is_descriptor'],
    examples=_ex_resolve,
)


# ------------------------------------------------------------------------------------------------
# MoleculeResolver.__init__ and read_fragment_strings: the constructor state that resolve() starts from, and which level is
# read as atomistic (C06: "which level is atomistic").  read_fragments itself (the fragment scanner) is assumed.
contract(
    target='cgsmiles.read_fragments:read_fragments', trusted=True,
    params=[('fragment_str', None), ('all_atom', 'True'), ('fragment_dict', 'None')],
    types={'fragment_str': 'Str', 'all_atom': 'Bool', 'fragment_dict': 'Opt[Dict[Str,Graph:tmpl]]'}, returns='Dict[Str,Graph:tmpl]', modifies=[], allocates=True,
    # whatever the fragment reader rejects (SyntaxError, TypeError for a malformed annotation, KeyError, ValueError, ...) propagates
    raises={'Exception': {'when': None}},
    notes='assumed: the fragment scanner / pysmiles reader; checked by the bounded tier (C08, C13, C14)',
    assumes=['read_fragments returns a dict of new fragment graphs and modifies nothing else (or raises)'],
)


def _ex_rfs():
    import logging
    logging.getLogger('pysmiles').setLevel(logging.ERROR)
    for strings in (["{#A=CC[$],#B=[$]O}"], ["{#X=[#A][#B][$],#Y=[$][#B]}", "{#A=CC[$],#B=[$]O[$]}"], ["{#A=[#a][#b][$],#B=[$][#c]}"], []):
        for laa in (True, False):
            if not laa and any('=C' in s for s in strings[-1:]):
                continue
            yield {'fragment_strings': list(strings), 'last_all_atom': laa}


contract(
    target='cgsmiles.resolve:MoleculeResolver.read_fragment_strings', serves=['C06'],
    types={'fragment_strings': 'List[Str]', 'last_all_atom': 'Bool'}, returns='List[Dict[Str,Graph:tmpl]]',
    locals={'fragment_dicts': 'List[Dict[Str,Graph:tmpl]]'},
    ensures=[
        # one fragment dict per fragment string, in order ...
        "len(result) == len(fragment_strings)",
        "reads == len(fragment_strings)",
    ],
    raises={'Exception': {'when': None}},       # only what read_fragments raises (it is passed through unchanged)
    modifies=[], allocates=True,
    ghosts={'reads': ('Int', '0')},
    on_call={'read_fragments': [
        "reads = reads + 1",
        # ... the k-th string is the k-th one read, and it is read as atomistic exactly when it is the LAST string and the flag is set
        "assert arg_fragment_str == fragment_strings[idx] and idx == reads - 1",
        "assert arg_all_atom == (idx == len(fragment_strings) - 1 and last_all_atom)",
        # every level is read on its own: no fragment dict of another level is handed on
        "assert arg_fragment_dict is None"]},
    loops={0: Loop(over='enumerate(fragment_strings)', invariant=["len(fragment_dicts) == _i0 and reads == _i0"])},
    examples=_ex_rfs,
)


def _ex_init_resolver():
    import logging
    logging.getLogger('pysmiles').setLevel(logging.ERROR)
    from cgsmiles.resolve import MoleculeResolver
    from cgsmiles.read_cgsmiles import read_cgsmiles
    for base, strings, laa in (("{[#A][#B]}", ["{#A=CC[$],#B=[$]O}"], True), ("{[#X][#Y]}", ["{#X=[#A][#B][$],#Y=[$][#B]}", "{#A=CC[$],#B=[$]O[$]}"], True),
                               ("{[#A][#B]}", ["{#A=[#a][#b][$],#B=[$][#c]}"], False), ("{[#A]}", [], True)):
        try:
            g = read_cgsmiles(base)
            fd = MoleculeResolver.read_fragment_strings(strings, last_all_atom=laa)
        except Exception:      # noqa: preparation failed (a changed tree): this example is skipped
            continue
        yield {'self': MoleculeResolver.__new__(MoleculeResolver), 'molecule_graph': g, 'fragment_dicts': fd, 'last_all_atom': laa, 'legacy': True}


contract(
    target='cgsmiles.resolve:MoleculeResolver.__init__', serves=['C06'],
    self_fields={'meta_graph': 'Graph:mol', 'molecule': 'Graph:mol', 'legacy': 'Bool', 'last_all_atom': 'Bool',
                 'resolution_counter': 'Int', 'resolutions': 'Int', 'fragment_dicts': 'List[Dict[Str,Graph:tmpl]]'},
    types={'molecule_graph': 'Graph:mol', 'fragment_dicts': 'List[Dict[Str,Graph:tmpl]]', 'last_all_atom': 'Bool', 'legacy': 'Bool'},
    returns=None,
    ensures=[
        # the state resolve() starts from: level 0 of len(fragment_dicts) levels, the graph handed in is the graph to refine
        "self.resolution_counter == 0 and self.resolutions == len(fragment_dicts) and len(self.fragment_dicts) == len(fragment_dicts)",
        "self.molecule == molecule_graph and self.last_all_atom == last_all_atom and self.legacy == legacy",
        "self.meta_graph != self.molecule and n_nodes(self.meta_graph) == 0",
        # the graph handed in is not modified
        "forall_int(lambda n: node_unchanged(molecule_graph, n))",
    ],
    # the same frame in a form the run-time monitor can evaluate
    native_ensures=["n_nodes(molecule_graph) == old(n_nodes(molecule_graph)) and all(node_unchanged(molecule_graph, n) for n in nodes(molecule_graph))"],
    modifies=[], allocates=True,
    examples=_ex_init_resolver,
)
