"""Contracts for cgsmiles/resolve.py."""
from pyvc.contract import contract, Loop

DESCRS = ['$1', '$A1', '$A2', '$B1', '!1', '!A1', '<1', '>1', '<A1', '>A1', '>A2', '<B1', '$', '<', '>', '!']


def _ex_compatible():
    for l in DESCRS:
        for r in DESCRS:
            for legacy in (True, False):
                yield {'left': l, 'right': r, 'legacy': legacy}


contract(
    target='cgsmiles.resolve:compatible', serves=['C03', 'C10', 'C01'],
    types={'left': 'Str', 'right': 'Str', 'legacy': 'Bool'}, returns='Bool',
    # the kind precondition is real: without it the body answers True for ('A', 'A') (DESIGN A.1)
    requires=["kind_ok(left) and kind_ok(right)"],
    ensures=["result == spec_compatible(left, right, legacy)"],
    examples=_ex_compatible,
)


# ------------------------------------------------------------------------------------------------
# match_bonding_descriptors: first compatible pair in (source node, target node, source descriptor,
# target descriptor) lexicographic order; LookupError iff there is none; pure.
_NOPAIR = ("not spec_compatible(source_nodes[keys(source_nodes)[i]][a], "
           "target_nodes[keys(target_nodes)[j]][b], legacy)")
_WF = ("all(all(kind_ok(d) for d in attr({g}, n, 'bonding')) "
       "for n in nodes({g}) if has_attr({g}, n, 'bonding'))")


def _ex_match():
    import networkx as nx
    import itertools
    import random
    pool = [['$1'], ['$A1', '>1'], ['<1'], ['!1', '$B1'], [], ['>A1'], ['<A1', '$A1'], ['$B1', '$A1'], ['>1', '<A1']]
    combos = list(itertools.product(pool, repeat=4))
    random.Random(7).shuffle(combos)
    for sa, sb, ta, tb in combos:
        for legacy in (True, False):
            s = nx.Graph()
            s.add_node(0, bonding=list(sa))
            s.add_node(1, bonding=list(sb))
            s.add_node(2)
            t = nx.Graph()
            t.add_node(5, bonding=list(ta))
            t.add_node(3, bonding=list(tb))
            yield {'source': s, 'target': t, 'bond_attribute': 'bonding', 'legacy': legacy}


contract(
    target='cgsmiles.resolve:match_bonding_descriptors', serves=['C03', 'C01', 'C10'],
    types={'source': 'Graph:mol', 'target': 'Graph:mol', 'bond_attribute': 'Str', 'legacy': 'Bool'},
    fix={'bond_attribute': 'bonding'},
    returns='Tuple[Tuple[Int,Int],Tuple[Str,Str]]',
    requires=[_WF.format(g='source'), _WF.format(g='target')],
    ensures=[
        "has_attr(source, result[0][0], 'bonding') and member(result[1][0], attr(source, result[0][0], 'bonding'))",
        "has_attr(target, result[0][1], 'bonding') and member(result[1][1], attr(target, result[0][1], 'bonding'))",
        "spec_compatible(result[1][0], result[1][1], legacy)",
    ],
    raises={'LookupError': {'iff': True, 'when':
            "not any(spec_compatible(a, b, legacy) "
            "for s in nodes(source) if has_attr(source, s, 'bonding') "
            "for t in nodes(target) if has_attr(target, t, 'bonding') "
            "for a in attr(source, s, 'bonding') for b in attr(target, t, 'bonding'))"}},
    modifies=[], abstract=['spec_compatible', 'kind_ok'],
    loops={
        0: Loop(over='source_nodes', invariant=[
            "all(" + _NOPAIR + " for i in range(_i0) for j in range(len(target_nodes)) "
            "for a in range(len(source_nodes[keys(source_nodes)[i]])) for b in range(len(target_nodes[keys(target_nodes)[j]])))"]),
        1: Loop(over='target_nodes', invariant=[
            "all(" + _NOPAIR.replace('[i]', '[_i0]') + " for j in range(_i1) "
            "for a in range(len(source_nodes[keys(source_nodes)[_i0]])) for b in range(len(target_nodes[keys(target_nodes)[j]])))"]),
        2: Loop(over='bond_sources', invariant=[
            "all(" + _NOPAIR.replace('[i]', '[_i0]').replace('[j]', '[_i1]') + " for a in range(_i2) "
            "for b in range(len(target_nodes[keys(target_nodes)[_i1]])))"]),
        3: Loop(over='bond_targets', invariant=[
            "all(" + _NOPAIR.replace('[i]', '[_i0]').replace('[j]', '[_i1]').replace('[a]', '[_i2]') + " for b in range(_i3))"]),
    },
    examples=_ex_match,
)


# ------------------------------------------------------------------------------------------------
# MoleculeResolver.edges_from_bonding_descrpt — the point where inter-fragment bonds are created (C03)
_FG = "attr(self.meta_graph, {k}, 'graph')"
_DESCR_WF = ("all(all(all(kind_ok(d) and ends_in_digit(d) for d in attr(" + _FG.format(k='k') + ", n, 'bonding')) "
             "for n in nodes(" + _FG.format(k='k') + ") if has_attr(" + _FG.format(k='k') + ", n, 'bonding')) "
             "for k in nodes(self.meta_graph) if has_attr(self.meta_graph, k, 'graph'))")
_SUBSET = ("all(all(has_node(self.molecule, n) for n in nodes(" + _FG.format(k='k') + ")) "
           "for k in nodes(self.meta_graph) if has_attr(self.meta_graph, k, 'graph'))")
_ALLATOM = ("implies(all_atom, all(has_attr(self.molecule, n, 'element') and "
            "(attr(self.molecule, n, 'element') == 'H' or has_attr(self.molecule, n, 'hcount')) for n in nodes(self.molecule)))")

contract(
    target='cgsmiles.resolve:MoleculeResolver.edges_from_bonding_descrpt', serves=['C03', 'C09', 'C11', 'C01'],
    self_fields={'meta_graph': 'Graph:mol', 'molecule': 'Graph:mol', 'legacy': 'Bool'},
    types={'all_atom': 'Bool'}, returns=None,
    requires=[
        "self.meta_graph != self.molecule",
        # base-graph edge orders are non-negative integers
        "all(has_eattr(self.meta_graph, e[0], e[1], 'order') and eattr(self.meta_graph, e[0], e[1], 'order') >= 0 and "
        "eattr(self.meta_graph, e[0], e[1], 'order') == int(eattr(self.meta_graph, e[0], e[1], 'order')) for e in edge_list(self.meta_graph))",
        # both ends of an edge of order >= 1 carry a fragment graph
        "all(implies(eattr(self.meta_graph, e[0], e[1], 'order') >= 1, has_attr(self.meta_graph, e[0], 'graph') and "
        "has_attr(self.meta_graph, e[1], 'graph')) for e in edge_list(self.meta_graph))",
        # fragment graphs are separate objects from the two main graphs and from each other
        "all(" + _FG.format(k='k') + " != self.molecule and " + _FG.format(k='k') + " != self.meta_graph "
        "for k in nodes(self.meta_graph) if has_attr(self.meta_graph, k, 'graph'))",
        "all(implies(" + _FG.format(k='a') + " == " + _FG.format(k='b') + ", a == b) "
        "for a in nodes(self.meta_graph) if has_attr(self.meta_graph, a, 'graph') "
        "for b in nodes(self.meta_graph) if has_attr(self.meta_graph, b, 'graph'))",
        "all(e[0] != e[1] for e in edge_list(self.meta_graph))",
        _SUBSET, _ALLATOM,
    ],
    ensures=[],
    modifies=["self.molecule:edges,eattrs,attr:hcount", "graphs_of(self.meta_graph):attr:bonding"],
    ghosts={'bonds': ('Int', '0'), 'src_before': ('List[Str]', "['']"), 'tgt_before': ('List[Str]', "['']")},
    on_call={
        # snapshots of the two descriptor lists at the moment the pair is chosen
        'match_bonding_descriptors': [
            "src_before = attr(arg_source, result[0][0], 'bonding')",
            "tgt_before = attr(arg_target, result[0][1], 'bonding')"],
        'add_edge': [
            "bonds = bonds + 1",
            # the bond joins a node of each end's fragment graph (so only across this base-graph edge) ...
            "assert has_node(prev_graph, arg0) and has_node(node_graph, arg1)",
            # ... each of which carried the recorded descriptor, the pair being compatible under the convention in force
            "assert member(kw_bonding[0], src_before) and member(kw_bonding[1], tgt_before) and "
            "spec_compatible(kw_bonding[0], kw_bonding[1], self.legacy)",
            # each used descriptor instance is consumed: exactly its first occurrence is gone, nothing else changed
            "assert attr(prev_graph, arg0, 'bonding') == without_first(src_before, kw_bonding[0])",
            "assert attr(node_graph, arg1, 'bonding') == without_first(tgt_before, kw_bonding[1])",
            # annotated order, 1.5 between two aromatic atoms (value at creation; DESIGN §6 C03)
            "assert kw_order == (1.5 if (has_attr(self.molecule, arg0, 'aromatic') and attr(self.molecule, arg0, 'aromatic') and "
            "has_attr(self.molecule, arg1, 'aromatic') and attr(self.molecule, arg1, 'aromatic')) else int(kw_bonding[0][-1]))",
        ],
    },
    loops={
        0: Loop(over='edges', invariant=[_ALLATOM],
                pre_lemmas=["has_edge(self.meta_graph, prev_node, node)", "prev_node != node"],
                # never more bonds than the order of the base-graph edge being processed (none for order 0)
                lemmas=["bonds - _e1_bonds <= eattr(self.meta_graph, prev_node, node, 'order')"]),
        1: Loop(over="range(0, self.meta_graph.edges[prev_node, node]['order'])",
                invariant=[_ALLATOM, "bonds - _e1_bonds <= _i1"],
                pre_lemmas=["has_attr(self.meta_graph, prev_node, 'graph') and has_attr(self.meta_graph, node, 'graph')",
                            "attr(self.meta_graph, prev_node, 'graph') != attr(self.meta_graph, node, 'graph')"]),
    },
    abstract=['spec_compatible', 'kind_ok'], opaque=['ends_in_digit'], heap_invariants=['descriptors'],
    notes="data invariant: every 'bonding' list of every graph holds descriptors (kind symbol first, order digit last)",
)


def _ex_edges_from():
    """Resolver objects stopped just before the bonds are made (real fragments, real base graphs)."""
    import logging
    logging.getLogger('pysmiles').setLevel(logging.ERROR)
    import networkx as nx
    from cgsmiles.resolve import MoleculeResolver
    strings = [
        ("{[#A][#B]}.{#A=CC[$],#B=[$]O}", True, True),
        ("{[#A]=[#B]}.{#A=[$]=CC,#B=[$]=CO}", True, True),
        ("{[#A][#B][#A]}.{#A=[>]CC[<],#B=[>]COC[<]}", True, True),
        ("{[#A]|4}.{#A=[$]CC[$]}", True, True),
        ("{[#A]1[#A][#A]1}.{#A=[$]cc[$]}", True, True),
        ("{[#A]([#B])[#B]}.{#A=OC[$][$],#B=[$]CC}", True, True),
        ("{[#A].[#B]}.{#A=CC[$],#B=[$]O}", True, True),
        ("{[#A][#B]}.{#A=CC[$A],#B=[$B]O}", True, True),
        ("{[#A][#B]}.{#A=CC[$A],#B=[$B]O}", True, False),
        ("{[#A][#B]}.{#A=CC[>x],#B=[<y]O}", True, False),
        ("{[#A][#B]}.{#A=[#a][#b][$],#B=[$][#c]}", False, True),
        ("{[#A]=[#B][#A]}.{#A=[#a][$][$],#B=[$][$][#c][$]}", False, True),
        ("{[#A][#B]}.{#A=CC[!],#B=[!]CO}", True, True),
    ]
    for s, all_atom, legacy in strings:
        res = MoleculeResolver.from_string(s, last_all_atom=all_atom, legacy=legacy)
        res.meta_graph = res.molecule
        names = nx.get_node_attributes(res.meta_graph, "atomname") or nx.get_node_attributes(res.meta_graph, "fragname")
        nx.set_node_attributes(res.meta_graph, nx.get_node_attributes(res.meta_graph, "fragname"), "fragname")
        res.molecule = nx.Graph()
        res.resolve_disconnected_molecule(res.fragment_dicts[0])
        yield {'self': res, 'all_atom': all_atom}


from pyvc.contract import lookup as _lookup   # noqa: E402
_lookup('cgsmiles.resolve:MoleculeResolver.edges_from_bonding_descrpt').examples = _ex_edges_from
