"""Contracts for cgsmiles/resolve.py."""
from pyvc.contract import contract, Loop

DESCRS = ['$1', '$A1', '$A2', '$B1', '!1', '!A1', '<1', '>1', '<A1', '>A1', '>A2', '<B1', '$', '<', '>', '!']


def _ex_compatible():
    for l in DESCRS:
        for r in DESCRS:
            for legacy in (True, False):
                yield {'left': l, 'right': r, 'legacy': legacy}


contract(
    target='cgsmiles.resolve:compatible', serves=['C03', 'C10', 'C01'],
    types={'left': 'Str', 'right': 'Str', 'legacy': 'Bool'}, returns='Bool',
    # the kind precondition is real: without it the body answers True for ('A', 'A') (DESIGN A.1)
    requires=["len(left) >= 1 and len(right) >= 1",
              "left[0] in ['$', '!', '<', '>'] and right[0] in ['$', '!', '<', '>']"],
    ensures=["result == spec_compatible(left, right, legacy)"],
    examples=_ex_compatible,
)
