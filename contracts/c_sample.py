"""Contracts for cgsmiles/sample.py (MoleculeSampler)."""
from pyvc.contract import contract, Loop

_FD = "self.fragment_dict"


def _ex_add_fragment():
    import logging
    logging.getLogger('pysmiles').setLevel(logging.ERROR)
    import networkx as nx
    from cgsmiles.sample import MoleculeSampler
    from cgsmiles.graph_utils import merge_graphs
    from cgsmiles.cgsmiles_utils import find_open_bonds
    configs = [
        ("{#PEO=[>]COC[<],#OH=[$]O}", dict(polymer_reactivities={'>': 0.5, '<': 0.5}, all_atom=True)),
        ("{#A=[$][#a][#b][$],#B=[$A][#c]}", dict(polymer_reactivities={'$': 1.0, '$A': 0.0}, fragment_masses={'A': 2, 'B': 1}, all_atom=False)),
        ("{#A=[>A][#a][<A][$B],#T=[$B][#t]}", dict(polymer_reactivities={'>A': 0.4, '<A': 0.4, '$B': 0.2}, terminal_bonds=['$B'],
                                              fragment_masses={'A': 2, 'T': 1}, all_atom=False)),
        ("{#A=[$]=[#a][$],#B=[$]=[#c][$]}", dict(polymer_reactivities={'$2': 0.5, '$': 0.5}, fragment_masses={'A': 2, 'B': 1}, all_atom=False)),
        ("{#PS=[$A]CC[$B]c1ccccc1,#PMA=[$A]CC[$B]C(=O)OC}", dict(polymer_reactivities={'$A': 0.5, '$B': 0.5},
                                                                  fragment_reactivities={'$A': {'$A': 0.0, '$B': 1.0}, '$B': {'$A': 1.0, '$B': 0.0}}, all_atom=True)),
    ]
    for text, kw in configs:
        for seed in range(6):
            try:
                s = MoleculeSampler.from_fragment_string(text, seed=seed, **kw)
                mol = nx.Graph()
                merge_graphs(mol, s.fragment_dict[sorted(s.fragment_dict)[seed % len(s.fragment_dict)]])
            except Exception:      # noqa: preparation failed (a changed tree): this example is skipped
                continue
            for step in range(1 + seed % 3):
                try:
                    ob = find_open_bonds(mol)
                except Exception:  # noqa
                    break
                if not ob:
                    break
                yield {'self': s, 'molecule': mol, 'open_bonds': ob, 'fragments': s.fragments_by_bonding,
                       'polymer_reactivities': s.polymer_reactivities, 'fragment_reactivities': s.fragment_reactivities}


def _atom_attrs(g, n='n'):
    """What hydrogen completion (rebuild_h_atoms) needs of an atom: element, membership, fragment name, weight ..."""
    return ("has_attr({g}, {n}, 'element') and has_attr({g}, {n}, 'fragid') and has_attr({g}, {n}, 'fragname') and "
            "has_attr({g}, {n}, 'weight')").format(g=g, n=n)


def _atom_bonded(g, n='n'):
    """... and a hydrogen that is not a fragment of its own is bonded to another atom."""
    return ("implies(has_attr({g}, {n}, 'element') and attr({g}, {n}, 'element') == 'H' and "
            "not (has_attr({g}, {n}, 'single_h_frag') and attr({g}, {n}, 'single_h_frag')), "
            "any(has_edge({g}, {n}, m) and m != {n} for m in nodes({g})))").format(g=g, n=n)


def _all(pred, g):
    return "all(" + pred(g) + " for n in nodes(" + g + "))"


_TMPL_ATTRS = "all(" + _all(_atom_attrs, "self.fragment_dict[f]") + " for f in keys(self.fragment_dict))"
_TMPL_BONDED = "all(" + _all(_atom_bonded, "self.fragment_dict[f]") + " for f in keys(self.fragment_dict))"
_KEEPS_ATTRS = "implies(" + _TMPL_ATTRS + " and old(" + _all(_atom_attrs, "molecule") + "), " + _all(_atom_attrs, "molecule") + ")"
_KEEPS_BONDED = "implies(" + _TMPL_BONDED + " and old(" + _all(_atom_bonded, "molecule") + "), " + _all(_atom_bonded, "molecule") + ")"


_AF = dict(
    target='cgsmiles.sample:MoleculeSampler.add_fragment', serves=['C16', 'C17'],
    self_fields={'fragment_dict': 'Dict[Str,Graph:tmpl]', 'terminal_bonds': 'List[Str]'},
    types={'molecule': 'Graph:mol', 'open_bonds': 'DefaultDict[Str,List[Int]]',
           'fragments': 'DefaultDict[Str,List[Tuple[Str,Int]]]', 'polymer_reactivities': 'Dict[Str,Real]',
           'fragment_reactivities': 'Dict[Str,Dict[Str,Real]]'},
    returns='Tuple[Graph:mol,Str]', locals={'clean_bonds': 'List[Str]'},
    requires=[
        # the offered sites are open: every listed node carries the descriptor it is listed under
        "all(has_attr(molecule, n, 'bonding') and member(b, attr(molecule, n, 'bonding')) for b in keys(open_bonds) for n in open_bonds[b])",
        "all(is_descriptor(b) for b in keys(open_bonds))",
        "all(is_descriptor(b) for b in keys(fragments))",
        # the partner table points at template atoms that carry the descriptor
        "all(fn[0] in " + _FD + " and has_attr(" + _FD + "[fn[0]], fn[1], 'bonding') and "
        "member(b, attr(" + _FD + "[fn[0]], fn[1], 'bonding')) for b in keys(fragments) for fn in fragments[b])",
        "all(" + _FD + "[f] != molecule for f in keys(" + _FD + "))",
        # reactivities are probabilities
        "all(polymer_reactivities[k] >= 0 for k in keys(polymer_reactivities))",
        "all(all(fragment_reactivities[a][k] >= 0 for k in keys(fragment_reactivities[a])) for a in keys(fragment_reactivities))",
    ],
    ensures=[
        "result[0] == molecule and result[1] in " + _FD,
        # exactly one fragment copy and exactly one new bond per growth step
        "copies == 1 and bonds == 1",
        # an atom that received a terminal fragment offers no further descriptors; otherwise terminal descriptors are withdrawn
        "implies(member(cb, self.terminal_bonds), not has_attr(molecule, site, 'bonding'))",
        "implies(not member(cb, self.terminal_bonds), has_attr(molecule, site, 'bonding') and "
        "all(not member(x, self.terminal_bonds) for x in attr(molecule, site, 'bonding')))",
        # the partner descriptor of the new copy is consumed
        "attr(molecule, newnode, 'bonding') == without_first(partner_before, cb)",
        # ... and so is the descriptor used at the growth site (what is left there comes from the list without its first occurrence)
        "implies(not member(cb, self.terminal_bonds), len(attr(molecule, site, 'bonding')) <= len(site_before) - 1)",
        # atomistic fragments: if every template atom and every atom of the molecule is fit for hydrogen completion, so is every atom afterwards
    ],
    # run-time only: what is left at the growth site comes from its list without the first occurrence of the used descriptor
    native_ensures=["implies(not member(cb, self.terminal_bonds), all(member(x, without_first(site_before, sb)) for x in attr(molecule, site, 'bonding')))",
                    # hydrogen bookkeeping touches the two bonded atoms only
                    "all(implies(old(has_node(molecule, n)) and n != site, attr_unchanged(molecule, n, 'hcount')) for n in nodes(molecule))"],
    raises={'ValueError': {'when': None}, 'IndexError': {'when': None}, 'OSError': {'when': None}},
    modifies=["molecule"],
    ghosts={'copies': ('Int', '0'), 'bonds': ('Int', '0'), 'site': ('Int', '0'), 'newnode': ('Int', '0'), 'cb': ('Str', "''"), 'sb': ('Str', "''"),
            'partner_before': ('List[Str]', "['']"), 'site_before': ('List[Str]', "['']")},
    on_call={
        'merge_graphs': ["copies = copies + 1",
                         "partner_before = attr(arg_target_graph, target_node, 'bonding')"],
        'add_edge': [
            "bonds = bonds + 1", "site = arg0", "newnode = arg1", "cb = kw_bonding[1]", "sb = kw_bonding[0]",
            "site_before = attr(molecule, arg0, 'bonding')",
            # the bond joins an atom of the existing molecule to the copy of the drawn partner atom
            "assert old(has_node(molecule, arg0)) and not old(has_node(molecule, arg1)) and arg1 == correspondence[target_node]",
            # complementary descriptors of equal order, bond order = that order, site descriptor present on the site
            "assert complementary(kw_bonding[0], kw_bonding[1]) and kw_order == int(kw_bonding[0][-1])",
            "assert member(kw_bonding[0], old(attr(molecule, arg0, 'bonding'))) and member(kw_bonding[1], partner_before)",
            # zero reactivities are never chosen
            "assert implies(len(polymer_reactivities) > 0, kw_bonding[0] in polymer_reactivities and polymer_reactivities[kw_bonding[0]] > 0)",
            "assert implies(kw_bonding[0] in fragment_reactivities and len(fragment_reactivities[kw_bonding[0]]) > 0, "
            "kw_bonding[1] in fragment_reactivities[kw_bonding[0]] and fragment_reactivities[kw_bonding[0]][kw_bonding[1]] > 0)",
        ],
    },
    loops={1: Loop(over='other_bonds', modifies=[], invariant=[
        "all(not member(x, self.terminal_bonds) and member(x, other_bonds) for x in clean_bonds)",
        "all(kind_ok(x) and ends_in_digit(x) for x in clean_bonds)",
        "len(clean_bonds) <= _i1"])},
    after={"molecule.nodes[source_node]['bonding'].remove(bonding)": [
        "source_node == site and bonding == sb",
        "attr(molecule, source_node, 'bonding') == without_first(site_before, sb) and "
        "len(attr(molecule, source_node, 'bonding')) == len(site_before) - 1"],
           "correspondence = merge_graphs(molecule, self.fragment_dict[fragname])": [
        "has_node(self.fragment_dict[fragname], target_node) and target_node in correspondence",
        "has_node(molecule, correspondence[target_node]) and not old(has_node(molecule, correspondence[target_node])) and correspondence[target_node] != source_node",
        "has_attr(molecule, correspondence[target_node], 'bonding') and member(compl_bonding, attr(molecule, correspondence[target_node], 'bonding'))",
        "attr(molecule, correspondence[target_node], 'bonding') == attr(self.fragment_dict[fragname], target_node, 'bonding')",
        "has_node(molecule, source_node) and has_attr(molecule, source_node, 'bonding') and member(bonding, attr(molecule, source_node, 'bonding'))",
    ]},
    opaque=['complementary', 'is_descriptor', 'ends_in_digit', 'kind_ok'], heap_invariants=['descriptors', 'fragid'],
    wf_all_graphs=True,
    callee_clauses={'merge_graphs': ['implies(has_node(target_graph, n), n in result', 'forall_int(lambda n: has_node(source_graph, n) ==',
                                     'node_unchanged(source_graph, n)', "same_attr(source_graph, result[n], target_graph, n, 'bonding')",
                                     'not old(has_node(source_graph, m))', 'has_edge(source_graph, result[a], result[b])',
                                     'old(has_node(source_graph, u)) or old(has_node(source_graph, v))',
                                     'edge_unchanged(source_graph, u, v)'],
                    'find_complementary_bonding_descriptor': ['member(c, ellegible_descriptors) and complementary']},
    examples=_ex_add_fragment,
)
contract(**_AF)
# atomistic fragments: if every template atom and every atom of the molecule is fit for hydrogen completion, so is every atom afterwards
_FIT_T = [_TMPL_ATTRS, _TMPL_BONDED]
_FIT_M = [_all(_atom_attrs, "molecule"), _all(_atom_bonded, "molecule")]
_AFA = dict(_AF)
_AFA.update(variant='atomistic', native_ensures=[], requires=_AF['requires'] + _FIT_T + _FIT_M, ensures=[_AF['ensures'][0]] + _FIT_M, on_call={}, ghosts={},
            after={k: v + [_FIT_M[0],
                           # atoms that were there keep their bonds; a copied hydrogen is bonded to the copy of its template neighbour
                           "all(implies(old(has_node(molecule, n)), " + _atom_bonded("molecule") + ") for n in nodes(molecule))",
                           "all(implies(not old(has_node(molecule, n)), " + _atom_bonded("molecule") + ") for n in nodes(molecule))",
                           _FIT_M[1]] for k, v in _AF['after'].items() if 'merge_graphs' in k})
contract(**_AFA)


# ------------------------------------------------------------------------------------------------ assumed callee contracts
contract(
    target='cgsmiles.pysmiles_utils:rebuild_h_atoms', trusted=True,
    types={'mol_graph': 'Graph:mol'}, returns=None, modifies=["mol_graph"],
    notes='assumed: completes hydrogens inside pysmiles (fill_valence / add_explicit_hydrogens); only its frame is used',
    assumes=['pysmiles_utils.rebuild_h_atoms only modifies the graph it is given (its effect on valences is checked by the bounded tier, C09)'],
)
contract(
    target='cgsmiles.graph_utils:sort_nodes_by_attr', trusted=True,
    types={'graph': 'Graph:mol'}, returns='Graph:mol', modifies=[], allocates=True, returns_fresh=True,
    ensures=["result != graph"],
    notes='assumed here (relabelled copy via networkx.relabel_nodes); canonical numbering is checked by the bounded tier (C12, C16)',
    assumes=['graph_utils.sort_nodes_by_attr returns a new graph and leaves its argument unchanged (networkx.relabel_nodes(copy=True))'],
)
contract(
    target='cgsmiles.graph_utils:set_atom_names_atomistic', trusted=True,
    types={'molecule': 'Graph:mol'}, returns=None, modifies=["molecule:attr:atomname"],
    notes='assumed: writes only atomname',
    assumes=['graph_utils.set_atom_names_atomistic writes only the atomname attribute'],
)

_WF_SAMPLER = [
    "all(is_descriptor(b) for b in keys(self.fragments_by_bonding))",
    "all(fn[0] in self.fragment_dict and has_attr(self.fragment_dict[fn[0]], fn[1], 'bonding') and "
    "member(b, attr(self.fragment_dict[fn[0]], fn[1], 'bonding')) for b in keys(self.fragments_by_bonding) for fn in self.fragments_by_bonding[b])",
    "all(f in self.fragment_masses and n_nodes(self.fragment_dict[f]) > 0 for f in keys(self.fragment_dict))",
    "all(self.polymer_reactivities[k] >= 0 for k in keys(self.polymer_reactivities))",
    "all(all(self.fragment_reactivities[a][k] >= 0 for k in keys(self.fragment_reactivities[a])) for a in keys(self.fragment_reactivities))",
]


def _ex_sample():
    import logging
    logging.getLogger('pysmiles').setLevel(logging.ERROR)
    from cgsmiles.sample import MoleculeSampler
    configs = [
        ("{#PEO=[>]COC[<],#OH=[$]O}", dict(polymer_reactivities={'>': 0.5, '<': 0.5}, all_atom=True), [50, 100.5, 0, 44.05]),
        ("{#A=[$][#a][#b][$],#B=[$A][#c]}", dict(polymer_reactivities={'$': 1.0, '$A': 0.0}, fragment_masses={'A': 2, 'B': 1}, all_atom=False), [1, 2, 5, 6.5]),
        ("{#A=[>A][#a][<A]}", dict(polymer_reactivities={'>A': 0.5, '<A': 0.5}, fragment_masses={'A': 2.5}, all_atom=False), [5, 7.4, 7.5, 7.6]),
    ]
    for text, kw, targets in configs:
        for seed in range(4):
            for t in targets:
                try:
                    smp = MoleculeSampler.from_fragment_string(text, seed=seed, **kw)
                except Exception:      # noqa: preparation failed (a changed tree): this example is skipped
                    continue
                yield {'self': smp, 'target_weight': t, 'start_fragment': None}


_SA = dict(
    target='cgsmiles.sample:MoleculeSampler.sample', variant='coarse', serves=['C17', 'C16'],
    self_fields={'fragment_dict': 'Dict[Str,Graph:tmpl]', 'terminal_bonds': 'List[Str]',
                 'fragments_by_bonding': 'DefaultDict[Str,List[Tuple[Str,Int]]]', 'polymer_reactivities': 'Dict[Str,Real]',
                 'fragment_reactivities': 'Dict[Str,Dict[Str,Real]]', 'fragment_masses': 'Dict[Str,Real]', 'all_atom': 'Bool'},
    types={'target_weight': 'Real', 'start_fragment': 'Opt[Str]'}, returns='Graph:mol',
    # Coarse-grained mode.  In all-atom mode the same loop runs and rebuild_h_atoms / set_atom_names_atomistic are called
    # afterwards; establishing rebuild_h_atoms' precondition on the grown molecule is left to the bounded tier (C09, C16).
    requires=_WF_SAMPLER + ["implies(start_fragment is not None, start_fragment in self.fragment_dict)",
                            "len(self.fragment_dict) > 0", "not self.all_atom"],
    ensures=[
        # the summed mass of the fragments added during growth reaches the target and would be below it without the last one
        "added >= target_weight",
        "count == 0 or added - last < target_weight",
    ],
    raises={'ValueError': {'when': None}, 'IndexError': {'when': None}, 'OSError': {'when': None}, 'SyntaxError': {'when': None}},
    modifies=[], allocates=True,
    ghosts={'added': ('Real', '0'), 'last': ('Real', '0'), 'count': ('Int', '0')},
    on_call={'add_fragment': ["last = self.fragment_masses[result[1]]", "added = added + self.fragment_masses[result[1]]", "count = count + 1"]},
    loops={0: Loop(kind='while', over='current_weight < target_weight', modifies=["molecule"], invariant=[
        "current_weight == added and count >= 0",
        "count == 0 or added - last < target_weight",
        "fresh_graph(molecule)",
    ])},
    callee_clauses={'merge_graphs': [], 'find_open_bonds': ['for b in keys(result) for n in result[b]', 'len(result[b]) > 0', 'is_descriptor(b) for b in keys(result)'], 'add_fragment': ['result[0] == molecule']},
    opaque=['is_descriptor', 'complementary', 'ends_in_digit', 'kind_ok'], heap_invariants=['descriptors', 'fragid'],
    examples=_ex_sample,
)
contract(**_SA)

# All-atom mode (the default): additionally every atom handed to pysmiles' hydrogen completion is fit for it -- it carries element,
# membership, fragment name and weight, and a hydrogen that is not a fragment of its own is bonded -- provided the templates are.
_FIT_MS = [_all(_atom_attrs, "molecule"), _all(_atom_bonded, "molecule")]
_SAA = dict(_SA)
_SAA.update(
    variant='atomistic',
    requires=[r for r in _SA['requires'] if r != "not self.all_atom"] + ["self.all_atom", _TMPL_ATTRS, _TMPL_BONDED],
    loops={0: Loop(kind='while', over='current_weight < target_weight', modifies=["molecule"],
                   invariant=_SA['loops'][0].invariant + _FIT_MS)},
    callee_variants={'add_fragment': 'atomistic'},
    callee_clauses={'merge_graphs': ['implies(has_node(target_graph, n), n in result', 'forall_int(lambda n: has_node(source_graph, n) ==',
                                     "same_attr(source_graph, result[n], target_graph, n, 'bonding')",
                                     'not old(has_node(source_graph, m))', 'has_edge(source_graph, result[a], result[b])',
                                     'has_edge(source_graph, m, result[k])'],
                    'find_open_bonds': _SA['callee_clauses']['find_open_bonds'],
                    'add_fragment': ['result[0] == molecule', "has_attr(molecule, n, 'element')"]},
    after={"merge_graphs(molecule, fragment)": _FIT_MS},
)
contract(**_SAA)



# ------------------------------------------------------------------------------------------------ MoleculeSampler.__init__
# The constructor establishes what sample() / add_fragment() require of the sampler object: the partner table lists, under
# each descriptor, exactly template atoms that carry it; every key of the table is a descriptor; with atomistic fragments and
# no mass table every fragment gets a (positive) mass computed from a COPY of the template.
def _ex_init():
    import logging
    logging.getLogger('pysmiles').setLevel(logging.ERROR)
    from cgsmiles.read_fragments import read_fragments
    configs = [("{#PEO=[$]COC[$]}", True, dict(polymer_reactivities={'$': 1.0})),
               ("{#PEO=[>]COC[<],#OH=[$]O}", True, dict(polymer_reactivities={'>': 0.4, '<': 0.4, '$': 0.2}, terminal_bonds=['$'])),
               ("{#A=[$][#a][#b][$],#B=[$A][#c]}", False, dict(polymer_reactivities={'$': 1.0, '$A': 0.0}, fragment_masses={'A': 2, 'B': 1})),
               ("{#A=[>A][#a][<A]}", False, dict(polymer_reactivities={'>A': 0.5, '<A': 0.5}, fragment_masses={'A': 2.5})),
               ("{#PS=[$A]CC[$B]c1ccccc1,#PMA=[$A]CC[$B]C(=O)OC}", True,
                dict(polymer_reactivities={'$A': 0.5, '$B': 0.5}, fragment_reactivities={'$A': {'$A': 0.0, '$B': 1.0}, '$B': {'$A': 1.0, '$B': 0.0}})),
               ("{#A=[$][#a][$]}", False, dict(polymer_reactivities={'$': 1.0})),
               ("{#A=[$][#a][$]}", False, dict(polymer_reactivities={'$': 1.0}, fragment_masses={})),
               ("{#PEO=[$]COC[$]}", True, dict(polymer_reactivities={'$': 1.0}, fragment_masses={})),
               # atomistic fragments AND a mass table
               ("{#PEO=[>]COC[<],#OH=[$]O}", True, dict(polymer_reactivities={'>': 0.4, '<': 0.4, '$': 0.2}, fragment_masses={'PEO': 44.05, 'OH': 17.0}))]
    from cgsmiles.sample import MoleculeSampler
    for text, aa, kw in configs:
        try:
            frags = read_fragments(text, all_atom=aa)
        except Exception:      # noqa: preparation failed (a changed tree): this example is skipped
            continue
        obj = MoleculeSampler.__new__(MoleculeSampler)
        args = dict(fragment_reactivities={}, terminal_bonds=[], fragment_masses=None, seed=3)
        args.update(kw)
        yield dict(self=obj, fragment_dict=frags, all_atom=aa, **args)


_FBB = "self.fragments_by_bonding"
_INIT_TABLE = ("all(fn[0] in fragment_dict and has_node(fragment_dict[fn[0]], fn[1]) and has_attr(fragment_dict[fn[0]], fn[1], 'bonding') and "
               "member(b, attr(fragment_dict[fn[0]], fn[1], 'bonding')) for b in keys(" + _FBB + ") for fn in " + _FBB + "[b])")
_INIT_COMPLETE = ("all(all(all(d in " + _FBB + " and member((f, n), " + _FBB + "[d]) for d in attr(fragment_dict[f], n, 'bonding')) "
                  "for n in nodes(fragment_dict[f]) if has_attr(fragment_dict[f], n, 'bonding'){inner}) for f in keys(fragment_dict){outer})")

contract(
    target='cgsmiles.sample:MoleculeSampler.__init__', serves=['C16', 'C17'],
    self_fields={'fragment_dict': 'Dict[Str,Graph:tmpl]', 'terminal_bonds': 'List[Str]',
                 'fragments_by_bonding': 'DefaultDict[Str,List[Tuple[Str,Int]]]', 'terminals_by_bonding': 'DefaultDict[Str,List[Tuple[Str,Int]]]',
                 'polymer_reactivities': 'Dict[Str,Real]', 'fragment_reactivities': 'Dict[Str,Dict[Str,Real]]',
                 'fragment_masses': 'Dict[Str,Real]', 'all_atom': 'Bool'},
    types={'fragment_dict': 'Dict[Str,Graph:tmpl]', 'polymer_reactivities': 'Dict[Str,Real]', 'fragment_reactivities': 'Dict[Str,Dict[Str,Real]]',
           'terminal_bonds': 'List[Str]', 'fragment_masses': 'Opt[Dict[Str,Real]]', 'all_atom': 'Bool', 'seed': 'Opt[Int]'},
    returns=None, locals={'bondings': 'Dict[Int,List[Str]]'},
    requires=[
        # descriptor spellings: non-empty, and no two keys that collide once the default order '1' is appended
        "all(len(b) >= 1 for b in keys(polymer_reactivities)) and all(len(b) >= 1 for b in terminal_bonds)",
        "all(implies(default_suffix(keys(polymer_reactivities)[a]) == default_suffix(keys(polymer_reactivities)[b]), a == b) "
        "for a in range(len(polymer_reactivities)) for b in range(len(polymer_reactivities)))",
        "all(len(k) >= 1 and all(len(b) >= 1 for b in keys(fragment_reactivities[k])) and "
        "all(implies(default_suffix(keys(fragment_reactivities[k])[a]) == default_suffix(keys(fragment_reactivities[k])[b]), a == b) "
        "for a in range(len(fragment_reactivities[k])) for b in range(len(fragment_reactivities[k]))) for k in keys(fragment_reactivities))",
        # a mass table is given, or the fragments are atomistic and fit for hydrogen completion with known elements
        "implies(fragment_masses is None or len(fragment_masses) == 0, implies(all_atom, " + _TMPL_ATTRS.replace('self.fragment_dict', 'fragment_dict')
        + " and all(all(implies(has_attr(fragment_dict[f], n, 'element') and attr(fragment_dict[f], n, 'element') == 'H' and "
        "not (has_attr(fragment_dict[f], n, 'single_h_frag') and attr(fragment_dict[f], n, 'single_h_frag')), has_neighbor(fragment_dict[f], n)) "
        "for n in nodes(fragment_dict[f])) for f in keys(fragment_dict))"
        " and all(all(known_element(attr(fragment_dict[f], n, 'element')) for n in nodes(fragment_dict[f])) for f in keys(fragment_dict)) and known_element('H')))",
    ],
    ensures=[
        "self.all_atom == all_atom and len(self.fragment_dict) == len(fragment_dict) and "
        "all(f in self.fragment_dict and self.fragment_dict[f] == fragment_dict[f] for f in keys(fragment_dict))",
        # the partner table: sound (every entry is a template atom carrying the descriptor it is listed under) ...
        _INIT_TABLE,
        # ... and complete (every descriptor of every template atom is listed)
        _INIT_COMPLETE.format(inner='', outer=''),
        "all(is_descriptor(b) for b in keys(" + _FBB + "))",
        # masses: the given table, or one positive computed mass per fragment
        "implies(fragment_masses is not None and len(fragment_masses) > 0, "
        "all(f in self.fragment_masses and self.fragment_masses[f] == fragment_masses[f] for f in keys(fragment_masses)))",
        "implies(fragment_masses is None or len(fragment_masses) == 0, all(f in self.fragment_masses for f in keys(fragment_dict)))",
        # reactivities keep their values under the completed spelling of their keys
        "all(default_suffix(k) in self.polymer_reactivities and self.polymer_reactivities[default_suffix(k)] == polymer_reactivities[k] "
        "for k in keys(polymer_reactivities))",
    ],
    raises={'OSError': {'iff': True, 'when': "(fragment_masses is None or len(fragment_masses) == 0) and not all_atom"},
            'SyntaxError': {'when': None}},
    modifies=[], allocates=True, heap_invariants=['descriptors', 'fragid'], opaque=['is_descriptor'],
    loops={
        0: Loop(over='fragment_reactivities.items()', invariant=[]),
        1: Loop(over='self.fragment_dict.items()', invariant=[
            _INIT_TABLE, _INIT_COMPLETE.format(inner='', outer=' if key_index(fragment_dict, f) < _i1'),
            "all(is_descriptor(b) for b in keys(" + _FBB + "))",
            # (stated over the arguments, not over the local flag the code happens to use)
            "implies(fragment_masses is None or len(fragment_masses) == 0, "
            "all(f in self.fragment_masses for f in keys(fragment_dict) if key_index(fragment_dict, f) < _i1))",
            "implies(fragment_masses is not None and len(fragment_masses) > 0, "
            "all(f in self.fragment_masses and self.fragment_masses[f] == fragment_masses[f] for f in keys(fragment_masses)))"]),
        2: Loop(over='bondings.items()', invariant=[
            _INIT_TABLE, _INIT_COMPLETE.format(inner='', outer=' if key_index(fragment_dict, f) < _i1'),
            "all(is_descriptor(b) for b in keys(" + _FBB + "))",
            "all(all(d in " + _FBB + " and member((fragname, n), " + _FBB + "[d]) for d in attr(fraggraph, n, 'bonding')) "
            "for n in nodes(fraggraph) if has_attr(fraggraph, n, 'bonding') and key_index(_it2, n) < _i2)",
            "fragname in fragment_dict and fragment_dict[fragname] == fraggraph and key_index(fragment_dict, fragname) == _i1",
            "all((n in _it2) == (has_node(fraggraph, n) and has_attr(fraggraph, n, 'bonding')) for n in nodes(fraggraph))"]),
        3: Loop(over='bondings', invariant=[
            _INIT_TABLE, _INIT_COMPLETE.format(inner='', outer=' if key_index(fragment_dict, f) < _i1'),
            "all(is_descriptor(b) for b in keys(" + _FBB + "))",
            "all(all(d in " + _FBB + " and member((fragname, n), " + _FBB + "[d]) for d in attr(fraggraph, n, 'bonding')) "
            "for n in nodes(fraggraph) if has_attr(fraggraph, n, 'bonding') and key_index(_it2, n) < _i2)",
            "all(attr(fraggraph, node, 'bonding')[j] in " + _FBB + " and member((fragname, node), " + _FBB + "[attr(fraggraph, node, 'bonding')[j]]) "
            "for j in range(_i3))",
            # the list being walked is the descriptor list of `node` of the template under work
            "has_node(fraggraph, node) and has_attr(fraggraph, node, 'bonding') and _it3 == attr(fraggraph, node, 'bonding')",
            "node in _it2 and key_index(_it2, node) == _i2",
            "fragname in fragment_dict and fragment_dict[fragname] == fraggraph and key_index(fragment_dict, fragname) == _i1"]),
    },
    examples=_ex_init,
)
