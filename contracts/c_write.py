"""Contracts for cgsmiles/write_cgsmiles.py."""
import itertools
from pyvc.contract import contract, Loop


def _ex_format_bonding():
    pool = ['$1', '$A1', '>A2', '<B3', '$0', '!1', '>2', '<0', '$X3', '!a4']
    yield {'bonding': []}
    for n in (1, 2, 3):
        for combo in itertools.product(pool, repeat=n):
            yield {'bonding': list(combo)}


contract(
    target='cgsmiles.write_cgsmiles:format_bonding', serves=['C08'],
    types={'bonding': 'List[Str]'}, returns='Str',
    # every stored descriptor is kind+label+order digit; the writer knows symbols for orders 0..4
    requires=["all(len(d) >= 2 and d[-1] in ['0', '1', '2', '3', '4'] for d in bonding)"],
    # every descriptor, in order, each with its own order symbol ('' for a single bond)
    ensures=["result == fmt_descriptors(bonding, len(bonding))"],
    loops={0: Loop(over='bonding', invariant=["bond_str == fmt_descriptors(bonding, _i0)"])},
    examples=_ex_format_bonding,
)
