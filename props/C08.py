"""
C08 -- fragment definitions and complete strings round-trip through the writer.

Bounded tier (reader and writer are scanner / serialiser code; only `format_bonding` is a P target, wired in
elsewhere).  Three kinds of case, all run against the real code of the tree under test:

fb    `format_bonding(list)` against a by-construction expectation: the output must be a concatenation of
      pieces `<order symbol?>[<kind><label>]`, one per descriptor, whose multiset of (order, kind+label) equals
      the input's.  Order 1 may be written with no symbol or with '-'.
frag  a fragment SET `{#n1=..,#n2=..}` rendered by generator G3 from skeletons + descriptor insertions;
      F = read_fragments(text, all_atom); the relational postcondition of the writer is
          read_fragments(write_cgsmiles_fragments(F, smiles_format=all_atom), all_atom)  ~=  F
      : same fragment names, and per fragment an isomorphism respecting element / charge / aromaticity
      (atomistic) or the node's own name 'atomname' (coarse), 'fragname', every bonding descriptor on its atom
      (multiset per atom of kind+label+order strings) and bond orders.  When the reader of the tree under test
      does not report the descriptors G3 wrote (e.g. it cannot read order 0), the same postcondition is also
      checked on the *constructed* fragment set: read_fragments(clean text) with the 'bonding' lists set by
      construction -- the statement quantifies over fragment sets with orders 0-3, not over what one particular
      reader version manages to produce.
full  a complete multi-level string s: with r = MoleculeResolver.from_string(s),
          resolve_all(from_string(write_cgsmiles(r.molecule, r.fragment_dicts, last_all_atom)))  ~=  resolve_all(s)
      on the final molecule (element, charge, aromaticity, bond orders incl. hydrogens; for a coarse last
      level: node name, fragment name, bond orders).

Scope decisions (demand no more than the statement):
* "every fragment set the reader accepts": a text read_fragments rejects, or an original string that does not
  resolve, is skipped (not a failure).  Failures are only writer exceptions, reader exceptions on WRITTEN text
  and non-isomorphic results.
* Descriptor lists are compared as multisets per atom (the statement fixes kind, label, order and atom).
* Orders 0-3 only (symbols none . - = #); '$' (4) and ':' (1.5) are outside the quantifier.
* hcount, isotope, weights, chirality / cis-trans marks and other annotations are not in the statement and are
  not compared (the writer does not write annotations); coarse-node charges are not generated (F13 of C14).
* Fragment skeletons are connected; no wildcard atoms; no `|n` inside enumerated coarse fragments; coarse
  fragments never end in a `%nn` marker (the coarse reader rejects those: not "accepted").
* Complete strings are built so that resolution is unambiguous (unique fragment per node, unique label per
  bond), plus documented classics whose ambiguous matches are symmetric; otherwise "the same molecule" could
  legitimately depend on atom order in the written text.
"""
import copy
import itertools
import logging
import random
import re
import networkx as nx
from vf.bounded import Outcome, Failure
from vf.util import call
from gen import g3_fragment_text as g3

ID = 'C08'
LEVEL = 'other'
P_TARGETS = ['cgsmiles.write_cgsmiles:format_bonding']
BUDGET = {'quick': 33.0, 'thorough': 420.0}
CHUNK = 40
BOUNDS = {
    'quick': {'format_bonding': 'all lists of <= 2 descriptors over 4 kinds x labels "",A x orders 0-3, all lists of 3 '
                                'over 10 descriptors',
              'fragment_skeletons': '35 atomistic + 16 coarse (G3 RT_ATOMISTIC / RT_COARSE: chains, branches, rings, '
                                    'ring-bond symbols, %nn, charged / bracket / two-letter / aromatic atoms)',
              'fragments_per_set': 3,
              'insertions': 'singles: every slot x 60 descriptors (4 kinds x labels "",A,1a x symbols none . - = #); '
                            'two after one atom: 10 x 10 sequences; three after one atom (first / last atom): 5^3; '
                            'two on different slots: every slot pair x 4 x 4',
              'descriptors_per_atom_max': 3,
              'complete_strings': 'classics (18) + every 2nd by-construction design: 14 graph shapes (<= 5 nodes, '
                                  'bond orders 1-3, branch / ring bonds with order, virtual node) x fragment rotations '
                                  'x 4 descriptor kind schemes x orders 1-3; 3-level and coarse-last-level variants',
              'random_fragment_sets': 1500},
    'thorough': {'format_bonding': 'all lists of <= 3 descriptors over 32, all lists of 4 over 10',
                 'fragment_skeletons': '35 atomistic + 16 coarse', 'fragments_per_set': 3,
                 'insertions': 'singles x 60; two on one slot 20 x 20 ... ; three on one slot 10^3 (leading / first / last '
                               'atom); four on one slot 5^4 (first atom); two on different slots: every slot pair x 10 x 10; '
                               'three on different slots: 5^3 on 12 skeletons',
                 'descriptors_per_atom_max': 4,
                 'complete_strings': 'classics + all by-construction designs',
                 'random_fragment_sets': 60000},
}
EXHAUSTIVE = {'quick': False, 'thorough': False}
RULE = ('fb: enumerated descriptor lists; frag: G3 skeleton x enumerated insertion sequences, packed three fragments to '
        'a set (names vary), then seeded random sets with <= 4 insertions per fragment; full: documented strings and '
        'by-construction designs (graph shape x fragment library rotation x descriptor kinds x orders x attachment '
        'sites).  Non-trivial: fb -- >= 2 descriptors or an order != 1; frag -- at least one descriptor in the set; '
        'full -- the reference resolution made at least one inter-fragment bond or has >= 2 fragment levels.  '
        'distinct = distinct descriptor list / fragment-set text / complete string')
ASSUMPTIONS = ['pysmiles.read_smiles, format_atom, _write_edge_symbol, _get_ring_marker behave as documented (not verified)',
               'isomorphism is decided by networkx.is_isomorphic with the node / edge matches named in the module docstring',
               'the expected descriptor lists of the constructed fragment sets come from gen/g3_fragment_text.render',
               'node i of a fragment graph is the i-th atom / node of its text (pysmiles.read_smiles and read_cgsmiles number '
               'nodes in order of appearance) -- used only to build constructed fragment sets']

_NAMES = ['X', 'PEO', 'A1', 'TC4', 'b', 'OHter', 'Y2']


def init_worker():
    logging.getLogger('pysmiles').setLevel(logging.ERROR)
    logging.getLogger('cgsmiles').setLevel(logging.ERROR)


# ------------------------------------------------------------------------------------------------ cases
def _fb_alphabet(labels=('', 'A')):
    return [k + l + str(o) for o in (1, 2, 0, 3) for l in labels for k in g3.KINDS]


def _fb_cases(tier):
    alpha = _fb_alphabet()
    small = ['$1', '>A2', '<0', '!B3', '$A0', '$2', '>1', '<A3', '!0', '$1a1']
    yield {'kind': 'fb', 'bonding': []}
    top = 2 if tier == 'quick' else 3
    for n in range(1, top + 1):
        for combo in itertools.product(alpha, repeat=n):
            yield {'kind': 'fb', 'bonding': list(combo)}
    for combo in itertools.product(small, repeat=top + 1):
        yield {'kind': 'fb', 'bonding': list(combo)}


def _frag_items(tier, aa):
    """Stream of (skeleton, insertions), most discriminating first."""
    sks = g3.RT_ATOMISTIC if aa else g3.RT_COARSE
    full, med, small = g3.rt_alphabet_full(), g3.rt_alphabet_medium(), g3.rt_alphabet_small()
    thorough = tier == 'thorough'

    def key_slots(s):
        p = g3.parse(s)
        return sorted({p.atoms[0], p.atoms[-1]} | ({-1} if thorough else set()))

    def atom_slots(s):
        # the writer puts all descriptors of an atom directly after it, so stacks on the ring-marker / branch-close
        # slots of the same atom add nothing on the writer's side (they are covered by singles and slot pairs)
        p = g3.parse(s)
        return p.atoms if not thorough else p.slots
    for s in sks:
        yield s, []
    for s in sks:
        yield from ((s, ins) for ins in g3.single_insertions(s, full))
    two = (full[:20] if thorough else med)
    for s in sks:
        yield from ((s, ins) for ins in g3.stacks_on_one_slot(s, 2, two, slots=atom_slots(s)))
    for s in sks:
        yield from ((s, ins) for ins in g3.stacks_on_one_slot(s, 3, med if thorough else small, slots=key_slots(s)))
    if thorough:
        for s in sks:
            yield from ((s, ins) for ins in g3.stacks_on_one_slot(s, 4, small, slots=[g3.parse(s).atoms[0]]))
    for s in sks:
        slots = g3.parse(s).slots
        for a, b in itertools.combinations(slots, 2):
            for d1 in (med if thorough else small[:4]):
                for d2 in (med if thorough else small[1:]):
                    yield s, [[a] + list(d1), [b] + list(d2)]
    if thorough:
        for s in sks[:12]:
            slots = g3.parse(s).slots
            for combo in itertools.combinations(slots, 3):
                for ds in itertools.product(small, repeat=3):
                    yield s, [[sl] + list(d) for sl, d in zip(combo, ds)]


def _pack(items, aa, per_set=3):
    buf = []
    n = 0
    for s, ins in items:
        # a coarse fragment whose nodes all carry the fragment's own name is legal and worth having
        name = _NAMES[(n + len(buf)) % len(_NAMES)]
        if not aa and s == 'A:#TC4 A:#TC4':
            name = 'TC4'
        if name in [b[0] for b in buf]:
            name = name + str(len(buf))
        buf.append([name, s, ins])
        if len(buf) == per_set:
            yield {'kind': 'frag', 'aa': aa, 'frags': buf}
            buf = []
            n += 1
    if buf:
        yield {'kind': 'frag', 'aa': aa, 'frags': buf}


def _random_sets(seed, n_sets, max_ins=4):
    rng = random.Random(seed * 104729 + 8)
    labels = ['', '', 'A', 'B', '1', '1a', 'x9']
    for i in range(n_sets):
        aa = rng.random() < 0.65
        sks = g3.RT_ATOMISTIC if aa else g3.RT_COARSE
        frags = []
        for j in range(rng.randint(1, 3)):
            s = rng.choice(sks)
            p = g3.parse(s)
            ins = sorted(([rng.choice(p.slots), rng.choice(g3.KINDS), rng.choice(labels), rng.choice(g3.RT_SYMS)]
                          for _ in range(rng.randint(1, max_ins))), key=lambda x: p.slots.index(x[0]))
            frags.append([_NAMES[(i + j) % len(_NAMES)] + ('' if j == 0 else str(j)), s, ins])
        yield {'kind': 'frag', 'aa': aa, 'frags': frags}


def _roundrobin(*gens):
    gens = [iter(g) for g in gens]
    while gens:
        alive = []
        for g in gens:
            try:
                yield next(g)
                alive.append(g)
            except StopIteration:
                pass
        gens = alive


def cases(tier, seed):
    yield from _fb_cases(tier)
    strings = list(g3.complete_strings(tier))
    n_classic = len(g3.CLASSIC_STRINGS)
    if tier == 'quick':
        strings = strings[:n_classic] + strings[n_classic::2]
    full = ({'kind': 'full', 'text': s, 'laa': laa} for s, laa in strings)
    # interleave so that every kind gets evaluated early even if the budget cuts the run short
    yield from _roundrobin(_pack(_frag_items(tier, True), True), _pack(_frag_items(tier, False), False), full)
    yield from _random_sets(seed, BOUNDS[tier]['random_fragment_sets'])


# ------------------------------------------------------------------------------------------------ oracles
_PIECE = re.compile(r'([.\-=#$:]?)\[([^\[\]]*)\]')
_SYM_ORDER = {'': 1, '-': 1, '=': 2, '#': 3, '.': 0, '$': 4, ':': 1.5}


def _split_bonding_text(text):
    """'=[$A][>]' -> [(2, '$A'), (1, '>')]; None when the text is not a sequence of descriptor pieces."""
    pos, out = 0, []
    while pos < len(text):
        m = _PIECE.match(text, pos)
        if not m:
            return None
        out.append((_SYM_ORDER[m.group(1)], m.group(2)))
        pos = m.end()
    return out


def _bond_multiset(lst):
    return sorted(lst or [])


def _node_match(aa):
    if aa:
        def nm(a, b):
            return (a.get('element') == b.get('element') and a.get('charge', 0) == b.get('charge', 0)
                    and bool(a.get('aromatic', False)) == bool(b.get('aromatic', False))
                    and a.get('fragname') == b.get('fragname')
                    and _bond_multiset(a.get('bonding')) == _bond_multiset(b.get('bonding')))
    else:
        def nm(a, b):
            return (a.get('atomname') == b.get('atomname') and a.get('fragname') == b.get('fragname')
                    and _bond_multiset(a.get('bonding')) == _bond_multiset(b.get('bonding')))
    return nm


def _edge_match(a, b):
    return a.get('order', 1) == b.get('order', 1)


def _describe(g, aa):
    key = 'element' if aa else 'atomname'
    return '%s %s' % ([(n, d.get(key), d.get('charge', 0) if aa else None, d.get('bonding')) for n, d in g.nodes(data=True)],
                      sorted((u, v, o) for u, v, o in g.edges(data='order')))


def _non_tree_special(g):
    """Does the writer's DFS (from the smallest key) leave a ring-closure edge whose order is not 1?"""
    try:
        start = min(g)
        succ = nx.dfs_successors(g, source=start)
    except Exception:
        return False
    tree = {frozenset((u, v)) for u, vs in succ.items() for v in vs}
    return any(frozenset((u, v)) not in tree and d.get('order', 1) != 1 for u, v, d in g.edges(data=True))


def _descriptor_classes(graphs):
    """Syntactic classes of the descriptor lists present (for narrow signatures)."""
    multi_nonsingle = zero = False
    for g in graphs:
        for _, b in g.nodes(data='bonding'):
            if not b:
                continue
            if any(d[-1] == '0' for d in b):
                zero = True
            if len(b) >= 2 and any(d[-1] != '1' for d in b[1:]):
                multi_nonsingle = True
    return multi_nonsingle, zero


_FRAGDEF = re.compile(r'#([^=,{}]+)=([^,{}]*)')


def _names_overwritten(text, coarse):
    """F14 pattern in a written text: the definition of a coarse fragment mentions the fragment's own name as a
    node more often than the fragment graph has nodes of that name."""
    if not text:
        return False
    for name, body in _FRAGDEF.findall(text):
        g = coarse.get(name)
        if g is None:
            continue
        own = sum(1 for _, a in g.nodes(data='atomname') if a == name)
        if body.count('[#%s]' % name) + body.count('[#%s;' % name) > own:
            return True
    return False


def classify(api, kind, coarse=None, all_graphs=(), base_graph=None, text=None):
    """Narrow failure classes (only used to match known_findings.json).  `coarse`: {name: graph} of the fragments
    written in CGsmiles format; `text`: what the writer produced (None for a writer exception)."""
    coarse = coarse or {}
    if _names_overwritten(text, coarse):
        return '%s/coarse-fragment-node-names/%s' % (api, kind)
    if text and re.search(r'\([.\-=#$]\[#', text):
        return '%s/bond-symbol-after-branch-open/%s' % (api, kind)
    cgb = list(coarse.values()) + ([base_graph] if base_graph is not None else [])
    if text and any(_non_tree_special(g) for g in cgb):
        # F6 pattern: a graph written in CGsmiles format has a ring-closure edge of order != 1, but no ring marker
        # of the CGsmiles parts of the written text is preceded by a bond symbol
        cg_text = (text.split('}')[0] if base_graph is not None else '') + ' '.join(
            body for name, body in _FRAGDEF.findall(text) if name in coarse)
        if not re.search(r'[.\-=#$]%?\d', cg_text):
            return '%s/coarse-ring-bond-order/%s' % (api, kind)
    multi, zero = _descriptor_classes(all_graphs)
    if multi:
        return '%s/several-descriptors-on-one-atom-non-single-order/%s' % (api, kind)
    if zero:
        return '%s/order-zero-descriptor/%s' % (api, kind)
    return '%s/%s' % (api, kind)


# ------------------------------------------------------------------------------------------------ checks
def _check_fb(case):
    from cgsmiles.write_cgsmiles import format_bonding
    lst = case['bonding']
    key = 'fb:' + ','.join(lst)
    nontrivial = len(lst) >= 2 or any(d[-1] != '1' for d in lst)
    r = call(format_bonding, list(lst))
    multi = len(lst) >= 2 and any(d[-1] != '1' for d in lst[1:])
    cls = 'format_bonding/several-descriptors-non-single-order/' if multi else 'format_bonding/'
    if r[0] == 'exc':
        return Outcome(key, nontrivial, [Failure('format_bonding', 'exception', '%r -> %s: %s' % (lst, r[1], r[2]),
                                                 cls + 'exception')])
    pieces = _split_bonding_text(r[1]) if isinstance(r[1], str) else None
    exp = sorted((int(d[-1]), d[:-1]) for d in lst)
    if pieces is None or sorted(pieces) != exp:
        return Outcome(key, nontrivial, [Failure('format_bonding', 'wrong-text',
                                                 'format_bonding(%r) == %r; expected one piece per descriptor: %r' % (lst, r[1], exp),
                                                 cls + 'wrong-text')])
    return Outcome(key, nontrivial, [])


def _roundtrip(F, aa, label, fails):
    """write -> read -> compare against a deep copy of F taken before writing."""
    from cgsmiles.read_fragments import read_fragments
    from cgsmiles.write_cgsmiles import write_cgsmiles_fragments
    F0 = copy.deepcopy(F)
    api = 'read_fragments(write_cgsmiles_fragments(F))' + ('' if label == 'read' else '[constructed F]')
    cgs = {} if aa else dict(F0)
    w = call(write_cgsmiles_fragments, F, smiles_format=aa)
    if w[0] == 'exc':
        fails.append(Failure(api, 'writer-exception', '%s: %s' % (w[1], w[2]),
                             classify('write_cgsmiles_fragments', 'writer-exception', cgs, F0.values())))
        return
    text = w[1]
    r = call(read_fragments, text, all_atom=aa)
    if r[0] == 'exc':
        fails.append(Failure(api, 'reader-exception', 'written %s -> %s: %s' % (text, r[1], r[2]),
                             classify('write_cgsmiles_fragments', 'reader-exception', cgs, F0.values(), text=text), text=text))
        return
    R = r[1]
    if set(R) != set(F0):
        fails.append(Failure(api, 'fragment-names', 'written %s has fragments %s, expected %s' % (text, sorted(R), sorted(F0)),
                             classify('write_cgsmiles_fragments', 'fragment-names', cgs, F0.values(), text=text), text=text))
        return
    nm = _node_match(aa)
    for name in F0:
        if not nx.is_isomorphic(F0[name], R[name], node_match=nm, edge_match=_edge_match):
            fails.append(Failure(api, 'not-isomorphic',
                                 'fragment %s written as %s: original %s, read back %s' % (
                                     name, text, _describe(F0[name], aa), _describe(R[name], aa)),
                                 classify('write_cgsmiles_fragments', 'not-isomorphic',
                                          {} if aa else {name: F0[name]}, [F0[name]],
                                          text='{' + ','.join('#%s=%s' % nb for nb in _FRAGDEF.findall(text) if nb[0] == name) + '}'),
                                 text=text))


def _check_frag(case):
    from cgsmiles.read_fragments import read_fragments
    aa = case['aa']
    rendered = [(name, g3.render(sk, ins), g3.parse(sk)) for name, sk, ins in case['frags']]
    text = '{' + ','.join('#%s=%s' % (name, r[0]) for name, r, _ in rendered) + '}'
    nontrivial = any(ins for _, _, ins in case['frags'])
    fr = call(read_fragments, text, all_atom=aa)
    fails = []
    differs = True
    if fr[0] == 'ok':
        F = fr[1]
        differs = False
        for name, r, p in rendered:
            g = F.get(name)
            if g is None or set(g.nodes) != set(range(p.n_atoms)):
                differs = True
                continue
            for i in range(p.n_atoms):
                if _bond_multiset(g.nodes[i].get('bonding')) != _bond_multiset(r[2].get(i)):
                    differs = True
        _roundtrip(F, aa, 'read', fails)
    if differs:
        # the reader of this tree does not deliver the descriptors that were written (or rejects the text):
        # check the writer's postcondition on the constructed fragment set as well
        clean = '{' + ','.join('#%s=%s' % (name, r[1]) for name, r, _ in rendered) + '}'
        cr = call(read_fragments, clean, all_atom=aa)
        if cr[0] == 'ok' and all(set(cr[1][name].nodes) == set(range(p.n_atoms)) for name, _, p in rendered if name in cr[1]) \
                and set(cr[1]) == {name for name, _, _ in rendered}:
            Fc = cr[1]
            for name, r, p in rendered:
                for i in range(p.n_atoms):
                    Fc[name].nodes[i].pop('bonding', None)
                    if r[2].get(i):
                        Fc[name].nodes[i]['bonding'] = list(r[2][i])
            _roundtrip(Fc, aa, 'constructed', fails)
        elif fr[0] == 'exc':
            return Outcome(text, False, [], skipped=True, note='reader rejects the text: %s' % fr[1])
    return Outcome(text, nontrivial, fails)


def _check_full(case):
    from cgsmiles import MoleculeResolver
    from cgsmiles.write_cgsmiles import write_cgsmiles
    s, laa = case['text'], case['laa']
    ref = call(lambda: MoleculeResolver.from_string(s, last_all_atom=laa).resolve_all())
    if ref[0] == 'exc':
        return Outcome(s, False, [], skipped=True, note='original string does not resolve: %s' % ref[1])
    ref_mol = ref[1][1]
    res = MoleculeResolver.from_string(s, last_all_atom=laa)
    base, fds = res.molecule, res.fragment_dicts
    base0, fds0 = copy.deepcopy(base), copy.deepcopy(fds)
    nontrivial = len(fds0) >= 2 or any('bonding' in d for _, _, d in ref_mol.edges(data=True))
    coarse = {n: g for i, fd in enumerate(fds0) for n, g in fd.items() if not (laa and i == len(fds0) - 1)}
    allg = [g for fd in fds0 for g in fd.values()]
    api = 'resolve_all(write_cgsmiles(resolver inputs))'
    w = call(write_cgsmiles, base, fds, last_all_atom=laa)
    if w[0] == 'exc':
        return Outcome(s, nontrivial, [Failure(api, 'writer-exception', '%s -> %s: %s' % (s, w[1], w[2]),
                                               classify('write_cgsmiles', 'writer-exception', coarse, allg, base0))])
    text = w[1]
    out = call(lambda: MoleculeResolver.from_string(text, last_all_atom=laa).resolve_all())
    if out[0] == 'exc':
        return Outcome(s, nontrivial, [Failure(api, 'resolve-exception', '%s written as %s -> %s: %s' % (s, text, out[1], out[2]),
                                               classify('write_cgsmiles', 'resolve-exception', coarse, allg, base0, text=text), text=text)])
    out_mol = out[1][1]
    if laa:
        def nm(a, b):
            return (a.get('element') == b.get('element') and a.get('charge', 0) == b.get('charge', 0)
                    and bool(a.get('aromatic', False)) == bool(b.get('aromatic', False)))
    else:
        def nm(a, b):
            return a.get('atomname') == b.get('atomname') and a.get('fragname') == b.get('fragname')
    if not nx.is_isomorphic(ref_mol, out_mol, node_match=nm, edge_match=_edge_match):
        key = 'element' if laa else 'atomname'
        return Outcome(s, nontrivial, [Failure(api, 'different-molecule',
                                               '%s written as %s: original resolves to %d nodes / %d edges %s, written to %d / %d %s' % (
                                                   s, text, len(ref_mol), ref_mol.number_of_edges(),
                                                   sorted(collections_counter(ref_mol, key).items()),
                                                   len(out_mol), out_mol.number_of_edges(),
                                                   sorted(collections_counter(out_mol, key).items())),
                                               classify('write_cgsmiles', 'different-molecule', coarse, allg, base0, text=text), text=text)])
    return Outcome(s, nontrivial, [])


def collections_counter(g, key):
    out = {}
    for _, v in g.nodes(data=key):
        out[str(v)] = out.get(str(v), 0) + 1
    return out


def check_case(case):
    init_worker()
    if case['kind'] == 'fb':
        return _check_fb(case)
    if case['kind'] == 'frag':
        return _check_frag(case)
    return _check_full(case)
