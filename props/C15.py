"""
C15 - stereo information survives fragmentation and renumbering.

Bounded tier.  A case is a molecule from gen/gr_resolver_inputs.STEREO_MOLS (typed in as an atom tree: element,
parent, bond order, direction mark on the bond to the parent, chirality label) and a set of cut bonds.  By construction
(independent of CGsmiles and pysmiles) the generator knows
  * the molecule (heavy-atom graph with elements and bond orders),
  * for every double bond a1=a2 and every pair of marked substituents l1, l2 the cis/trans relation (OpenSMILES rule,
    `stereo_expected`), and the atom each chirality label was written on,
  * the fragment texts for the cut (own `$label` per cut; a cut double bond is written `=[$L]` / `[$L]=`; a direction mark
    on a cut single bond is written on both sides, `P/[$L]` and `[$L]/C`, as in the repo's own test).
check_case resolves the uncut molecule and the cut molecule under EVERY order of the fragments in the base graph
(all permutations, up to 4 fragments for the enumerated cut sets and up to 5 / 6 (quick / thorough) for isolated centres; base graph passed to `from_graph` with keys 0..k-1 in that order, and written as
a string for the order a string can express) and checks on each returned molecule:
  (a) it is the constructed molecule (heavy atoms, elements, bond orders) - otherwise nothing can be said;
  (b) every 'chiral' attribute sits on the atom it was written on and carries its label, no other atom has one
      (atoms are identified through an isomorphism onto the constructed molecule: any isomorphism that makes all of
      (b)-(d) true is accepted, so symmetric atoms cannot raise a false alarm);
  (c) every tuple stored in an 'ez_isomer' annotation (l1, a1, a2, l2, relation) is stored on l1 and is a path
      l1-a1=a2-l2 of the returned molecule;
  (d) the set of relations equals the constructed one (both reading directions).

Admissible cuts (quantifier: 'cut placements that keep each slash mark next to an atom of its own fragment'): a cut bond
that carries a direction mark is only cut when the atom before the mark is the last atom of its fragment text (CGsmiles
attaches a mark to the atom before it and to the NEXT atom of the same fragment text, so any atom written after `P/[$L]`
would take the mark over - outside the quantifier); a double bond carries no mark.

Isolated stereocentres (added): for every labelled stereocentre of every molecule the cut set that cuts ALL bonds of that
atom is generated in both tiers, whatever the tier's bound on the number of cuts - the centre is then a fragment of ONE
atom, `[$a][C;x=R][$b][$c]`, which the fragment reader handles on a path of its own; also that cut set plus one more cut.
EXTRA_MOLS (defined here) adds fully substituted centres (four heavy neighbours, `[C;x=R][$][$][$][$]` when isolated: five
fragments, all 120 orders), a centre that is the first atom of the molecule, and two adjacent centres.

Known on both trees (finding F12): when the atoms l1, a1, a2, l2 of a marked double bond end up in different fragments,
the relation depends on the order in which the base graph lists the fragments (pysmiles compares node indices); with
two marked substituents on one atom the same comparison can also reject the molecule ('Conflicting cis/trans
assignment') in some orders.
Signatures: resolve/ez-depends-on-fragment-order/cut-at-double-bond, .../cut-at-marked-single-bond.
"""
import itertools
import logging
import networkx as nx
from vf.bounded import Outcome, Failure
from gen import gr_resolver_inputs as gr

ID = 'C15'
LEVEL = 'exploration'
P_TARGETS = []
BUDGET = {'quick': 30.0, 'thorough': 300.0}
CHUNK = 6
# further molecules (same typed-in form as gen.gr_resolver_inputs.STEREO_MOLS: symbol, parent, order, mark, chirality label)
EXTRA_MOLS = {
    # 1-bromo-1-chloro-1-fluoroethane: a fully substituted centre
    'quat': [('C', None, 0, '', None), ('C', 0, 1, '', 'R'), ('F', 1, 1, '', None), ('Cl', 1, 1, '', None), ('Br', 1, 1, '', None)],
    # the centre is the first atom written
    'quat-first': [('C', None, 0, '', 'S'), ('F', 0, 1, '', None), ('Cl', 0, 1, '', None), ('Br', 0, 1, '', None), ('C', 0, 1, '', None),
                   ('O', 4, 1, '', None)],
    # two centres, one fully substituted, separated by one atom
    'quat-two': [('O', None, 0, '', None), ('C', 0, 1, '', None), ('C', 1, 1, '', 'S'), ('F', 2, 1, '', None), ('Cl', 2, 1, '', None),
                 ('C', 2, 1, '', None), ('C', 5, 1, '', 'R'), ('Br', 6, 1, '', None), ('N', 6, 1, '', None)],
    # two adjacent centres with different labels
    'adjacent': [('N', None, 0, '', None), ('C', 0, 1, '', 'R'), ('F', 1, 1, '', None), ('C', 1, 1, '', 'S'), ('Cl', 3, 1, '', None),
                 ('O', 3, 1, '', None)],
    # a fully substituted centre next to a marked double bond
    'quat-ez': [('Br', None, 0, '', None), ('C', 0, 1, '', 'S'), ('F', 1, 1, '', None), ('N', 1, 1, '', None), ('C', 1, 1, '', None),
                ('C', 4, 1, '/', None), ('C', 5, 2, '', None), ('Cl', 6, 1, '/', None)],
}
EXTRA_MOLS.update({
    # the marked substituent of a double bond is itself a labelled centre, i.e. a BRACKET atom directly behind the slash
    'ez-to-centre': [('F', None, 0, '', None), ('C', 0, 1, '/', None), ('C', 1, 2, '', None), ('C', 2, 1, '/', 'R'), ('Cl', 3, 1, '', None),
                     ('Br', 3, 1, '', None), ('O', 3, 1, '', None)],
    'ez-to-centre-cis': [('O', None, 0, '', None), ('C', 0, 1, '', 'S'), ('F', 1, 1, '', None), ('N', 1, 1, '', None), ('C', 1, 1, '', None),
                         ('C', 4, 2, '/', None), ('Cl', 5, 1, '\\', None)],
})
EXTRA_MOLS.update({
    # the slash stands directly behind TWO consecutive branches of one atom (tert-butyl on a marked double bond)
    'tbu-ez': [('C', None, 0, '', None), ('C', 0, 1, '', None), ('C', 1, 1, '', None), ('C', 1, 1, '', None), ('C', 1, 1, '/', None),
               ('C', 4, 2, '', None), ('C', 5, 1, '/', None), ('C', 6, 1, '', None)],
    'tbu-ez-cis': [('O', None, 0, '', None), ('C', 0, 1, '', None), ('F', 1, 1, '', None), ('Cl', 1, 1, '', None), ('C', 1, 1, '/', None),
                   ('C', 4, 2, '', None), ('N', 5, 1, '\\', None)],
})
MOLS = dict(gr.STEREO_MOLS)
MOLS.update(EXTRA_MOLS)

BOUNDS = {
    'quick': {'molecules': len(MOLS), 'heavy_atoms': '4..9', 'stereo_double_bonds': '0..2', 'stereocentres': '0..2',
              'cuts': 'every admissible set of <= 2 cut bonds; for every labelled centre the set of ALL its bonds (3 or 4 cuts), alone and with one of '
                      'the first two other bonds (<= 4 cuts in total)',
              'fragment_orders': 'all permutations (<= 6; <= 120 for the isolated centres)', 'constructors': ['from_graph', 'from_string']},
    'thorough': {'molecules': len(MOLS), 'heavy_atoms': '4..9', 'stereo_double_bonds': '0..2', 'stereocentres': '0..2',
                 'cuts': 'every admissible set of <= 3 cut bonds; for every labelled centre the set of ALL its bonds, alone and with each other bond '
                         '(<= 5 cuts in total)',
                 'fragment_orders': 'all permutations (<= 24; <= 720 for the isolated centres)', 'constructors': ['from_graph', 'from_string']},
}
EXHAUSTIVE = {'quick': True, 'thorough': True}
RULE = ('fixed molecule list x every admissible cut set up to the stated size (+ the cut sets that isolate a labelled centre as a one-atom '
        'fragment) x every fragment order; nothing is random; a case is '
        'non-trivial when it has at least one cut and the molecule has a marked double bond or a labelled centre (all listed molecules do); '
        'distinct = (molecule, cut set)')
ASSUMPTIONS = ['OpenSMILES reading of / and \\ (encoded in gen.gr_resolver_inputs.stereo_expected, cross-checked on the uncut molecule of every case)',
               'isomorphisms enumerated by networkx GraphMatcher',
               'pysmiles._annotate_ez_isomers is the code that interprets the marks (trusted for the uncut molecule only insofar as it must agree with the construction)']


def init_worker():
    logging.getLogger('pysmiles').setLevel(logging.ERROR)
    logging.getLogger('cgsmiles').setLevel(logging.ERROR)


def admissible(mol, cuts):
    if not gr.stereo_cut_ok(mol, cuts):
        return False
    frags, _ = gr.stereo_fragments(mol, cuts)
    last_of = {}
    for atoms, _ in frags:
        for a in atoms:
            last_of[a] = atoms[-1]
    for c in cuts:
        if mol[c][3] and last_of[mol[c][1]] != mol[c][1]:
            return False
    return True


def isolating_cuts(mol, i):
    """The cut set that makes atom i a fragment of its own: the bond to its parent and the bonds to all its children."""
    return sorted(([i] if mol[i][1] is not None else []) + [j for j, a in enumerate(mol) if a[1] == i])


def isolated_centre_cases(tier):
    """Every labelled centre of every molecule (gr.STEREO_MOLS and EXTRA_MOLS) cut out as a one-atom fragment; the same
    with one more cut elsewhere (quick: the first two such cuts, thorough: all)."""
    seen = set()
    for name, mol in MOLS.items():
        for i, a in enumerate(mol):
            if not a[4]:
                continue
            iso = isolating_cuts(mol, i)
            more = [c for c in range(1, len(mol)) if c not in iso]
            for extra in [()] + [(c,) for c in (more[:2] if tier == 'quick' else more)]:
                cuts = sorted(set(iso) | set(extra))
                if len(cuts) > (4 if tier == 'quick' else 5) or (name, tuple(cuts)) in seen or not admissible(mol, cuts):
                    continue
                seen.add((name, tuple(cuts)))
                yield {'id': 'stereo/%s/%s' % (name, '-'.join(map(str, cuts))), 'mol': name, 'cuts': cuts, 'isolates': i}


def extra_mol_cases(tier):
    """The ordinary enumeration (every admissible cut set up to the tier's size) for EXTRA_MOLS."""
    max_cuts = 2 if tier == 'quick' else 3
    for name, mol in EXTRA_MOLS.items():
        for k in range(0, max_cuts + 1):
            for cuts in itertools.combinations(range(1, len(mol)), k):
                if admissible(mol, cuts):
                    yield {'id': 'stereo/%s/%s' % (name, '-'.join(map(str, cuts)) or 'uncut'), 'mol': name, 'cuts': list(cuts)}


def cases(tier, seed):
    done = set()
    # the isolated centres first: few, and the only cases in which a labelled atom is a fragment of its own
    for c in isolated_centre_cases(tier):
        done.add((c['mol'], tuple(c['cuts'])))
        yield c
    for c in gr.stereo_cases(tier, seed):
        if (c['mol'], tuple(c['cuts'])) not in done and admissible(gr.STEREO_MOLS[c['mol']], c['cuts']):
            yield c
    for c in extra_mol_cases(tier):
        if (c['mol'], tuple(c['cuts'])) not in done:
            yield c


def _cut_class(mol, cuts, tuples):
    """Where the cut lies relative to the stereo paths that went wrong."""
    cuts = set(cuts)

    def bond_cut(a, b):
        child = a if mol[a][1] == b else b
        return child in cuts
    cls = 'cut-elsewhere'
    for l1, a1, a2, l2 in tuples:
        if bond_cut(a1, a2):
            return 'cut-at-double-bond'
        if bond_cut(l1, a1) or bond_cut(a2, l2):
            cls = 'cut-at-marked-single-bond'
    return cls


def _evaluate(mol, fine, expected):
    """Returns (problems, wrong_tuples) for the best isomorphism; problems = [(clause, detail)]."""
    ref = gr.stereo_reference_graph(mol)
    heavy = fine.subgraph([n for n in fine.nodes if fine.nodes[n].get('element') != 'H'])
    gm = nx.isomorphism.GraphMatcher(ref, heavy, node_match=lambda a, b: a['element'] == b.get('element'),
                                     edge_match=lambda a, b: a['order'] == b.get('order'))
    best = None
    n_iso = 0
    for phi in gm.isomorphisms_iter():
        n_iso += 1
        inv = {v: k for k, v in phi.items()}
        probs, wrong = [], []
        # (b) chirality
        for i, a in enumerate(mol):
            got = fine.nodes[phi[i]].get('chiral')
            if a[4] != got:
                probs.append(('chirality-label-moved', 'atom %d (%s) was written with label %r, the returned atom %r has %r' % (i, a[0], a[4], phi[i], got)))
        for n in fine.nodes:
            if fine.nodes[n].get('chiral') and n not in inv:
                probs.append(('chirality-label-moved', 'hydrogen / extra node %r carries chiral=%r' % (n, fine.nodes[n].get('chiral'))))
        # (c) stored references
        seen = {}
        for n in fine.nodes:
            for tup in fine.nodes[n].get('ez_isomer') or []:
                if len(tup) != 5:
                    probs.append(('ez-reference-not-a-path', 'node %r stores %r' % (n, tup)))
                    continue
                n1, n2, n3, n4, rel = tup
                ok = (n1 == n and all(x in fine.nodes for x in (n1, n2, n3, n4)) and fine.has_edge(n1, n2) and fine.has_edge(n2, n3)
                      and fine.has_edge(n3, n4) and fine.edges[n2, n3].get('order') == 2 and len({n1, n2, n3, n4}) == 4)
                if not ok:
                    probs.append(('ez-reference-not-a-path', 'node %r stores %r which is not a path substituent-atom=atom-substituent from that node' % (n, tup)))
                    continue
                if any(x not in inv for x in (n1, n2, n3, n4)):
                    probs.append(('ez-reference-not-a-path', 'node %r stores %r which runs over a hydrogen' % (n, tup)))
                    continue
                seen[(inv[n1], inv[n2], inv[n3], inv[n4])] = rel
        # (d) relations
        for k, rel in expected.items():
            if k not in seen:
                probs.append(('ez-annotation-missing', 'no relation stored for path %s (written %s)' % (k, rel)))
                wrong.append(k)
            elif seen[k] != rel:
                probs.append(('ez-relation', 'path %s (%s): written %s, returned %s' % (k, '-'.join(mol[i][0] for i in k), rel, seen[k])))
                wrong.append(k)
        for k in seen:
            if k not in expected:
                probs.append(('ez-annotation-unexpected', 'relation %s stored for path %s which carries no pair of marks' % (seen[k], k)))
                wrong.append(k)
        if best is None or len(probs) < len(best[0]):
            best = (probs, wrong)
        if not probs:
            break
    if n_iso == 0:
        return [('not-the-constructed-molecule', 'heavy atoms %s bonds %s' % (
            [(n, fine.nodes[n].get('element')) for n in heavy.nodes], sorted((min(a, b), max(a, b), d.get('order')) for a, b, d in heavy.edges(data=True))))], []
    return best


def check_case(case):
    import cgsmiles
    mol = MOLS[case['mol']]
    cuts = list(case['cuts'])
    key = repr((case['mol'], tuple(cuts)))
    expected = {}
    for (l1, a1, a2, l2), rel in gr.stereo_expected(mol).items():
        expected[(l1, a1, a2, l2)] = rel
        expected[(l2, a2, a1, l1)] = rel
    frags, fedges = gr.stereo_fragments(mol, cuts)
    k = len(frags)
    block = '{' + ','.join('#F%d=%s' % (i, t) for i, (_, t) in enumerate(frags)) + '}'
    fails = []
    results = {}        # perm -> (problems, wrong)
    texts = {}

    def run(perm, how):
        # perm[j] = fragment listed at position j
        pos = {f: j for j, f in enumerate(perm)}
        R = cgsmiles.MoleculeResolver
        if how in ('graph', 'graph-rev'):
            g = nx.Graph()
            # 'graph-rev': the same base graph (same keys, names, edges) with its nodes INSERTED in descending key order --
            # the numbering of the result is by node key, not by insertion order
            for j, f in (list(enumerate(perm)) if how == 'graph' else list(enumerate(perm))[::-1]):
                g.add_node(j, fragname='F%d' % f)
            for a, b in fedges:
                g.add_edge(pos[a], pos[b], order=1)
            texts[(perm, how)] = 'from_graph(%s, nodes %s edges %s)' % (block, list(g.nodes(data='fragname')), list(g.edges))
            r = R.from_graph(block, g)
        else:
            texts[(perm, how)] = how
            r = R.from_string(how)
        _, fine = r.resolve_all()
        return _evaluate(mol, fine, expected)
    perms = list(itertools.permutations(range(k)))
    identity = tuple(range(k))
    # the string form, in the order the writer produces (fragments in order of their first atom, depth first)
    ids = list(range(k))
    text, app = gr.render_graph(ids, [(a, b, 1) for a, b in fedges], {i: '[#F%d]' % i for i in ids})
    jobs = [(perm, 'graph') for perm in perms] + [(identity, 'graph-rev')] + [(tuple(app), '{' + text + '}.' + block)]
    for perm, how in jobs:
        try:
            results[(perm, how)] = run(perm, how)
        except Exception as e:    # noqa
            # the input is well formed by construction: a rejection is a failure; in an order other than the
            # construction order it is the order dependence of finding F12 showing as an exception
            results[(perm, how)] = ([('exception', '%s: %s' % (type(e).__name__, str(e)[:200]))], list(expected))
    # the construction order reproduces the written relations (problems of another clause, e.g. a lost chirality label, do
    # not change how an order-dependent relation is classified)
    ident_ok = not any(cl.startswith('ez-') or cl in ('exception', 'not-the-constructed-molecule') for cl, _ in results[(identity, 'graph')][0])
    seen_sig = set()
    for (perm, how), (probs, wrong) in results.items():
        for clause, detail in probs:
            if clause in ('ez-relation', 'ez-annotation-missing', 'ez-annotation-unexpected', 'exception'):
                cls = _cut_class(mol, cuts, wrong)
                if clause in ('ez-relation', 'exception') and ident_ok and how == 'graph-rev' and expected:
                    # same keys, names and edges as the construction order; only the order of INSERTION of the nodes differs
                    sig = 'resolve/ez-depends-on-insertion-order/' + cls
                elif clause in ('ez-relation', 'exception') and ident_ok and perm != identity and expected:
                    sig = 'resolve/ez-depends-on-fragment-order/' + cls
                else:
                    sig = 'resolve/%s/%s/%s' % (clause, 'construction-order' if perm == identity else 'other-order', cls)
            else:
                sig = 'resolve/stereo/' + clause
            if sig in seen_sig:
                continue
            seen_sig.add(sig)
            fails.append(Failure('MoleculeResolver.resolve_all', clause, '%s, cuts %s, fragments %s listed in order %s [%s]: %s' % (
                case['mol'], cuts, block, list(perm), texts[(perm, how)], detail), sig))
    return Outcome(key, bool(cuts), fails)
