"""
C18 — the RDKit bridge keeps chemistry and puts coordinates on the right atoms.

Bounded tier (run-time postconditions on the real functions of cgsmiles/rdkit.py and cgsmiles/coordinates.py).
Three parts, one case each:

roundtrip  `rdkit_to_networkx(networkx_to_rdkit(G))` is isomorphic to G respecting element, formal charge,
           bond order (1.5 <-> AROMATIC) and the hydrogen count of every atom, with and without a conformer on the
           RDKit molecule (conformer: `AllChem.EmbedMolecule` with a fixed seed on a copy after `Chem.AddHs`).
           With a conformer every returned node must also carry a finite 3-vector 'position' which is the conformer
           position of an atom of the same element, different nodes get different atoms, and the two ends of every
           returned bond sit on two atoms that are bonded in the RDKit molecule.
embed      `embed_3d_via_rdkit(G)` leaves on every node a finite 3-vector 'position' that is the final conformer
           position of "its own atom": mapping every node to the RDKit atom found at its position is injective, keeps
           the element and sends every bond of G to a bond of the RDKit molecule (so bonded nodes are exactly as far
           apart as RDKit put the bonded atoms).  Afterwards `forward_map_molecule(cg, G)` puts every bead at the
           weighted mean of its own atoms.
fmap       `forward_map_molecule(cg, aa)` with seeded random atom positions (no RDKit): every bead sits at
           sum(w_i p_i) / sum(w_i) over exactly the atoms of `cg.nodes[k]['graph']`, and after adding one vector v to
           every atom position every bead has moved by v.

Inputs: molecules as the resolver returns them (`MoleculeResolver.from_string(s).resolve_all()`), explicit
hydrogens as nodes, keys already interleaved by the resolver's renumbering for >= 2 fragments; node relabelings
(permuted, reversed, gapped, negative, shifted integer keys, or keys = iteration position) and node / edge
insertion orders (same, reversed, shuffled, sorted by key).

Scope decisions (the oracle demands no more than the statement):
* "hydrogen count" of an atom = number of hydrogen NODES bonded to it + its 'hcount' attribute (0 when absent).
  Resolver output has every hydrogen as a node and no 'hcount'; `rdkit_to_networkx` reports H atoms as nodes and
  'hcount' = GetTotalNumHs (0 for complete molecules).  The sum is what both representations agree on, so it is the
  quantity compared.  A second input form ("implicit": pysmiles.remove_explicit_hydrogens applied to the copy, the
  form the repo's own test_rdkit uses) exercises the 'hcount' side of the same sum; it is used without conformer.
* comparison is by attribute-respecting isomorphism, not by node key: the docs do not promise which key the
  returned graph uses for which atom.  Likewise "its own atom" is decided up to a structure-preserving map: two
  hydrogens of one methyl group may swap positions without the check noticing (nor would a chemist).
* "bonded atoms lie at bonding distance" is checked through the RDKit molecule that `embed_3d_via_rdkit` itself
  built (observed by wrapping `rdkit.Chem.AllChem.EmbedMolecule / UFFOptimizeMolecule` in the checking process,
  nothing in the tree under test is touched): a node's position must BE the position of a corresponding atom.
  Absolute distance thresholds are not used: RDKit's UFF step is trusted, not verified, and it is not reliable —
  for `{[#A]|5}.{#A=[$]C(=O)N[$]}` (NC(=O)NC(=O)NC(=O)NC(=O)C(N)=O) 77 of 200 unseeded embeddings end with a C=O or
  C-N bond longer than 1.7 A (up to 39 A) on the repaired tree, with every coordinate on the right atom.  When the
  RDKit molecule cannot be observed (the code stopped calling AllChem.EmbedMolecule through the module) the embed
  case is skipped, not guessed.
* only integer node keys ("node numbering"); `embed_3d_via_rdkit` calls pysmiles.add_explicit_hydrogens, which needs
  integer keys anyway.
* molecules are connected, valence-complete resolver outputs over H C N O F Si P S Cl Br I with [NH3+], [N+], [O-]
  charges, bond orders 1, 2, 3 and 1.5.  Five-membered heteroaromatics (pyrrole, furan, thiophene, indole) are NOT
  generated: CGsmiles/pysmiles keep them in Kekule form on purpose, RDKit's sanitisation turns the ring aromatic,
  so the orders come back as 1.5 — a disagreement between two aromaticity models that the statement does not
  settle.  No `q=` annotations (F13 territory), no order-0 / order-4 bonds.
* RDKit failing to embed (EmbedMolecule returns -1 -> 'Bad Conformer Id') or refusing the molecule in
  SanitizeMol is outside the statement: the case is skipped (a dozen strained rings of beads per quick run).
* a bead whose weights sum to <= 0 has no weight-normalised average: skipped (not generated any more).
"""
import copy
import functools
import logging
import math
import os

# 16 worker processes x one BLAS thread pool per process = heavy oversubscription (measured: a 14 ms layout takes
# 340 ms on a loaded machine); the checks only do small-array arithmetic. Must happen before numpy is first imported.
for _v in ('OPENBLAS_NUM_THREADS', 'OMP_NUM_THREADS', 'MKL_NUM_THREADS'):
    os.environ.setdefault(_v, '1')

import networkx as nx
import numpy as np

from vf.bounded import Outcome, Failure
from gen import coords_mols as cm

ID = 'C18'
LEVEL = 'other'
P_TARGETS = ['cgsmiles.coordinates:forward_map_molecule']
BUDGET = {'quick': 30.0, 'thorough': 420.0}
CHUNK = 12
BOUNDS = {
    'quick': {'molecules': 'fixed list (21 hand-written + 11 E/Z), 53 single fragments, 112 ordered pairs, 26 homopolymers, '
                           '100 seeded random assemblies (<= 6 beads, <= 1 ring of beads, shared-atom chains); '
                           'weighted: 81 fixed + 200 seeded random',
              'roundtrip': '6 labelings without conformer, 3 of them also with conformer, + implicit-hydrogen form x 2 labelings',
              'embed': '3 labelings per molecule (resolver keys, permuted+shuffled, gapped+reversed)',
              'fmap': '4 labelings x 2 position seeds x 1 translation per weighted molecule',
              'max_atoms': 75, 'distinct_strings': 603},
    'thorough': {'molecules': 'fixed list, single fragments, 26 x 10 + 12 x 12 ordered pairs, homopolymers n=3,5, 300 seeded random '
                              'assemblies (<= 8 beads); weighted: 81 fixed + 600 seeded random',
                 'roundtrip': '10 labelings without conformer, 5 of them also with conformer, + implicit-hydrogen form x 3 labelings',
                 'embed': '5 labelings per molecule',
                 'fmap': '8 labelings x 2 position seeds x 2 translations per weighted molecule',
                 'max_atoms': 82, 'distinct_strings': 1520},
}
EXHAUSTIVE = {'quick': False, 'thorough': False}
RULE = ('CGsmiles strings from gen/coords_mols.py (fixed list, every pool fragment alone, ordered pairs, homopolymers, then seeded '
        'random trees of beads with at most one ring of beads and chains sharing atoms through "!"), resolved by the real resolver, '
        'then relabelled (integer keys: resolver keys, keys = iteration position, reversed, permuted, gapped 3i+2, negative, shifted) '
        'and re-inserted (same / reversed / shuffled / sorted order). Non-trivial: roundtrip - a conformer is present or the node '
        'keys differ from the iteration positions (node_to_idx is not the identity); embed - node keys differ from the iteration '
        'positions and the molecule has >= 3 atoms; fmap - at least one bead has weights that are not all 1. '
        'Distinct = distinct (part, string, labeling, form, conformer, position seed, translation).')
ASSUMPTIONS = [
    'the resolver output for the generated strings is the molecule under test (resolver correctness is C01..C12, not re-checked here); '
    'a string that does not resolve or resolves to a disconnected molecule is skipped',
    'RDKit (SanitizeMol, AddHs, EmbedMolecule, UFFOptimizeMolecule, GetConformer, GetBondBetweenAtoms) behaves as documented; that '
    'RDKit puts bonded atoms at bonding distance is trusted, not checked (UFF demonstrably diverges for some amide chains)',
    'the RDKit molecule embedded inside embed_3d_via_rdkit is observed by wrapping rdkit.Chem.AllChem.EmbedMolecule / '
    'UFFOptimizeMolecule in the checking process; distinct atoms of a conformer are more than 1e-6 A apart',
    'pysmiles.remove_explicit_hydrogens / add_explicit_hydrogens behave as documented',
    'isomorphism decided by networkx.is_isomorphic (VF2) after an invariant pre-check',
    'embed_3d_via_rdkit embeds with RDKit\'s random seed: the positions differ between runs, the checked clause does not depend on them',
]

POS_TOL = 1e-6   # a stored position and the RDKit conformer position are the same numbers


def init_worker():
    logging.getLogger('pysmiles').setLevel(logging.ERROR)
    try:
        from rdkit import RDLogger
        RDLogger.DisableLog('rdApp.*')
    except Exception:
        pass


# ---------------------------------------------------------------------------------------------- cases
def _lab(keys, order, seed=0):
    return {'keys': keys, 'order': order, 'seed': seed}


RT_LABELS = {
    'quick': [_lab('same', 'same'), _lab('canon', 'same'), _lab('perm', 'shuffle', 1), _lab('gap', 'rev'),
              _lab('neg', 'sorted', 2), _lab('shift', 'shuffle', 3)],
    'thorough': [_lab('same', 'same'), _lab('canon', 'same'), _lab('perm', 'shuffle', 1), _lab('gap', 'rev'),
                 _lab('neg', 'sorted', 2), _lab('shift', 'shuffle', 3), _lab('rev', 'same'), _lab('perm', 'same', 4),
                 _lab('same', 'shuffle', 5), _lab('gap', 'shuffle', 6)],
}
RT_IMPLICIT = {'quick': [_lab('same', 'same'), _lab('perm', 'shuffle', 1)],
               'thorough': [_lab('same', 'same'), _lab('perm', 'shuffle', 1), _lab('gap', 'rev', 2)]}
EMB_LABELS = {
    'quick': [_lab('same', 'same'), _lab('perm', 'shuffle', 1), _lab('gap', 'rev')],
    'thorough': [_lab('same', 'same'), _lab('perm', 'shuffle', 1), _lab('gap', 'rev'), _lab('canon', 'same'),
                 _lab('neg', 'sorted', 2)],
}
FM_LABELS = {
    'quick': [_lab('same', 'same'), _lab('perm', 'shuffle', 1), _lab('gap', 'rev'), _lab('neg', 'sorted', 2)],
    'thorough': [_lab('same', 'same'), _lab('perm', 'shuffle', 1), _lab('gap', 'rev'), _lab('neg', 'sorted', 2),
                 _lab('canon', 'same'), _lab('shift', 'shuffle', 3), _lab('rev', 'same'), _lab('same', 'rev')],
}
SHIFTS = [[10.0, 0.0, 0.0], [-3.5, 7.25, 100.0], [0.001, -0.002, 0.003], [1000.0, -2000.0, 500.0], [0.0, 0.0, -1.0],
          [12.5, 12.5, 12.5]]


def _mol_cases(s, tier, idx):
    for li, lab in enumerate(RT_LABELS[tier]):
        for conf in (False, True):
            if conf and li not in ((0, 2, 3) if tier == 'quick' else (0, 2, 3, 6, 9)):
                continue   # embedding dominates the cost: a conformer for half of the labelings
            yield {'part': 'roundtrip', 'cgs': s, 'label': lab, 'form': 'explicit', 'conformer': conf, 'rseed': 11 + idx % 5}
    for lab in RT_IMPLICIT[tier]:
        yield {'part': 'roundtrip', 'cgs': s, 'label': lab, 'form': 'implicit', 'conformer': False, 'rseed': 0}
    for lab in EMB_LABELS[tier]:
        yield {'part': 'embed', 'cgs': s, 'label': lab}


def _fmap_cases(s, tier, idx):
    nps = 2
    nsh = 1 if tier == 'quick' else 2
    for li, lab in enumerate(FM_LABELS[tier]):
        for p in range(nps):
            for k in range(nsh):
                yield {'part': 'fmap', 'cgs': s, 'label': lab, 'pseed': 1000 * idx + 10 * li + p,
                       'shift': SHIFTS[(idx + li + p + 3 * k) % len(SHIFTS)]}


def cases(tier, seed):
    quick = tier == 'quick'
    plain = list(cm.cgsmiles_strings(seed, 100 if quick else 300, weights=False, pairs='some' if quick else 'most',
                                     max_beads=6 if quick else 8))
    weighted = list(cm.cgsmiles_strings(seed, 200 if quick else 600, weights=True, max_beads=6 if quick else 8))
    seen = set()
    plain = [s for s in plain if not (s in seen or seen.add(s))]
    weighted = [s for s in weighted if not (s in seen or seen.add(s))]
    # interleave: one plain molecule (roundtrip + embed), then one weighted molecule (fmap, plus its own embed)
    n = max(len(plain), len(weighted))
    for i in range(n):
        if i < len(plain):
            yield from _mol_cases(plain[i], tier, i)
        if i < len(weighted):
            yield from _fmap_cases(weighted[i], tier, i)
            if i % 4 == 0:
                yield {'part': 'embed', 'cgs': weighted[i], 'label': EMB_LABELS[tier][1]}


# ---------------------------------------------------------------------------------------------- helpers
@functools.lru_cache(maxsize=64)
def _resolve(s):
    from cgsmiles import MoleculeResolver
    try:
        cg, aa = MoleculeResolver.from_string(s).resolve_all()
    except Exception as e:   # outside the statement: the input is not a resolved molecule
        return None, None, '%s: %s' % (type(e).__name__, str(e)[:100])
    return cg, aa, None


def _key_class(G):
    nodes = list(G.nodes)
    n = len(nodes)
    if nodes == list(range(n)):
        return 'keys-equal-iteration-position'
    if sorted(nodes, key=repr) == sorted(range(n), key=repr):
        return 'keys-0..n-1-not-in-iteration-order'
    return 'keys-not-0..n-1'


def _htot(G, n):
    return int(G.nodes[n].get('hcount', 0) or 0) + sum(1 for m in G[n] if G.nodes[m].get('element') == 'H')


def _invariant(G):
    """Multiset of (element, charge, hydrogen count, sorted (neighbour element, order)) — isomorphism invariant."""
    out = []
    for n, d in G.nodes(data=True):
        nb = sorted((str(G.nodes[m].get('element')), float(G.edges[n, m].get('order', 1))) for m in G[n])
        out.append((str(d.get('element')), int(round(float(d.get('charge', 0)))), _htot(G, n), tuple(nb)))
    return sorted(out)


def _same_chemistry(G, H):
    """None if isomorphic with element, charge, hydrogen count, bond order; else a short description."""
    if len(G) != len(H) or G.number_of_edges() != H.number_of_edges():
        return 'sizes differ: %d nodes / %d edges in, %d / %d out' % (len(G), G.number_of_edges(), len(H), H.number_of_edges())
    a, b = _invariant(G), _invariant(H)
    if a != b:
        da = [x for x in a if x not in b][:3]
        db = [x for x in b if x not in a][:3]
        return 'atom environments differ (element, charge, H count, neighbours): in %s, out %s' % (da, db)
    for g in (G, H):
        for n in g:
            g.nodes[n]['_sig'] = (str(g.nodes[n].get('element')), int(round(float(g.nodes[n].get('charge', 0)))), _htot(g, n))
    ok = nx.is_isomorphic(G, H, node_match=lambda x, y: x['_sig'] == y['_sig'],
                          edge_match=lambda x, y: float(x.get('order', 1)) == float(y.get('order', 1)))
    return None if ok else 'same atom environments but no isomorphism respecting element, charge, H count and bond order'


def _check_positions(G, mol, what, P=None):
    """Every node of G has a finite 3-vector that is the conformer position (array P, default: the current
    conformer) of "its own" atom of `mol`: node -> atom found at that position is injective, keeps the element,
    maps bonds to bonds.  Returns (kind, detail) or None."""
    bad = []
    for n, d in G.nodes(data=True):
        p = d.get('position')
        if not isinstance(p, np.ndarray) or p.shape != (3,) or not np.all(np.isfinite(p)):
            bad.append((n, None if p is None else repr(p)[:40]))
    if bad:
        return 'position-missing-or-not-finite', '%s: %d of %d nodes without a finite 3-vector, e.g. %s' % (what, len(bad), len(G), bad[:3])
    if P is None:
        P = np.asarray(mol.GetConformer().GetPositions(), dtype=float)
    atom_of = {}
    for n in G.nodes:
        dist = np.linalg.norm(P - G.nodes[n]['position'], axis=1)
        a = int(np.argmin(dist))
        if dist[a] > POS_TOL:
            return 'position-is-no-atom-position', '%s: node %r has position %s, nearest RDKit atom is %.3g away' % (
                what, n, G.nodes[n]['position'].round(4).tolist(), dist[a])
        atom_of[n] = a
    if len(set(atom_of.values())) != len(atom_of):
        dup = [n for n in atom_of if list(atom_of.values()).count(atom_of[n]) > 1][:6]
        return 'two-nodes-on-one-atom', '%s: nodes %s share the position of one RDKit atom' % (what, dup)
    wrong_el = [(n, G.nodes[n].get('element'), mol.GetAtomWithIdx(a).GetSymbol()) for n, a in atom_of.items()
                if G.nodes[n].get('element') != mol.GetAtomWithIdx(a).GetSymbol()]
    wrong = []
    for u, v in G.edges:
        if mol.GetBondBetweenAtoms(atom_of[u], atom_of[v]) is None:
            dist = float(np.linalg.norm(G.nodes[u]['position'] - G.nodes[v]['position']))
            wrong.append((u, G.nodes[u].get('element'), v, G.nodes[v].get('element'), round(dist, 3)))
    if wrong or wrong_el:
        return 'position-of-another-atom', ('%s: %d of %d bonds join nodes whose positions belong to two atoms that are not bonded '
                                            '(node, element, node, element, distance in A) e.g. %s; %d nodes sit on an atom of another element e.g. %s; '
                                            'node order %s' % (what, len(wrong), G.number_of_edges(), wrong[:4], len(wrong_el), wrong_el[:3],
                                                               list(G.nodes)[:12]))
    return None


class _CaptureEmbedding:
    """Observe the RDKit molecule that the code under test embeds (wraps two functions of rdkit.Chem.AllChem
    for the duration of one call; nothing in the tree under test is modified)."""

    def __enter__(self):
        from rdkit.Chem import AllChem
        self.mod = AllChem
        self.mols = []
        self.orig = {}
        for name in ('EmbedMolecule', 'UFFOptimizeMolecule'):
            fn = getattr(AllChem, name)
            self.orig[name] = fn

            def wrapper(mol, *a, _fn=fn, **k):
                res = _fn(mol, *a, **k)
                try:   # one coherent conformer of the molecule after each RDKit step
                    if mol.GetNumConformers():
                        self.mols.append((mol, np.array(mol.GetConformer().GetPositions(), dtype=float)))
                except Exception:
                    pass
                return res
            setattr(AllChem, name, wrapper)
        return self

    def __exit__(self, *exc):
        for name, fn in self.orig.items():
            setattr(self.mod, name, fn)
        return False


def _rdkit_refusal(exc):
    """RDKit refusing the molecule or failing to embed it: outside the statement."""
    try:
        from rdkit import Chem
        if isinstance(exc, Chem.rdchem.MolSanitizeException):
            return True
    except Exception:
        pass
    msg = str(exc)
    return isinstance(exc, (ValueError, RuntimeError)) and ('onformer' in msg or 'Invariant Violation' in msg or 'RDKIT:' in msg)


def _bead_expectation(cg, aa):
    """{bead: expected position} from the bead's own atoms and weights (math.fsum), None when a weight sum is <= 0."""
    exp = {}
    nonunit = False
    for k in cg.nodes:
        sub = cg.nodes[k]['graph']
        ws, ps = [], []
        for n in sub.nodes:
            w = float(sub.nodes[n].get('weight', 1))
            ws.append(w)
            ps.append(np.asarray(aa.nodes[n]['position'], dtype=float))
        tot = math.fsum(ws)
        if any(w < 0 for w in ws) or tot <= 1e-12:
            return None, nonunit
        if any(w != 1 for w in ws):
            nonunit = True
        exp[k] = np.array([math.fsum(w * p[c] for w, p in zip(ws, ps)) / tot for c in range(3)])
    return exp, nonunit


def _check_beads(cg, exp, scale):
    worst = None
    for k, e in exp.items():
        p = cg.nodes[k].get('position')
        if not isinstance(p, np.ndarray) or p.shape != (3,) or not np.all(np.isfinite(p)):
            return 'bead %r has no finite position: %r' % (k, p)
        err = float(np.max(np.abs(p - e)))
        if err > 1e-9 * scale and (worst is None or err > worst[0]):
            sub = cg.nodes[k]['graph']
            worst = (err, k, p.round(6).tolist(), e.round(6).tolist(), [sub.nodes[n].get('weight') for n in sub.nodes][:12])
    if worst:
        return 'bead %r at %s, weight-normalised mean of its own atoms is %s (off by %.3g); weights %s' % (
            worst[1], worst[2], worst[3], worst[0], worst[4])
    return None


def classify(api, cls, kind):
    return '%s/%s/%s' % (api, cls, kind)


# ---------------------------------------------------------------------------------------------- the check
def check_case(case):
    import cgsmiles  # noqa: F401  (the tree under test)
    key = repr(sorted(case.items(), key=lambda kv: kv[0]))
    cg, aa, err = _resolve(case['cgs'])
    if aa is None or len(aa) < 2 or not nx.is_connected(aa):
        return Outcome(key, False, [], skipped=True, note=err or 'not a connected molecule')
    part = case['part']
    if part == 'roundtrip':
        return _check_roundtrip(case, key, aa)
    if part == 'embed':
        return _check_embed(case, key, cg, aa)
    if part == 'fmap':
        return _check_fmap(case, key, cg, aa)
    raise ValueError(part)


def _check_roundtrip(case, key, aa):
    from cgsmiles.rdkit import networkx_to_rdkit, rdkit_to_networkx
    from rdkit import Chem
    from rdkit.Chem import AllChem
    from pysmiles.smiles_helper import remove_explicit_hydrogens
    G, _ = cm.relabel(aa, case['label'])
    for n in G:
        G.nodes[n].pop('ez_isomer', None)
    if case['form'] == 'implicit':
        remove_explicit_hydrogens(G)
    conf = case['conformer']
    kc = _key_class(G)
    nontrivial = conf or kc != 'keys-equal-iteration-position'
    fails = []
    ref = copy.deepcopy(G)
    try:
        mol = networkx_to_rdkit(G)
    except Exception as e:
        if _rdkit_refusal(e):
            return Outcome(key, False, [], skipped=True, note='RDKit refuses the molecule: %s' % str(e)[:100])
        fails.append(Failure('networkx_to_rdkit', 'exception', '%s: %s' % (type(e).__name__, e),
                             classify('networkx_to_rdkit', kc, type(e).__name__)))
        return Outcome(key, nontrivial, fails)
    cls = 'conformer' if conf else 'no-conformer'
    if conf:
        mol = Chem.AddHs(Chem.Mol(mol))
        if mol.GetNumAtoms() != len(ref):
            # RDKit sees implicit hydrogens: the no-conformer case of the same molecule reports that; nothing to embed here
            return Outcome(key, False, [], skipped=True, note='AddHs changed the atom count')
        if AllChem.EmbedMolecule(mol, randomSeed=int(case.get('rseed', 7))) != 0:
            return Outcome(key, False, [], skipped=True, note='RDKit could not embed')
    try:
        back = rdkit_to_networkx(mol)
    except Exception as e:
        fails.append(Failure('rdkit_to_networkx', 'exception', '%s: %s (molecule %s conformer)' % (type(e).__name__, e, 'with' if conf else 'without'),
                             classify('rdkit_to_networkx', cls, type(e).__name__)))
        return Outcome(key, nontrivial, fails)
    diff = _same_chemistry(ref, back)
    if diff:
        fails.append(Failure('rdkit_to_networkx(networkx_to_rdkit(G))', 'chemistry-not-preserved',
                             '%s form, %s: %s' % (case['form'], kc, diff),
                             classify('rdkit_roundtrip', cls + '/' + case['form'] + '/' + kc, 'chemistry-not-preserved')))
    if conf:
        bad = _check_positions(back, mol, 'graph returned by rdkit_to_networkx')
        if bad:
            fails.append(Failure('rdkit_to_networkx', bad[0], bad[1], classify('rdkit_to_networkx', cls, bad[0])))
    return Outcome(key, nontrivial, fails)


def _check_embed(case, key, cg, aa):
    from cgsmiles.rdkit import embed_3d_via_rdkit
    from cgsmiles.coordinates import forward_map_molecule
    cg2, G, _, _ = cm.relabel_pair(cg, aa, case['label'])
    for n in G:
        G.nodes[n].pop('ez_isomer', None)
    kc = _key_class(G)
    nontrivial = kc != 'keys-equal-iteration-position' and len(G) >= 3
    fails = []
    cap = _CaptureEmbedding()
    try:
        with cap:
            embed_3d_via_rdkit(G)
    except Exception as e:
        if _rdkit_refusal(e):
            return Outcome(key, False, [], skipped=True, note='RDKit could not embed: %s' % str(e)[:100])
        fails.append(Failure('embed_3d_via_rdkit', 'exception', '%s: %s; node order %s' % (type(e).__name__, e, list(G.nodes)[:12]),
                             classify('embed_3d_via_rdkit', kc, type(e).__name__)))
        return Outcome(key, nontrivial, fails)
    if not cap.mols:
        return Outcome(key, False, [], skipped=True, note='the RDKit molecule embedded by the code could not be observed')
    # the stored coordinates must be those of one coherent conformer RDKit produced (after embedding or after UFF)
    bad = None
    for mol, P in reversed(cap.mols):
        r = _check_positions(G, mol, 'graph after embed_3d_via_rdkit', P)
        if r is None:
            bad = None
            break
        bad = bad or r
    if bad:
        fails.append(Failure('embed_3d_via_rdkit', bad[0], bad[1], classify('embed_3d_via_rdkit', kc, bad[0])))
        return Outcome(key, nontrivial, fails)
    # beads from the embedded atoms
    if set(n for k in cg2 for n in cg2.nodes[k]['graph']) <= set(G.nodes):
        exp, nonunit = _bead_expectation(cg2, G)
        if exp is not None:
            wcls = 'non-unit-weights' if nonunit else 'unit-weights'
            try:
                forward_map_molecule(cg2, G)
            except Exception as e:
                fails.append(Failure('forward_map_molecule', 'exception', '%s: %s' % (type(e).__name__, e),
                                     classify('forward_map_molecule', wcls, type(e).__name__)))
                return Outcome(key, nontrivial, fails)
            msg = _check_beads(cg2, exp, 10.0)
            if msg:
                fails.append(Failure('forward_map_molecule', 'not-weighted-mean', 'after embedding: ' + msg,
                                     classify('forward_map_molecule', wcls, 'not-weighted-mean')))
    return Outcome(key, nontrivial, fails)


def _check_fmap(case, key, cg, aa):
    from cgsmiles.coordinates import forward_map_molecule
    cg2, G, _, _ = cm.relabel_pair(cg, aa, case['label'])
    rng = np.random.default_rng(int(case['pseed']))
    spread = [1.0, 5.0, 50.0][int(case['pseed']) % 3]
    centre = rng.normal(size=3) * spread
    pos = {n: centre + rng.normal(size=3) * spread for n in sorted(G.nodes)}
    for n in G:
        G.nodes[n]['position'] = pos[n].copy()
    exp, nonunit = _bead_expectation(cg2, G)
    if exp is None:
        return Outcome(key, False, [], skipped=True, note='a bead has weight sum <= 0')
    wcls = 'non-unit-weights' if nonunit else 'unit-weights'
    fails = []
    scale = max(1.0, float(max(np.max(np.abs(p)) for p in pos.values())))
    try:
        forward_map_molecule(cg2, G)
    except Exception as e:
        fails.append(Failure('forward_map_molecule', 'exception', '%s: %s' % (type(e).__name__, e),
                             classify('forward_map_molecule', wcls, type(e).__name__)))
        return Outcome(key, nonunit, fails)
    msg = _check_beads(cg2, exp, scale)
    if msg:
        fails.append(Failure('forward_map_molecule', 'not-weighted-mean', msg,
                             classify('forward_map_molecule', wcls, 'not-weighted-mean')))
    before = {k: np.array(cg2.nodes[k]['position'], dtype=float) for k in cg2.nodes
              if isinstance(cg2.nodes[k].get('position'), np.ndarray)}
    # translation: all atoms move by v, every bead must move by v
    v = np.array(case['shift'], dtype=float)
    for n in G:
        G.nodes[n]['position'] = pos[n] + v
    try:
        forward_map_molecule(cg2, G)
    except Exception as e:
        fails.append(Failure('forward_map_molecule', 'exception', 'after translation: %s: %s' % (type(e).__name__, e),
                             classify('forward_map_molecule', wcls, type(e).__name__)))
        return Outcome(key, nonunit, fails)
    tol = 1e-9 * max(scale, float(np.max(np.abs(v))))
    worst = None
    for k, b in before.items():
        a = cg2.nodes[k].get('position')
        if not isinstance(a, np.ndarray) or a.shape != (3,):
            continue
        err = float(np.max(np.abs((a - b) - v)))
        if err > tol and (worst is None or err > worst[0]):
            worst = (err, k, (a - b).round(6).tolist())
    if worst:
        fails.append(Failure('forward_map_molecule', 'translation-not-equivariant',
                             'atoms translated by %s, bead %r moved by %s' % (v.tolist(), worst[1], worst[2]),
                             classify('forward_map_molecule', wcls, 'translation-not-equivariant')))
    return Outcome(key, nonunit, fails)
