"""
C11 - virtual nodes and zero-order edges are inert.

Bounded tier (DESIGN 6, C11 clause B).  A C01-style description (G2 molecule M, partition, rendering) gets a base
graph with extra nodes that have no fragment ("virtual", names V, V1, V2 ...) joined by order-0 edges only, and / or
order-0 edges between real nodes.  Run-time postconditions on MoleculeResolver.resolve():

  family 'virt'  (virtual nodes first / in the middle / last, one or several, attached to one node by a chain edge
                  `.`, to two nodes so that one attachment is a ring bond `.1`, to each other; extra order-0 edges between
                  real nodes that are not bonded):
     (a) heavy(fine) is isomorphic to M by construction (valence table for hydrogens), and under that isomorphism
         every atom's fragid is exactly [key of its own fragment's coarse node]  (key = position of the node in the
         base graph);
     (b) coarse.nodes[k]['graph'] holds exactly the fine nodes whose fragid contains k; for a virtual k there is no
         such node and no fine atom names k; hydrogens carry their atom's fragid (specs.valence.check_valence);
     (c) metamorphic: with every fine atom labelled by the *fragment name* of the coarse node(s) in its fragid, the
         result is isomorphic to the result for the same description without the virtual nodes / zero-order edges;
  family 'zero'  an edge between two real nodes that DO have matching descriptors is given order 0: no bond may be
         created there ("edges of order 0 never produce bonds"), so the result is M without the cut bonds between
         those two fragments, open valences filled with hydrogen (aromatic atoms are never involved in such a cut);
  family 'neg'   a fragment-less node with one edge of order 1..4 must be rejected with SyntaxError.

Scope decisions: the base-graph text is written by gen/g2_molecules.render_base (bond symbol `.` between nodes, in front
of a branch brace, in front of the opening ring marker); a case whose text cgsmiles.read_cgsmiles does not read as the
intended graph is skipped (C04's subject).  from_graph is used with keys 0..n-1 in listing order.  Virtual nodes are
named so that no fragment of that name exists.
"""
import itertools
import logging
import random

from vf.bounded import Outcome, Failure
from gen import g2_molecules as g2
from specs import chem_checks as cc
from specs.valence import check_valence
from props import C01 as base

ID = 'C11'
LEVEL = 'other'
P_TARGETS = ['cgsmiles.resolve:MoleculeResolver.edges_from_bonding_descrpt', 'cgsmiles.resolve:MoleculeResolver.resolve_disconnected_molecule', 'cgsmiles.graph_utils:merge_graphs']
BUDGET = {'quick': 33.0, 'thorough': 400.0}
CHUNK = 50
BOUNDS = {
    'quick': {
        'descriptions': 'every partition of every C N O molecule with <= 3 heavy atoms, of the carbon skeletons and ring probes with 4, '
                        'and 2 seeded partitions (plus bridge-bond and trivial ones, <= 5 fragments) of each of the 43 library molecules',
        'virtual_nodes': 'node listing: virtual first, and one of {last, second, first with reals reversed} in turn (thorough: all four); 1 virtual node attached to each single real node; attached to each pair of '
                         'real nodes; 2 virtual nodes (chained, or attached apart); 3 chained; each also combined with an order-0 '
                         'edge between two non-bonded real nodes when the base graph has such a pair',
        'constructors': 'from_string for every variant, from_graph additionally for every fourth', 'thinning': 'hetero molecules with 3 heavy atoms take every second variant, descriptions with 4 or more heavy atoms or fragments every third',
        'zero_family': 'each base-graph edge of each description set to order 0 (non-aromatic cuts)',
        'neg_family': 'one virtual node with an edge of order 1, 2, 3, 4 (alone, or next to an order-0 edge)'},
    'thorough': {
        'descriptions': 'as quick plus every C N O Cl [N+] [O-] molecule with <= 3 (2 renderings) and every C N O molecule with 4 heavy atoms '
                        '(1 rendering), 20 seeded partitions per library molecule',
        'virtual_nodes': 'as quick; all four node listings for descriptions with <= 3 heavy atoms, two for larger ones, which also take every '
                         'second variant', 'constructors': 'both for every variant', 'zero_family': 'as quick',
        'neg_family': 'orders 1-4 x {alone, next to an order-0 edge} x {virtual first, last} up to 3 heavy atoms, thinned as in quick above'},
}
EXHAUSTIVE = {'quick': False, 'thorough': False}
RULE = ('description (molecule x partition x rendering) x insertion variant (see BOUNDS); the list of variants is exhaustive for the '
        'stated shapes and independent of the seed, renderings and library partitions are seeded.  Non-trivial: the base graph '
        'contains at least one fragment-less node or order-0 edge (all cases).  distinct = distinct CGsmiles text / node list')
ASSUMPTIONS = base.ASSUMPTIONS


def _priorities(nf, nv, rng):
    reals = list(range(nf))
    vs = list(range(nf, nf + nv))
    out = [('first', vs + reals), ('last', reals + vs)]
    if nf >= 2:
        out.append(('second', reals[:1] + vs + reals[1:]))
        out.append(('first-rev', vs + reals[::-1]))
    return out


def variants(nf, real_edges):
    """Insertion variants (virt spec, tag).  Virtual nodes are numbered nf, nf+1, ..."""
    out = []
    nonadj = [(u, v) for u, v in itertools.combinations(range(nf), 2) if (u, v) not in real_edges]
    for t in range(nf):
        out.append(({'n': 1, 'edges': [[nf, t, 0]]}, 'v1-chain'))
    for t1, t2 in itertools.combinations(range(nf), 2):
        out.append(({'n': 1, 'edges': [[nf, t1, 0], [nf, t2, 0]]}, 'v1-ring'))
    for t in range(min(nf, 3)):
        out.append(({'n': 2, 'edges': [[nf, t, 0], [nf, nf + 1, 0]]}, 'v2-chained'))
        out.append(({'n': 3, 'edges': [[nf, t, 0], [nf, nf + 1, 0], [nf + 1, nf + 2, 0]]}, 'v3-chained'))
    if nf >= 2:
        out.append(({'n': 2, 'edges': [[nf, 0, 0], [nf + 1, nf - 1, 0]]}, 'v2-apart'))
        out.append(({'n': 2, 'edges': [[nf, 0, 0], [nf + 1, nf - 1, 0], [nf, nf + 1, 0]]}, 'v2-ring'))
    for (u, v) in nonadj[:3]:
        out.append(({'n': 0, 'edges': [[u, v, 0]]}, 'zero-edge'))
        out.append(({'n': 1, 'edges': [[u, v, 0], [nf, u, 0]]}, 'zero-edge+v1'))
    return out


def _descriptions(tier, seed):
    rng = random.Random(seed * 92821 + 3)
    quick = tier == 'quick'
    mols = []
    for n in (1, 2, 3):
        mols += g2.small_molecules(n, g2.ALPHA_CNO)
    mols += g2.small_molecules(4, g2.ALPHA_C) + [g2.parse_smiles(s) for s in base.PROBES]
    if not quick:
        for n in (2, 3):
            mols += [m for m in g2.small_molecules(n, g2.ALPHA_MID) if any(a[0] not in 'CNO' or a[1] for a in m['a'])]
        mols += [m for m in g2.small_molecules(4, g2.ALPHA_CNO) if any(a[0] != 'C' for a in m['a'])]
    for mol in mols:
        if not base._valid(mol):
            continue
        for part in g2.connected_partitions(mol):
            for r in g2.covering_renderings(mol, part, 1 if (quick or len(mol['a']) > 3) else 2, rng):
                yield mol, part, r, None
    for smi, mol in g2.library():
        prng = random.Random(seed * 17 + sum(map(ord, smi)))
        for part in g2.sampled_partitions(mol, prng, 2 if quick else 20):
            if max(part) + 1 > (5 if quick else 6):
                continue
            yield mol, part, next(g2.covering_renderings(mol, part, 1, prng)), smi


# typed-in strings in which the zero-order bond is written in the less common places (in front of a ring marker that is followed
# by another ring marker, directly behind a multiplier, in front of / behind a branch), with the molecule(s) they describe
TYPED = [
    ('{[#A].12[#B][#C]2.[#V]1}.{#A=[$]C[$],#B=[$]N[$],#C=[$]O[$]}', 'C1NO1'),
    ('{[#A]2.1[#B][#C]2.[#V]1}.{#A=[$]C[$],#B=[$]N[$],#C=[$]O[$]}', 'C1NO1'),
    ('{[#A]|2.[#V]}.{#A=[$]CC[$]}', 'CCCC'),
    ('{[#A]|2.[#B]}.{#A=[$]CC[$],#B=[$]O}', 'CCCC.O'),
    ('{[#V].[#A]|3}.{#A=[$]CC[$]}', 'CCCCCC'),
    ('{[#A]|2.[#V].[#A]|2}.{#A=[$]CC[$]}', 'CCCC.CCCC'),
    ('{[#A]([#B]).[#V]}.{#A=[$]CC[$],#B=[$]O}', 'CCO'),
    ('{[#A].([#V])[#B]}.{#A=[$]CC[$],#B=[$]O}', 'CCO'),
    ('{[#A]1.[#V].[#B]1[#C]}.{#A=[$]C,#B=[$]N[$],#C=[$]O}', 'CNO'),
    ('{[#A]=[#B].[#B]}.{#A=[$]=C,#B=[$]=C}', 'C=C.C'),
]


def check_typed(case):
    import networkx as nx
    import pysmiles
    from cgsmiles.resolve import MoleculeResolver
    text, ref = case['text'], case['ref']
    api = 'MoleculeResolver.resolve() with virtual nodes / zero-order edges'
    r = base.quiet(lambda: MoleculeResolver.from_string(text).resolve())
    if r[0] != 'ok':
        return Outcome(text, True, [Failure(api, 'resolver-exception', '%s -> %s: %s' % (text, r[1], r[2][:160]),
                                            'resolve/typed-zero-order/resolver-exception', text=text)])
    fine = r[1][1]
    want = pysmiles.read_smiles(ref, explicit_hydrogen=True)
    want.remove_edges_from([(u, v) for u, v, o in want.edges(data='order') if o == 0])      # pysmiles keeps `.` as an order-0 edge
    same = nx.is_isomorphic(fine, want, node_match=lambda a, b: a.get('element') == b.get('element'))
    fails = []
    if not same:
        def formula(g):
            els = sorted(d.get('element') for _, d in g.nodes(data=True))
            return ' '.join('%s%d' % (e, els.count(e)) for e in sorted(set(els)))
        fails.append(Failure(api, 'wrong-molecule', '%s -> %s (%d bonds, %d components), described: %s = %s (%d bonds)' % (
            text, formula(fine), fine.number_of_edges(), nx.number_connected_components(fine), ref, formula(want), want.number_of_edges()),
            'resolve/typed-zero-order/wrong-molecule', text=text))
    return Outcome(text, True, fails)


def cases(tier, seed):
    rng = random.Random(seed * 1299709 + 11)
    quick = tier == 'quick'
    for text, ref in TYPED:
        yield {'fam': 'typed', 'text': text, 'ref': ref}
    descs = list(_descriptions(tier, seed))
    # most discriminating first: several fragments, virtual node in front of real nodes
    descs.sort(key=lambda d: (0 if 2 <= max(d[1]) + 1 <= 3 else 1, len(d[0]['a'])))
    count = 0
    for mol, part, r, smi in descs:
        nf = max(part) + 1
        plan = g2.make_fragments(mol, part)
        vlist = variants(nf, plan['edges'])
        if not quick and len(mol['a']) >= 4:
            vlist = vlist[(len(mol['b']) % 2)::2]
        if quick and nf >= 4:
            vlist = vlist[(len(mol['a']) % 3)::3]
        elif quick and len(mol['a']) >= 4:
            vlist = vlist[(len(mol['b']) % 3)::3]
        elif quick and len(mol['a']) == 3 and any(a[0] != 'C' for a in mol['a']):
            vlist = vlist[(sum(map(ord, mol['a'][0][0] + mol['a'][2][0])) % 2)::2]
        for virt, tag in vlist:
            prios = _priorities(nf, virt['n'], rng)
            if (quick or len(mol['a']) > 3) and len(prios) > 2:
                # 'first' always (a virtual node in front of every real node), one of the others in turn
                prios = [prios[0], prios[1 + count % (len(prios) - 1)]]
            for ptag, prio in prios:
                if virt['n'] == 0 and ptag != 'first':
                    continue
                count += 1
                ctors = ['string', 'graph'] if (not quick or count % 4 == 0) else ['string']
                for ctor in ctors:
                    rr = dict(r)
                    rr['base'] = prio
                    rr['ctor'] = ctor
                    yield {'fam': 'virt', 'tag': tag + '/' + ptag, 'mol': mol, 'part': part, 'virt': virt, 'r': rr}
        # zero family: switch one real edge off
        for (u, v) in sorted(plan['edges']):
            cut = [b for b in mol['b'] if {part[b[0]], part[b[1]]} == {u, v}]
            if any(mol['a'][b[0]][2] or mol['a'][b[1]][2] for b in cut):
                continue
            rr = dict(r)
            rr['base'] = list(range(nf))
            rr['ctor'] = 'string'
            yield {'fam': 'zero', 'tag': 'real-edge-order-0', 'mol': mol, 'part': part, 'virt': {'n': 0, 'edges': [[u, v, 0]]}, 'r': rr}
        # neg family
        for k in (1, 2, 3, 4):
            for extra in ((), ((nf, (nf - 1), 0),)):
                if extra and nf < 2:
                    continue
                thin = quick or len(mol['a']) > 3
                if thin and bool(extra) != bool((k + count) % 2):
                    continue
                edges = [[nf, 0, k]] + [list(e) for e in extra]
                for ptag, prio in _priorities(nf, 1, rng)[:2][(k % 2 if thin else 0):(k % 2 + 1 if thin else 2)]:
                    rr = dict(r)
                    rr['base'] = prio
                    rr['ctor'] = 'string' if k % 2 else 'graph'
                    yield {'fam': 'neg', 'tag': 'order-%d/%s' % (k, ptag), 'mol': mol, 'part': part,
                           'virt': {'n': 1, 'edges': edges}, 'r': rr}


def classify(case, built, kind):
    if base._F2.search(built['frag_str']):
        return 'resolve/descriptor-behind-ring-bond-symbol-and-digit/' + kind
    if case['fam'] == 'neg':
        return 'resolve/fragmentless-node-with-bond/' + kind
    if case['fam'] == 'zero':
        return 'resolve/real-edge-of-order-0/' + kind
    order = built['order']
    nf = built['nf']
    virt_pos = [k for k, n in enumerate(order) if n >= nf]
    real_pos = [k for k, n in enumerate(order) if n < nf]
    if virt_pos and real_pos and min(virt_pos) < max(real_pos):
        return 'resolve/virtual-node-before-a-real-node/' + kind
    if virt_pos:
        return 'resolve/virtual-node-last/' + kind
    return 'resolve/zero-order-edge/' + kind


def init_worker():
    logging.getLogger('pysmiles').setLevel(logging.ERROR)
    import cgsmiles  # noqa: F401


def _named(fine, coarse):
    """heavy view with 'fn' = sorted fragment names of the coarse nodes listed in fragid"""
    h, probs = cc.heavy_view(fine)
    for n in h.nodes:
        h.nodes[n]['fn'] = tuple(sorted(str(coarse.nodes[k].get('fragname')) if k in coarse else '?%r' % (k,)
                                        for k in h.nodes[n]['fragid']))
    return h, probs


_PLAIN = {}


def _plain(pbuilt):
    """named heavy view of the description without insertions, cached per worker (None when it does not resolve)"""
    k = g2.describe(pbuilt)
    if k not in _PLAIN:
        if len(_PLAIN) > 3000:
            _PLAIN.clear()
        _PLAIN[k] = (None, None)
        if base.base_reads_as_intended(pbuilt):
            q = base._resolve(pbuilt)
            if q[0] == 'ok':
                _PLAIN[k] = _named(q[1][1], q[1][0])
    return _PLAIN[k]


def check_case(case):
    if case.get('fam') == 'typed':
        return check_typed(case)
    built = g2.build(case)
    text = g2.describe(built)
    if not base.base_reads_as_intended(built):
        return Outcome(text, False, [], skipped=True, note='base-graph text is not read as the intended graph (C04 subject)')
    api = 'MoleculeResolver.resolve() with virtual nodes / zero-order edges'
    fails = []

    def fail(kind, detail, **kw):
        fails.append(Failure(api, kind, detail, classify(case, built, kind), text=text, tag=case.get('tag'), **kw))

    r = base._resolve(built)
    mol, part = case['mol'], case['part']
    nf = built['nf']
    if case['fam'] == 'neg':
        if r[0] == 'ok':
            fail('accepted', '%s resolves to %d atoms although a fragment-less node has an edge of order >= 1'
                 % (text, r[1][1].number_of_nodes()))
        elif r[1] != 'SyntaxError':
            fail('wrong-exception', '%s -> %s: %s (SyntaxError expected)' % (text, r[1], r[2]))
        return Outcome(text, True, fails)
    if r[0] != 'ok':
        fail('resolver-exception', '%s -> %s: %s' % (text, r[1], r[2][:200]), traceback=r[3])
        return Outcome(text, True, fails)
    coarse, fine = r[1]
    key_of = {n: k for k, n in enumerate(built['order'])}
    if case['fam'] == 'zero':
        (u, v, _), = case['virt']['edges']
        mol = {'a': mol['a'], 'b': [b for b in mol['b'] if {part[b[0]], part[b[1]]} != {u, v}]}
    h, probs = cc.heavy_view(fine)
    if probs:
        fail('hydrogen-topology', '%s -> %s' % (text, probs[:3]))
        return Outcome(text, True, fails)
    # (a) by construction, with membership
    want = cc.expected_heavy(mol)
    for a in want.nodes:
        want.nodes[a]['mem'] = (key_of[part[a]],)
    for n in h.nodes:
        h.nodes[n]['mem'] = tuple(h.nodes[n]['fragid'])
    if not cc.same_heavy(h, want, with_h=True):
        kind = 'wrong-hydrogens' if cc.same_heavy(h, want, with_h=False) else 'wrong-molecule'
        fail(kind, '%s -> %s ; expected (construction + valence table) %s' % (text, cc.summary(h), cc.summary(want)))
    elif not cc.same_heavy(h, want, with_h=True, extra='mem'):
        fail('wrong-membership', '%s (coarse keys %s) -> fragid per heavy atom %s ; expected %s'
             % (text, {built['names'][n]: k for n, k in key_of.items()},
                sorted((d['element'], d['mem']) for _, d in h.nodes(data=True)),
                sorted((d['element'], d['mem']) for _, d in want.nodes(data=True))))
    if fails:
        # the coarse-node and metamorphic clauses below restate the same fault; one failure per case keeps replays small
        return Outcome(text, True, fails)
    # (b) coarse node graphs
    for k in coarse.nodes:
        gk = coarse.nodes[k].get('graph')
        got = set(gk.nodes) if gk is not None else set()
        exp = {n for n, d in fine.nodes(data=True) if k in (d.get('fragid') or ())}
        node = built['order'][k] if isinstance(k, int) and 0 <= k < len(built['order']) else None
        if got != exp:
            fail('coarse-graph-membership', '%s -> coarse node %r graph nodes %s, fine nodes with that fragid %s'
                 % (text, k, sorted(got), sorted(exp)))
            break
        if node is not None and node >= nf and got:
            fail('virtual-node-owns-atoms', '%s -> virtual coarse node %r (%s) is mapped to fine nodes %s'
                 % (text, k, coarse.nodes[k].get('fragname'), sorted(got)))
            break
        if node is not None and node < nf:
            own = sorted((mol['a'][a][0], mol['a'][a][1]) for a in range(len(part)) if part[a] == node)
            have = sorted((fine.nodes[n]['element'], cc._num(fine.nodes[n].get('charge', 0))) for n in got
                          if fine.nodes[n].get('element') != 'H')
            if own != have:
                fail('coarse-node-not-its-own-atoms', '%s -> coarse node %r (%s) is mapped to heavy atoms %s, its fragment has %s'
                     % (text, k, coarse.nodes[k].get('fragname'), have, own))
                break
    vp = check_valence(fine)
    if vp:
        fail('valence-' + vp[0][0], '%s -> %s' % (text, [p[2] for p in vp[:3]]))
    # (c) metamorphic: same description without the insertions
    if case['fam'] == 'virt':
        pcase = dict(case)
        pcase['virt'] = None
        pr = dict(case['r'])
        pr['base'] = [n for n in case['r']['base'] if n < nf]
        pcase['r'] = pr
        pbuilt = g2.build(pcase)
        ph, pprobs = _plain(pbuilt)
        if ph is not None and not pprobs:
            vh, _ = _named(fine, coarse)
            if not cc.same_heavy(vh, ph, with_h=True, extra='fn'):
                fail('differs-from-plain', '%s -> %s ; %s -> %s'
                     % (text, sorted((d['element'], d['nh'], d['fn']) for _, d in vh.nodes(data=True)), g2.describe(pbuilt),
                        sorted((d['element'], d['nh'], d['fn']) for _, d in ph.nodes(data=True))), plain=g2.describe(pbuilt))
    return Outcome(text, True, fails)
