"""
C05 -- the multiplication operator |n is shorthand for writing the unit out.

Bounded tier (DESIGN section 6 C05).  Run-time postcondition on `cgsmiles.read_cgsmiles`:

    read_cgsmiles(render(ast))  is isomorphic (fragname, charge, weight, free annotation keys, bond orders) to
    denote(expand(ast)),   and identical to it (same node numbering) when the only multipliers are on single nodes.

`expand` writes the multipliers out on the AST (gen/g1_grammar.py), `denote` is the grammar's meaning computed from
the AST.  The longhand reference is NOT obtained by reading the longhand text with the reader, so the known reader
defect F7 (consecutive closures) cannot contaminate the reference.

What |n means (docs "Multiplication Operator", docstring of read_cgsmiles, tests 7 and 19-28 of test_read_cgsmiles):
  * `[#A]|n`            n nodes A in a row, consecutive copies bonded with order 1; the symbol in front of the
                        token bonds the FIRST copy to its predecessor, a symbol after |n bonds the LAST copy to
                        what follows (`[#A]|3=[#B]` is `[#A][#A][#A]=[#B]`); branches after |n hang on the last copy;
  * `[#A]s(...)x|n y`   n copies of anchor + branch; copy i+1's anchor is bonded to copy i's anchor with the
                        symbol x written between ')' and '|' (default order 1, test 22 `)$|3`), the symbol s before
                        '(' bonds anchor and branch in every copy (test 21), y after |n bonds the last anchor
                        to what follows (tests 21b, 22), the anchor's own incoming symbol belongs to the first copy;
  * `[#A]|m(...)x|n`    both rules, one after the other: the docs define `[#A]|m` as "equivalent to writing" m nodes A
                        (so the string is `[#A]...[#A](...)x|n` with the branch on the last A, as for any branch after
                        |m), and "the entire branch including the anchoring node is repeated": the anchoring NODE is
                        that last A.  Expected: m-1 nodes A, then n copies of A+branch (`{[#X][#A]|2([#B])|2[#E]}` is
                        X A A(B) A(B) E, 7 nodes).  Generated only with a flat branch (no branch and no |n inside).

Scope decisions (combinations the documentation leaves open are not generated):
  * an anchor with two or more branches followed by |n (which unit is repeated?);
  * a multiplied branch followed by a further branch on the same anchor;
  * an anchor that itself carries |n and whose branch carries |n when that branch contains a branch or a multiplier
    (the flat case is generated as a family of its own, see above);
  * ring markers on a multiplied node (no documented position next to |n);
  * ring markers inside a multiplied unit that are not opened AND closed inside that unit; rings that stay inside
    one unit are generated as a separate small family (each copy then has its own ring in the longhand) and
    get their own signature -- see "candidate findings" below;
  * multipliers 0 and negative.  |1 is generated (one copy = the unit itself).
  * everything C04 excludes (closing-only ring symbols, %nn followed by a digit marker, ...).

Failure classes (signatures):
  read_cgsmiles/bond-symbol-after-node-multiplier/ValueError      F8, first part (repaired in the candidate fixes):
        text has ']|n' directly followed by a bond symbol and int() raised ValueError
  read_cgsmiles/multiplied-branch-containing-branch               F8, rest (finding): some multiplied branch has a
        branch in its content and the result is not isomorphic / KeyError / IndexError
  read_cgsmiles/multiplied-branch-after-closed-branch-inside-branch   F8, rest ("nested branch + sibling"): a multiplied
        branch inside a branch, with another branch of the same top-level branch closed before it; the stale recipe
        of the closed branch is replayed (`{[#X]([#C]([#D])[#E]([#F])|2)}` gives a self loop); needs >= 5 node tokens
  read_cgsmiles/multiplied-node-with-bond-symbol-inside-multiplied-branch   candidate finding: `[#A].([#B]|2)|2` -- in the
        copies made by the branch expansion all copies of B are bonded with the incoming order of B (recipe stores
        one order per entry), the longhand bonds B-B with order 1; only when the result is the right graph with
        wrong bond orders
  read_cgsmiles/consecutive-branch-closures                       F7 seen through C05: two closures without a node
        token between them (a multiplier may sit between), a node token later, and the result is not isomorphic /
        KeyError / IndexError; only when no multiplied branch contains a branch
  read_cgsmiles/branch-multiplier-one/UnboundLocalError           candidate finding: `(...)|1`
  read_cgsmiles/ring-inside-multiplied-branch                     candidate finding: the copies lose the ring bond
  read_cgsmiles/multiplied-anchor-of-multiplied-branch/<kind>     `[#A]|m(...)|n` (no finding on the trees seen so far)
  read_cgsmiles/<features>/<kind>                                 everything else
"""
import logging

from vf.bounded import Outcome, Failure
from gen import g1_grammar as g1

ID = 'C05'
LEVEL = 'other'
P_TARGETS = ['cgsmiles.read_cgsmiles:_find_next_character']
BUDGET = {'quick': 33.0, 'thorough': 450.0}
CHUNK = 300
# two small families whose failures are candidate findings (see the docstring); switch off to leave them out
BRANCH_COUNT_ONE_FAMILY = True      # `(...)|1`
RING_IN_UNIT_FAMILY = True          # a ring that opens and closes inside one multiplied unit
BOUNDS = {
    'quick': {'exhaustive_max_node_tokens': '3 with <=2 multipliers and <=2 symbols; 4 with (1 multiplier, <=2 symbols), '
                                            '(2 multipliers, <=1 symbol) and (2 multipliers, <=2 symbols, no multiplied branch '
                                            'that contains a branch); 5 with 1 multiplier and no symbol',
              'counts': [2, 3], 'nesting_depth': 3,
              'symbol_positions': 'incoming symbol of every node (incl. after |n), between ) and |n',
              'one_ring_bond_outside_units': True, 'annotated_max_node_tokens': 4,
              'branch_count_one_max_tokens': 4, 'ring_inside_unit_max_tokens': 4,
              'multiplied_anchor_of_multiplied_flat_branch': '<= 4 node tokens, counts 2,3 x 2,3, <= 1 symbol, one annotation',
              'random_cases': 3000, 'random_node_tokens': '4..14', 'random_counts': '1..12', 'random_multipliers': '1..3'},
    'thorough': {'exhaustive_max_node_tokens': '4 with <=2 multipliers and <=2 symbols; 5 with (1 multiplier, <=2 symbols) and '
                                               '(2 multipliers, <=1 symbol); 6 with 1 multiplier and <=1 symbol',
                 'counts': [2, 3], 'nesting_depth': 3,
                 'symbol_positions': 'incoming symbol of every node (incl. after |n), between ) and |n',
                 'one_ring_bond_outside_units': True, 'annotated_max_node_tokens': 6,
                 'branch_count_one_max_tokens': 5, 'ring_inside_unit_max_tokens': 6,
                 'multiplied_anchor_of_multiplied_flat_branch': '<= 5 node tokens with <= 1 symbol, <= 4 with <= 2 symbols; counts 2,3 x 2,3',
                 'random_cases': 100000, 'random_node_tokens': '4..14', 'random_counts': '1..12', 'random_multipliers': '1..3'},
}
EXHAUSTIVE = {'quick': False, 'thorough': False}
RULE = ('ASTs of the documented grammar with multipliers (gen/g1_grammar.py): every arrangement of k node tokens x every '
        'choice of 1..2 multiplier sites (any node incl. the first, any branch that is the only branch of its anchor, nested '
        'ones included) x counts 2,3 x every assignment of bond symbols to the positions with at most the stated number of '
        'symbols, plus one ring bond outside the multiplied units; annotations on every node of a multiplied unit; |1 on '
        'branches; a ring inside a multiplied unit; a multiplied node that anchors a multiplied flat branch; then seeded random ASTs (4..14 tokens, 1..3 multipliers, counts up to 12, '
        'symbols, annotations, rings).  The exhaustive part does not depend on the seed.  A case is non-trivial when some '
        'multiplier has n >= 2 and the string also has a branch, a ring marker, a bond symbol or an annotation; '
        'distinct = distinct rendered text.')
ASSUMPTIONS = [
    'gen/g1_grammar.expand is the documented meaning of |n (written from the docs; g1_grammar.selftest() checks it against the expected graphs of tests 7 and 19-28 of test_read_cgsmiles)',
    'gen/g1_grammar.denote is the documented meaning of the multiplier-free grammar (see C04)',
    'isomorphism is decided by networkx.is_isomorphic with node_match on fragname/charge/weight/free keys and edge_match on order',
]


def init_worker():
    logging.getLogger('pysmiles').setLevel(logging.ERROR)


def _with_text(gen, n=12):
    for i, c in enumerate(gen):
        if i < n:
            c = dict(c)
            c['text'] = g1.render(g1.build(c))
        yield c


def cases(tier, seed):
    if tier == 'quick':
        yield from _with_text(g1.c05_recipes(3, max_mults=2))
        if BRANCH_COUNT_ONE_FAMILY:
            yield from g1.c05_branch_count_one_recipes(4)
        if RING_IN_UNIT_FAMILY:
            yield from g1.c05_ring_in_unit_recipes(4)
        yield from g1.c05_annotated_recipes(4, branch_in_unit=True)
        yield from g1.c05_multiplied_anchor_recipes(4)
        yield from g1.c05_recipes(5, max_mults=1, max_nondefault=0, min_tokens=5, with_ring=False)
        yield from g1.c05_recipes(4, max_mults=1, max_nondefault=2, min_tokens=4)
        yield from g1.c05_recipes(4, max_mults=2, max_nondefault=1, min_tokens=4, min_mults=2)
        yield from g1.c05_random(seed, 2500, branch_in_unit=False)
        yield from g1.c05_random(seed + 1, 500, branch_in_unit=True)
        # last, so that a loaded machine loses only this block: two multipliers and two symbols on 4 tokens
        # (multiplied branches that contain a branch left out, that class is covered above)
        yield from g1.c05_recipes(4, max_mults=2, max_nondefault=2, min_tokens=4, min_mults=2, branch_in_unit=False)
    else:
        yield from _with_text(g1.c05_recipes(4, max_mults=2))
        if BRANCH_COUNT_ONE_FAMILY:
            yield from g1.c05_branch_count_one_recipes(5)
        if RING_IN_UNIT_FAMILY:
            yield from g1.c05_ring_in_unit_recipes(6)
        yield from g1.c05_annotated_recipes(6, branch_in_unit=True)
        yield from g1.c05_multiplied_anchor_recipes(5)
        yield from g1.c05_multiplied_anchor_recipes(4, max_nondefault=2)
        yield from g1.c05_random(seed, 20000, branch_in_unit=False)
        yield from g1.c05_recipes(5, max_mults=1, max_nondefault=2, min_tokens=5)
        yield from g1.c05_recipes(5, max_mults=2, max_nondefault=1, min_tokens=5, min_mults=2)
        yield from g1.c05_recipes(6, max_mults=1, max_nondefault=1, min_tokens=6)
        yield from g1.c05_random(seed + 2, 70000, branch_in_unit=False)
        yield from g1.c05_random(seed + 1, 10000, branch_in_unit=True)


def feature_tag(f):
    tags = []
    for name, key in (('node-mult', 'node_mult'), ('branch-mult', 'branch_mult'), ('ring', 'ring'), ('symbol', 'symbol'),
                      ('annotation', 'annotation')):
        if f[key]:
            tags.append(name)
    return '+'.join(tags)


_WRONG_GRAPH = ('not-isomorphic', 'wrong-bond-orders', 'wrong-node-count', 'wrong-edge-set', 'wrong-edge-order')
_WRONG_ORDERS = ('wrong-bond-orders', 'wrong-edge-order')


def multiplied_node_with_symbol_in_multiplied_branch(chain, inside=False):
    """some branch with |n (n >= 2) contains a node with |m (m >= 2) whose incoming bond symbol is not a single bond"""
    for n in chain:
        if inside and (n['mult'] or 0) >= 2 and g1.ORDER[n['in']] != 1:
            return True
        for b in n['br']:
            if multiplied_node_with_symbol_in_multiplied_branch(b['chain'], inside or (b['mult'] or 0) >= 2):
                return True
    return False


def multiplied_branch_after_closed_branch_in_branch(ast):
    """some multiplied branch sits inside a branch, and another branch inside the same top-level branch is closed
    before it opens (the reader keeps the recipe of that closed branch and replays it)"""
    found = [False]

    def walk(chain, depth, state):
        for n in chain:
            for b in n['br']:
                if depth == 0:
                    walk(b['chain'], 1, [0])
                else:
                    if (b['mult'] or 0) >= 2 and state[0] > 0:
                        found[0] = True
                    walk(b['chain'], depth + 1, state)
                    state[0] += 1
    walk(ast, 0, None)
    return found[0]


def classify(ast, text, feats, kind, message=''):
    """first matching (syntactic class of the input, kind of failure) pair wins; the rarer classes are asked first, so
    that a failure is only put down to the broad classes (F8 rest, F7) when nothing more specific fits"""
    wrong_or_lookup = kind in _WRONG_GRAPH or kind in ('exception-KeyError', 'exception-IndexError')
    if kind == 'exception-ValueError' and g1.symbol_after_node_multiplier(text) and 'invalid literal for int' in message:
        return 'read_cgsmiles/bond-symbol-after-node-multiplier/ValueError'
    if kind == 'exception-UnboundLocalError' and g1.branch_multiplier_one(ast):
        return 'read_cgsmiles/branch-multiplier-one/UnboundLocalError'
    if kind in _WRONG_GRAPH and kind not in _WRONG_ORDERS and g1.ring_inside_multiplied_unit(ast):
        return 'read_cgsmiles/ring-inside-multiplied-branch'
    if kind in _WRONG_ORDERS and multiplied_node_with_symbol_in_multiplied_branch(ast):
        return 'read_cgsmiles/multiplied-node-with-bond-symbol-inside-multiplied-branch'
    if wrong_or_lookup and multiplied_branch_after_closed_branch_in_branch(ast):
        return 'read_cgsmiles/multiplied-branch-after-closed-branch-inside-branch'
    if wrong_or_lookup and g1.outer_multiplied_branch_contains_branch(ast):
        return 'read_cgsmiles/multiplied-branch-containing-branch'
    if g1.multiplied_anchor_of_multiplied_branch(ast):
        return 'read_cgsmiles/multiplied-anchor-of-multiplied-branch/%s' % kind
    if g1.consecutive_closures_then_token(text):
        # F7: the node after the closures is attached to the wrong anchor; with a ring bond on that node the
        # misplaced edge can coincide with the ring bond, which the reader reports as a duplicate edge
        if wrong_or_lookup or (kind == 'exception-SyntaxError' and feats['ring']
                               and 'two edges between the same node' in message):
            return 'read_cgsmiles/consecutive-branch-closures'
    return 'read_cgsmiles/%s/%s' % (feature_tag(feats), kind)


def check_case(case):
    import cgsmiles
    ast = g1.build(case)
    text = g1.render(ast)
    if not g1.has_multiplier(ast) or g1.scope_violation(ast, allow_ring_in_unit=True, allow_mult_anchor=True) is not None:
        return Outcome(text, False, [], skipped=True, note='outside the C05 scope')
    feats = g1.features(ast)
    flat = g1.flat_nodes(ast)
    real_mult = any((n['mult'] or 0) >= 2 or any((b['mult'] or 0) >= 2 for b in n['br']) for n in flat)
    nontrivial = real_mult and any(feats[k] for k in ('branch', 'ring', 'symbol', 'annotation'))
    longhand = g1.expand(ast)
    exp_nodes, exp_edges = g1.denote_lists(longhand)
    extra = {'text': text, 'longhand': g1.render(longhand)}
    try:
        graph = cgsmiles.read_cgsmiles(text)
    except Exception as e:  # the property says the shorthand reads as the longhand does, so it must read
        kind = 'exception-' + type(e).__name__
        sig = classify(ast, text, feats, kind, str(e))
        return Outcome(text, nontrivial, [Failure('read_cgsmiles', kind, '%s -> %s: %s' % (text, type(e).__name__, e), sig,
                                                  expected_edges=g1.fmt_edges(exp_edges), **extra)])
    obs_nodes, obs_edges = g1.observed_lists(graph)
    diffs = g1.compare_exact(exp_nodes, exp_edges, obs_nodes, obs_edges)
    if not diffs:
        return Outcome(text, nontrivial, [])
    if g1.has_branch_multiplier(ast):
        # numbering is free here: only isomorphism is demanded
        if g1.isomorphic(exp_nodes, exp_edges, obs_nodes, obs_edges):
            return Outcome(text, nontrivial, [])
        # the same graph but for the bond orders, or a different graph?
        kind = 'wrong-bond-orders' if g1.isomorphic(exp_nodes, exp_edges, obs_nodes, obs_edges, with_orders=False) \
            else 'not-isomorphic'
        detail = '%s is not isomorphic to %s: nodes %r edges %r' % (
            text, extra['longhand'], [(k, d.get('fragname')) for k, d in obs_nodes.items()], g1.fmt_edges(obs_edges))
    else:
        kind = diffs[0][0]
        detail = '%s differs from %s (numbering included): %s' % (text, extra['longhand'], '; '.join(d for _, d in diffs[:4]))
    sig = classify(ast, text, feats, kind)
    return Outcome(text, nontrivial, [Failure('read_cgsmiles', kind, detail, sig, expected_edges=g1.fmt_edges(exp_edges),
                                              observed_edges=g1.fmt_edges(obs_edges), **extra)])
