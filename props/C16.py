"""
C16 — sampled polymers are well-formed molecules built from the given fragments.

Bounded tier: run-time postcondition on `MoleculeSampler.from_fragment_string(...).sample(w)` over the sampler
configurations G4 (gen/g4_sampler.py).  For every returned molecule:

  connected            the molecule is one connected component;
  tree of copies       nodes grouped by `fragid` are the fragment copies 0..k-1; the edges carrying a 'bonding'
                       record (site descriptor, partner descriptor) are exactly the edges between different copies;
                       there are k-1 of them, every copy j>=1 has exactly one towards an earlier copy (so the
                       contraction is a tree);
  complementary        on each such edge the pair is `$x`d/`$y`d (labels free, same digit) or `>L`d/`<L`d
                       (identical label and digit) and the edge's 'order' equals that digit;
  no descriptor twice  for every atom, the descriptors still listed on it plus those consumed on its bonding edges
                       are a sub-multiset of its template atom's descriptors — and EQUAL to them for an atom that
                       was never a growth site or when no terminal descriptors are configured (a site atom may lose
                       descriptors to the terminal rule, which is C17's business);
  isomorphic copies    each copy's heavy atoms / coarse nodes with their internal bonds are isomorphic to the
                       template (element resp. node name, bond orders), by a mapping that also satisfies the
                       descriptor accounting above;
  canonical numbering  node keys are 0..n-1, non-decreasing in fragid along the keys (each copy, hydrogens
                       included, is a contiguous block), fragids are 0..k-1, every node of a copy carries the same
                       fragname, and it is the name of a given fragment;
  valence              all-atom samples: every heavy atom's bond-order sum is its usual valence, every hydrogen has
                       degree 1 and its neighbour's fragid / fragname / weight (specs/valence.check_valence of C09 when
                       present, and the conservative specs/sampler_spec.check_valence_local).

Scope decisions
  * The template of every fragment is known by construction (hand-written skeleton library + descriptors placed
    by the generator), never taken from the fragment reader. If the reader's fragment disagrees with the
    construction (that would be C03/C13's subject, e.g. defects F2/F3) the case is skipped; the generator avoids
    those inputs, so this does not happen on either tree.
  * Configurations that dead-end (all open descriptors have weight 0 -> ValueError; no open descriptor or no
    candidate -> IndexError; missing complement -> OSError; KeyError) return no molecule and are outside the
    statement ("every molecule RETURNED"): they are skipped, never failures.
  * Node ITERATION order is not claimed (relabel_nodes keeps insertion order: heavy atoms first, hydrogens last),
    only the keys. Atom order inside a copy is not claimed either (isomorphism, not identity).
  * Orders 1..3 only; no order-0 or aromatic descriptors; no single-hydrogen fragments (C09 covers those);
    masses positive (termination).
"""
import json
import logging
import warnings
from collections import Counter

import networkx as nx

from vf.bounded import Outcome, Failure
from gen import g4_sampler as g4
from specs import sampler_spec as sp

ID = 'C16'
LEVEL = 'other'
P_TARGETS = ['cgsmiles.graph_utils:merge_graphs', 'cgsmiles.cgsmiles_utils:find_complementary_bonding_descriptor', 'cgsmiles.cgsmiles_utils:find_open_bonds', 'cgsmiles.sample:MoleculeSampler.add_fragment',
             'cgsmiles.sample:MoleculeSampler.__init__']
BUDGET = {'quick': 30.0, 'thorough': 390.0}
CHUNK = 100
N_RANDOM = {'quick': 7000, 'thorough': 200000}
BOUNDS = {
    'quick': {'fragments': '1..4', 'descriptors_per_fragment': '1..4', 'kinds': ['$', '>', '<'], 'labels': ['', 'A', 'B', 'C'],
              'orders': [1, 2, 3], 'skeletons_all_atom': len(g4.LIB_AA), 'skeletons_coarse': len(g4.LIB_CG),
              'scenario_seeds': '0..7', 'systematic_family': 'AB fragment x 9x9 descriptor pairs x optional cap (9) x 3 reactivity tables x terminal/not x seeds 0..1 x targets 10, 17; only configurations where every directed descriptor has its complement',
              'random_configurations': N_RANDOM['quick'], 'random_seeds': '0..15', 'copies_per_molecule': '<= ~13'},
    'thorough': {'fragments': '1..4', 'descriptors_per_fragment': '1..4', 'kinds': ['$', '>', '<'], 'labels': ['', 'A', 'B', 'C'],
                 'orders': [1, 2, 3], 'skeletons_all_atom': len(g4.LIB_AA), 'skeletons_coarse': len(g4.LIB_CG),
                 'scenario_seeds': '0..39', 'systematic_family': 'as quick, seeds 0..5',
                 'random_configurations': N_RANDOM['thorough'], 'random_seeds': '0..99', 'copies_per_molecule': '<= ~31'},
}
EXHAUSTIVE = {'quick': False, 'thorough': False}
RULE = ('hand-written scenarios (docstring examples of sample.py, the shapes of test_sampler.py, order-2 linkers, tables with '
        'missing keys) x seeds x targets, then a systematic family (a two-node coarse fragment carrying every pair of a '
        '9-descriptor alphabet, optional one-node cap, reactivity table none / zero on the first / only the second, cap '
        'terminal or not), then seeded random configurations (skeletons from a hand-written library, 1-4 fragments with 1-4 '
        'descriptors placed within the free valences, reactivity / conditional / terminal tables with zeros and missing keys, '
        'optional start fragment, targets on and off exact multiples); a case is non-trivial when the sampler returned a '
        'molecule with at least two fragment copies; dead-ended configurations are skipped (not evaluated); distinct = '
        'distinct (fragment string, tables, masses, seed, target, start)')
ASSUMPTIONS = ['graph isomorphism is decided by networkx GraphMatcher (node_match on element / atomname, edge_match on order)',
               'the usual-valence table of specs/sampler_spec.py (C 4, N 3/5, O 2, S 2/4/6, P 3/5, halogens 1)',
               'the endpoint of a bonding edge with the lower fragid is the growth site (a new copy always gets the highest fragid so far)',
               'pysmiles.read_smiles / fill_valence / add_explicit_hydrogens / correct_aromatic_rings are not verified; their '
               'effect is only observed through the independent valence check']


def init_worker():
    logging.getLogger('pysmiles').setLevel(logging.ERROR)
    warnings.simplefilter('ignore')


def cases(tier, seed):
    for c in g4.structured_cases(tier):
        yield {'cfg': c}
    for c in g4.random_cases(tier, seed, N_RANDOM[tier]):
        yield {'cfg': c}


try:    # C09's per-atom oracle of the "molecules" builder (independent valence table incl. the aromatic rule)
    from specs.valence import check_valence as _check_valence
except Exception:  # noqa — not there (yet): the conservative local check alone
    _check_valence = None


def valence_problems(mol):
    out = list(sp.check_valence_local(mol))
    if _check_valence is not None:
        for kind, node, detail in _check_valence(mol):
            out.append(('hydrogen-attrs' if kind == 'h-attribute' else 'valence', detail))
    return out


def classify(cfg, kind):
    if kind == 'ring-dearomatised' and g4.has_aromatic_descriptor(cfg):
        return 'sample/descriptor-on-aromatic-atom/ring-dearomatised'
    return 'sample/%s%s/%s' % ('all-atom' if cfg['all_atom'] else 'coarse', '+terminals' if cfg['term'] else '', kind)


def reader_agrees(cfg, tpls):
    """Precondition: the fragment reader (called on its own, not through the sampler, whose later treatment of
    the fragments is part of what is checked) produces the fragments the generator constructed."""
    from cgsmiles import read_fragments
    try:
        fd = read_fragments(cfg['text'], all_atom=cfg['all_atom'])
    except Exception:  # noqa
        return False
    if sorted(fd) != sorted(tpls):
        return False
    sym = 'element' if cfg['all_atom'] else 'atomname'
    for name, tpl in tpls.items():
        g = fd[name]
        if sorted(g.nodes) != list(range(len(tpl['atoms']))):
            return False
        for i, a in enumerate(tpl['atoms']):
            if g.nodes[i].get(sym) != a or Counter(g.nodes[i].get('bonding', [])) != Counter(tpl['desc'][i]):
                return False
        want = {frozenset((i, j)): o for i, j, o in tpl['bonds']}
        got = {frozenset((u, v)): d.get('order') for u, v, d in g.edges(data=True)}
        if want != got:
            return False
    return True


def check_molecule(mol, cfg, tpls):
    """All C16 clauses on one returned molecule -> [(kind, detail)]"""
    out = []
    n = mol.number_of_nodes()
    if n == 0:
        return [('not-connected', 'empty molecule')]
    if not nx.is_connected(mol):
        out.append(('not-connected', '%d components' % nx.number_connected_components(mol)))
    dec = sp.Decomposition(mol)
    if dec.problems:
        return out + dec.problems
    # ---- canonical numbering and membership
    if sorted(mol.nodes, key=repr) != sorted(range(n), key=repr):
        out.append(('numbering', 'node keys are not 0..%d: %r' % (n - 1, sorted(mol.nodes, key=repr)[:12])))
    else:
        fids = [dec.fid[i] for i in range(n)]
        if any(a > b for a, b in zip(fids, fids[1:])):
            out.append(('numbering', 'fragid is not non-decreasing along the keys: %r' % fids[:40]))
    k = len(dec.copies)
    if sorted(dec.copies) != list(range(k)):
        out.append(('numbering', 'fragids are %r, expected 0..%d' % (sorted(dec.copies), k - 1)))
    names = {}
    for f in sorted(dec.copies):
        name = dec.copy_name(f)
        if name is None or name not in tpls:
            out.append(('membership', 'copy %d carries fragnames %r' % (f, sorted({str(mol.nodes[x].get('fragname')) for x in dec.copies[f]}))))
        names[f] = name
    # ---- tree of copies
    if len(dec.bonds) != k - 1:
        out.append(('bond-count', '%d bonding edges for %d copies' % (len(dec.bonds), k)))
    per_new = Counter(e['new'] for e in dec.bonds)
    for f in sorted(dec.copies):
        want = 0 if f == min(dec.copies) else 1
        if per_new.get(f, 0) != want:
            out.append(('attachment', 'copy %d has %d bonds towards earlier copies (expected %d)' % (f, per_new.get(f, 0), want)))
    # ---- complementary descriptors of equal order, bond order
    for e in dec.bonds:
        s, p = e['s'], e['p']
        if not (s[-1].isdigit() and p[-1].isdigit() and s[0] in '$<>' and g4.complementary(s, p)):
            out.append(('not-complementary', 'edge %r-%r joins %r with %r' % (e['site'], e['partner'], s, p)))
        elif e['order'] != int(s[-1]):
            out.append(('bond-order', 'edge %r-%r joins %r with %r but has order %r' % (e['site'], e['partner'], s, p, e['order'])))
    # ---- copies isomorphic to templates, descriptor accounting
    used, as_site = dec.consumed()
    exact_everywhere = not cfg['term']

    def atom_ok(node, tdesc):
        have = list(mol.nodes[node].get('bonding', []) or []) + used.get(node, [])
        if exact_everywhere or node not in as_site:
            return Counter(have) == Counter(tdesc)
        return sp.sub_multiset(have, tdesc)

    sym = 'element' if cfg['all_atom'] else 'atomname'
    for f in sorted(dec.copies):
        tpl = tpls.get(names[f])
        if tpl is None:
            continue
        nodes = [x for x in dec.copies[f] if not (cfg['all_atom'] and mol.nodes[x].get('element') == 'H')]
        res = sp.match_copy(mol, nodes, tpl, sym, atom_ok)
        if res == 'no-iso':
            out.append(('copy-not-isomorphic', 'copy %d (%s): nodes %r edges %r' % (
                f, names[f], [(x, mol.nodes[x].get(sym)) for x in nodes],
                [(u, v, d.get('order')) for u, v, d in mol.subgraph(nodes).edges(data=True)])))
        elif res == 'dearomatised':
            out.append(('ring-dearomatised', 'copy %d (%s): an aromatic ring of the template came back with ring bond orders %r' % (
                f, names[f], [(u, v, d.get('order')) for u, v, d in mol.subgraph(nodes).edges(data=True)])))
        elif res == 'accounting':
            out.append(('descriptor-accounting', 'copy %d (%s): remaining %r consumed %r template %r' % (
                f, names[f], {x: mol.nodes[x].get('bonding') for x in nodes if 'bonding' in mol.nodes[x]},
                {x: used[x] for x in nodes if x in used}, {i: d for i, d in tpl['desc'].items() if d})))
    # ---- valence completeness
    if cfg['all_atom']:
        out.extend(valence_problems(mol))
    return out


def check_case(case):
    cfg = case['cfg']
    key = g4.cfg_key(cfg)
    tpls = g4.templates(cfg)
    try:
        sampler, mol = g4.run(cfg, precondition=lambda s: reader_agrees(cfg, tpls))
    except g4.DEAD_END as e:
        return Outcome(key, False, [], skipped=True, note='dead end: %s' % type(e).__name__)
    except Exception as e:  # no molecule returned: outside the statement
        return Outcome(key, False, [], skipped=True, note='no molecule: %s' % type(e).__name__)
    if mol is None:
        return Outcome(key, False, [], skipped=True, note='fragment reader disagrees with the construction')
    problems = check_molecule(mol, cfg, tpls)
    fails, seen = [], set()
    for kind, detail in problems:
        if kind in seen:
            continue
        seen.add(kind)
        fails.append(Failure('MoleculeSampler.sample', kind, '%s seed=%s target=%s: %s' % (cfg['text'], cfg['seed'], cfg['target'], detail),
                             classify(cfg, kind)))
    ncopies = len({tuple(d.get('fragid') or ()) for _, d in mol.nodes(data=True)})
    return Outcome(key, ncopies >= 2, fails)
