"""
C04 -- the graph reader implements the documented grammar.

Bounded tier (the 280-line scanner is outside pyvc's reach, DESIGN section 6 C04).  Run-time postcondition on
`cgsmiles.read_cgsmiles`:

        read_cgsmiles(render(ast)) == denote(ast)

exactly: node keys 0..n-1 in order of appearance, fragname, charge / weight / free annotation keys, the edge set,
and the order of every edge.  `ast`, `render` and `denote` come from gen/g1_grammar.py; the expected graph is
computed from the AST by a recursive walk that never looks at the text, the reader only sees the text.

No multipliers here (they are C05's).

Scope decisions (the oracle demands no more than the property states; see g1_grammar.scope_violation):
  * ring markers: one digit, or '%' + two digits; on one node all digit markers come before all %nn markers
    (`%101` is ring 101 for the reader and `%10`,`1` for OpenSMILES -- the docs promise neither);
  * the bond symbol of a ring bond is written at the opening marker (docs example `{[#A].1[#B][#C]1}`), the
    closing marker carries nothing or the same symbol; a symbol at the closing marker only is undocumented and
    not generated;
  * a bond symbol for a branch is written before '(' (docs: "between the node and the branch brace"), never
    after it; a symbol after ')' refers to the next node attached to the anchor (which may be the first node of
    a further branch: `[#A]([#B])=([#C])`, both documented readings give A=C);
  * `-` is an explicit single bond; no whitespace, no '+', no unknown characters;
  * ring bonds never duplicate an edge, rings are always closed (the faults are C20's);
  * annotation texts are taken from a fixed hand-written table with their meaning (positional / keyword q, w,
    free keys); annotation values contain no brackets, parentheses, '|' or ';'.

Failure classes (signatures):
  read_cgsmiles/consecutive-branch-closures
        only if the text contains '))' followed later by a node token AND what the reader did is exactly what
        a reader does that pops one anchor per closing run and drops the symbol after such a run (the model is
        `f7_model`, which is the denotation with just these two changes; it returns a graph or 'SyntaxError'
        when the misplaced edge collides with a ring bond).  Known finding F7.
  read_cgsmiles/consecutive-branch-closures/unmodelled/<kind>
        the text is of that class but the result is something else -> not covered by the finding.
  read_cgsmiles/<features>/<kind>
        everything else; <features> names which of branch, ring, symbol, annotation occur.
"""
import logging

from vf.bounded import Outcome, Failure
from gen import g1_grammar as g1

ID = 'C04'
LEVEL = 'other'
P_TARGETS = ['cgsmiles.read_cgsmiles:_find_next_character']
BUDGET = {'quick': 33.0, 'thorough': 450.0}
CHUNK = 400
BOUNDS = {
    'quick': {'exhaustive_max_node_tokens': 4, 'nesting_depth': 3, 'branches_per_node': 3,
              'ring_bonds_exhaustive': 2, 'simultaneously_open_rings': 2,
              'ring_spellings': 'digit, %nn, digit/%0n, %0n/digit, reused id',
              'non_default_bond_symbols': 2, 'symbols': ['.', '-', '=', '#', '$'],
              'annotation_forms': len(g1.ANNOTATIONS), 'annotated_max_node_tokens': 4,
              'random_cases': 4000, 'random_node_tokens': '5..14', 'random_rings': '0..3 (<=3 open)'},
    'thorough': {'exhaustive_max_node_tokens': '4 with <=2 ring bonds and <=2 symbols; 5 with (<=1 ring bond, <=2 symbols) and '
                                               '(<=2 ring bonds, <=1 symbol); 6 with (no ring, <=2 symbols), (<=1 ring bond, '
                                               '<=1 symbol) and (<=2 ring bonds, no symbol)',
                 'nesting_depth': 3, 'branches_per_node': 3, 'simultaneously_open_rings': 2,
                 'ring_spellings': 'digit, %nn, digit/%0n, %0n/digit, reused id',
                 'symbols': ['.', '-', '=', '#', '$'],
                 'annotation_forms': len(g1.ANNOTATIONS), 'annotated_max_node_tokens': 6,
                 'random_cases': 150000, 'random_node_tokens': '5..14', 'random_rings': '0..3 (<=3 open)'},
}
EXHAUSTIVE = {'quick': False, 'thorough': False}
RULE = ('ASTs of the documented grammar without multipliers (gen/g1_grammar.py): every arrangement of k node tokens into '
        'chains and branches (nesting <= 3, <= 3 branches per node) x every set of ring bonds between nodes that are not '
        'already bonded x ring-marker spellings x every assignment of bond symbols to the positions (between nodes, before '
        'a ring marker, before a branch, after a branch) up to the stated numbers; then every skeleton x every node x every '
        'annotation form; then seeded random ASTs with 5..14 node tokens.  The exhaustive part does not depend on the seed. '
        'A case is non-trivial when at least two of {branch, ring marker, bond symbol, annotation} occur in it (the '
        'property is about their interaction); distinct = distinct rendered text.')
ASSUMPTIONS = [
    'gen/g1_grammar.denote is the documented meaning of the grammar (written from docs/source/syntax/basic_graph_description.rst '
    'and checked by g1_grammar.selftest() against the expected graphs of test_read_cgsmiles: 25 of the 30 strings agree, the other 5 use three-digit %nnn markers, outside the scope); it never reads the text',
    'the annotation table g1_grammar.ANNOTATIONS pairs each text with its documented meaning (written by hand)',
    'equality of floats written in the table with the floats the reader produces via float() (exact, same literals)',
]

def init_worker():
    logging.getLogger('pysmiles').setLevel(logging.ERROR)


def _with_text(gen, n=12):
    """the first few cases also carry their text, so that the samples in the evidence can be read"""
    for i, c in enumerate(gen):
        if i < n:
            c = dict(c)
            c['text'] = g1.render(g1.build(c))
        yield c


def cases(tier, seed):
    if tier == 'quick':
        # small sizes first: every class of failure already shows at 3-4 tokens
        yield from _with_text(g1.c04_recipes(4, max_rings=2, max_nondefault=2))
        yield from g1.c04_annotated_recipes(4)
        yield from g1.c04_random(seed, 4000)
    else:
        yield from _with_text(g1.c04_recipes(4, max_rings=2, max_nondefault=2))
        yield from g1.c04_annotated_recipes(6)
        yield from g1.c04_random(seed, 30000)
        yield from g1.c04_recipes(6, max_rings=0, max_nondefault=2, min_tokens=6)
        yield from g1.c04_recipes(5, max_rings=1, max_nondefault=2, min_tokens=5)
        yield from g1.c04_recipes(5, max_rings=2, max_nondefault=1, min_tokens=5)
        yield from g1.c04_recipes(6, max_rings=1, max_nondefault=1, min_tokens=6)
        yield from g1.c04_recipes(6, max_rings=2, max_nondefault=0, min_tokens=6)
        yield from g1.c04_random(seed + 1, 120000)


# --------------------------------------------------------------------------------------------------------
# model of the known defect F7 (used ONLY to decide whether a failure belongs to that finding)
# --------------------------------------------------------------------------------------------------------
def _events(chain, is_branch):
    for j, n in enumerate(chain):
        yield ('node', n, is_branch and j == 0)
        for b in n['br']:
            yield from _events(b['chain'], True)
            yield ('close', None, None)


def f7_model(ast):
    """
    The denotation, except that a run of c >= 1 consecutive branch closures pops ONE anchor, and that the bond
    symbol written after a run of c >= 2 closures is dropped.  Returns ('graph', nodes, edges) or
    ('exc', 'SyntaxError') when a ring bond meets an edge that is already there, ('exc', 'IndexError') when the
    anchor stack runs empty.
    """
    ev = list(_events(ast, False))
    nodes, edges, open_rings, stack = [], {}, {}, []
    prev = None
    closed_before = 0
    i = 0
    while i < len(ev):
        kind, n, first = ev[i]
        assert kind == 'node'
        j = i + 1
        c_after = 0
        while j < len(ev) and ev[j][0] == 'close':
            c_after += 1
            j += 1
        if first:
            stack.append(prev)
        idx = len(nodes)
        nodes.append(g1.node_attrs(n))
        if prev is not None:
            order = 1 if closed_before >= 2 else g1.ORDER[n['in']]
            edges[(min(prev, idx), max(prev, idx))] = order
        for sym, marker in n['rings']:
            rid = g1.ring_id(marker)
            if rid in open_rings:
                start, osym = open_rings.pop(rid)
                if (start, idx) in edges:
                    return ('exc', 'SyntaxError')
                edges[(start, idx)] = g1.ORDER[osym]
            else:
                open_rings[rid] = (idx, sym)
        prev = idx
        if c_after >= 1:
            if not stack:
                return ('exc', 'IndexError')
            prev = stack.pop()
        closed_before = c_after
        i = j
    return ('graph', nodes, edges)


# --------------------------------------------------------------------------------------------------------
# comparison
# --------------------------------------------------------------------------------------------------------
observed_lists = g1.observed_lists
compare = g1.compare_exact


F7_SIGNATURE = 'read_cgsmiles/consecutive-branch-closures'


def feature_tag(f):
    tags = [name for name in ('branch', 'ring', 'symbol', 'annotation') if f[name]]
    return '+'.join(tags) or 'plain-chain'


def classify(ast, text, feats, kind, obs):
    """obs = ('graph', nodes, edges) | ('exc', TypeName)"""
    if '))' in text and g1.consecutive_closures_then_token(text):
        model = f7_model(ast)
        same = False
        if model[0] == 'exc' and obs[0] == 'exc':
            same = model[1] == obs[1]
        elif model[0] == 'graph' and obs[0] == 'graph':
            same = not compare(model[1], model[2], obs[1], obs[2])
        if same:
            return F7_SIGNATURE
        return 'read_cgsmiles/consecutive-branch-closures/unmodelled/' + kind
    return 'read_cgsmiles/%s/%s' % (feature_tag(feats), kind)


def check_case(case):
    import cgsmiles
    ast = g1.build(case)
    text = g1.render(ast)
    feats = g1.features(ast)
    kinds = sum(1 for k in ('branch', 'ring', 'symbol', 'annotation') if feats[k])
    nontrivial = kinds >= 2
    try:
        # recipes are inside the scope by construction; complete ASTs (random part, replays) are checked
        if feats['node_mult'] or feats['branch_mult'] or ('ast' in case and g1.scope_violation(ast) is not None):
            return Outcome(text, False, [], skipped=True, note='outside the C04 scope')
        exp_nodes, exp_edges = g1.denote_lists(ast)
    except g1.NotInGrammar:
        return Outcome(text, False, [], skipped=True, note='outside the C04 scope')
    try:
        graph = cgsmiles.read_cgsmiles(text)
    except Exception as e:  # the property says reading succeeds
        kind = 'exception-' + type(e).__name__
        sig = classify(ast, text, feats, kind, ('exc', type(e).__name__))
        return Outcome(text, nontrivial, [Failure('read_cgsmiles', kind, '%s -> %s: %s' % (text, type(e).__name__, e), sig,
                                                  text=text)])
    obs_nodes, obs_edges = observed_lists(graph)
    diffs = compare(exp_nodes, exp_edges, obs_nodes, obs_edges)
    if not diffs:
        return Outcome(text, nontrivial, [])
    kind = diffs[0][0]
    sig = classify(ast, text, feats, kind, ('graph', obs_nodes, obs_edges))
    detail = '%s: %s' % (text, '; '.join(d for _, d in diffs[:4]))
    if sig == F7_SIGNATURE:
        # a known class that makes up a fifth of the space: keep the record small
        return Outcome(text, nontrivial, [Failure('read_cgsmiles', kind, detail, sig)])
    return Outcome(text, nontrivial, [Failure('read_cgsmiles', kind, detail, sig, text=text,
                                              expected_edges=_fmt_edges(exp_edges), observed_edges=_fmt_edges(obs_edges))])


_fmt_edges = g1.fmt_edges
