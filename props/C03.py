"""
C03 - inter-fragment bonds follow the base graph and the bonding-descriptor rules.

Bounded tier: run-time postcondition on every `MoleculeResolver.resolve` step (specs/resolver_spec.check_bonds).
For every fine edge between atoms of different coarse nodes:
  * it carries a 'bonding' record (and only those edges are inter-fragment bonds),
  * the two coarse nodes are joined by a base-graph edge; per base-graph edge at most `order` bonds (none for 0),
  * exactly as many as the statement determines: `spec_exact_counts` claims a number only when every unit of
    order has a dedicated pair whatever the search order is - (H) all descriptors of a connected part are mutually
    compatible `$` and every copy has at least its weighted degree of them, or (X) the descriptors that can pair
    across the edge can pair with nothing else around (then any maximal sequence of picks has the same length);
    and only when the pairs cannot fall on the same two atoms (on one side the descriptors sit on different atoms:
    two units of order spent on one atom pair give one bond - a molecule has one bond per atom pair);
    in design 'unique' (own label pair per unit, legacy) also WHICH template atoms are bonded, by construction,
  * each endpoint's template atom (resolver's 'mapping', verified against the template by C02) carried the
    recorded descriptor; the pair is compatible under the convention in force (spec_compatible, written from the
    statement); the bond order is the annotated digit, or 1.5 exactly when the bond lies in a ring of aromatic atoms,
  * the records can be assigned to pairwise distinct written descriptors of the template atoms' copies.

Scope decisions: `!` bonds are squashed away (C10) - not generated; with legacy=False two descriptors of different
annotated order may pair and the statement does not say whose order wins: either is accepted; aromatic atoms only
in complete benzene rings and the documented three-bead benzene, never in base-graph cycles (whether a link in a
macrocycle of aromatic atoms is aromatic is pysmiles' decision); ambiguous inputs (design 'free', unlabelled
homopolymers with `>`/`<`) get no exact-count claim unless (H)/(X) holds.  Inputs with a fragment-less node that
is not the last node are left to C02 / C11 (finding F4 makes 'which coarse node' itself unreliable there).
"""
import logging
from vf.bounded import Outcome, Failure
from gen import gr_resolver_inputs as gr
from specs import resolver_spec as rs

ID = 'C03'
LEVEL = 'other'
P_TARGETS = ['cgsmiles.resolve:compatible', 'cgsmiles.resolve:match_bonding_descriptors', 'cgsmiles.resolve:MoleculeResolver.edges_from_bonding_descrpt']
BUDGET = {'quick': 30.0, 'thorough': 400.0}
CHUNK = 40
BOUNDS = {
    'quick': {'base_graphs': 'all connected graphs <= 4 nodes', 'edge_orders': '0..3 (all single; each edge in turn 2 / 0, first edge 3)',
              'designs': ['unique', 'homo', 'free'], 'fragments': ['all-atom', 'coarse'], 'legacy': [True, False],
              'constructors': 'from_string; with legacy=False also from_graph and from_fragment_dicts',
              'descriptors': '$ > < with and without labels, orders 1-2, up to 4 per atom, leftovers',
              'typed_in': 40, 'multiplied_units': '|2 |3', 'layered': 'graphs <= 4 nodes, 1..2 intermediate levels', 'random': '60 + 60', 'repeats_per_cell': 2},
    'thorough': {'base_graphs': 'all connected graphs <= 5 nodes', 'edge_orders': '0..3 + 2 seeded assignments per graph', 'repeats_per_cell': 3,
                 'designs': ['unique', 'homo', 'free'], 'fragments': ['all-atom', 'coarse'], 'legacy': [True, False],
                 'constructors': 'from_string; with legacy=False also from_graph and from_fragment_dicts',
                 'descriptors': 'as quick', 'typed_in': 40, 'multiplied_units': '|2 |3 |5', 'layered': 'graphs <= 5 nodes, 1..3 levels',
                 'random': '4000 + 3000'},
}
EXHAUSTIVE = {'quick': False, 'thorough': False}
RULE = ('same inputs as C02 without re-keyed graphs and without a virtual node that is not last; a case is non-trivial when at '
        'least one inter-fragment bond was formed or an exact bond count is determined for some base-graph edge; '
        'distinct = distinct (full string, flags)')
ASSUMPTIONS = ['cgsmiles.read_fragments returns the descriptors per template atom that the fragment text denotes (C13)',
               "the resolver's 'mapping' record names the template atom of a fine node (checked to be an isomorphism onto the template by C02)",
               "a fine node belongs to the coarse node in its 'fragid' (C02)",
               "pysmiles' aromaticity flags in the returned molecule are taken as given when deciding whether a bond lies in an aromatic ring"]


def init_worker():
    logging.getLogger('pysmiles').setLevel(logging.ERROR)
    logging.getLogger('cgsmiles').setLevel(logging.ERROR)


def cases(tier, seed):
    for c in gr.two_level_cases(tier, seed):
        if 'virtual-not-last' not in c['tags']:
            yield c
    yield from gr.layered_cases(tier, seed)


def classify(case, clause, step):
    last = step == len(case['blocks']) - 1
    return 'resolve/%s/%s/%s' % ('legacy' if case['legacy'] else 'label-insensitive',
                                 'all-atom' if (case['all_atom'] and last) else 'coarse', clause)


def check_case(case):
    import cgsmiles
    key = repr((gr.full_string(case), case['all_atom'], case['legacy']))
    if not gr.reader_agrees(cgsmiles, case):
        return Outcome(key, False, [], skipped=True, note='base string not read as intended (C04/C05)')
    try:
        templates = gr.read_templates(cgsmiles, case)
    except Exception as e:
        return Outcome(key, False, [], skipped=True, note='fragment block not readable: %r' % e)
    fails, nontrivial = [], False
    # the matching mode is an argument of every constructor: the non-default one is also taken through from_graph and
    # from_fragment_dicts (fresh templates each time; a resolver may write on the graphs it is given)
    for how in (['string'] if case['legacy'] else ['string', 'graph', 'dicts']):
        step = -1
        via = '' if how == 'string' else ' [constructor: %s]' % {'graph': 'from_graph', 'dicts': 'from_fragment_dicts'}[how]
        try:
            resolver = gr.make_resolver(cgsmiles, case, how)
            if how == 'dicts':
                templates = gr.read_templates(cgsmiles, case)
            for step, (coarse, fine) in enumerate(resolver.resolve_iter()):
                all_atom = case['all_atom'] and step == len(case['blocks']) - 1
                base = gr.intended_graph(case['base']) if (step == 0 and case.get('base')) else coarse
                planned = case.get('bonds') if step == 0 else None
                probs = rs.check_bonds(base, fine, templates[step], case['legacy'], all_atom, planned=planned)
                n_bonds = sum(1 for _, _, d in fine.edges(data=True) if 'bonding' in d)
                names = {k: base.nodes[k].get('fragname') for k in base.nodes}
                desc = {k: rs.template_descriptors(templates[step].get(names[k])) for k in base.nodes}
                nontrivial = nontrivial or n_bonds > 0 or bool(rs.spec_exact_counts(base, desc, case['legacy']))
                for clause, detail in probs:
                    fails.append(Failure('MoleculeResolver.resolve', clause, 'step %d of %s (legacy=%s)%s: %s' % (
                        step, gr.full_string(case), case['legacy'], via, detail), classify(case, clause, step)))
        except Exception as e:      # noqa
            if not case.get('valid'):
                return Outcome(key, False, [], skipped=True, note='%s: %s' % (type(e).__name__, e))
            fails.append(Failure('MoleculeResolver.resolve', 'exception', 'step %d of %s%s: %s: %s' % (
                step + 1, gr.full_string(case), via, type(e).__name__, str(e)[:300]), 'resolve/exception/%s' % type(e).__name__))
    seen, uniq = set(), []
    for f in fails:
        if (f['signature'], f['kind']) not in seen:
            seen.add((f['signature'], f['kind']))
            uniq.append(f)
    return Outcome(key, nontrivial, uniq)
