"""
C14 -- annotations mean the same however written and reach the graphs unchanged.

Bounded tier, end to end (DESIGN section 6 C14).  A *binding* (which reserved keys are given, with which numeric
spelling, which free keys) is written in every documented form (all keyword orders; the reserved keys positional
as far as Python-call rules allow) and the result is compared with the meaning of the binding, which the generator
knows because it made the binding -- it never parses the text it wrote.  Five kinds of cases:

  base-read      read_cgsmiles on a base graph: the annotated node has charge / weight as floats with the written
                 value or the documented defaults 0.0 / 1.0, free keys as the verbatim text; its neighbours have the
                 defaults and none of the free keys.
  base-resolve   the same strings with atomistic fragments, through MoleculeResolver.from_string(..).resolve():
                 every node of the RETURNED COARSE graph carries the attributes of its own annotation (several
                 nodes with the same fragment name and different annotations, 1..4 of them).
  frag-atom      an atom of an atomistic fragment annotated with weight (w, float, default 1), chirality (x=R/S ->
                 'chiral') and free keys, positional (`[N;0.5;S]`) or keyword in any order: every copy of that atom
                 in the fine graph (one per base-graph node that uses the fragment, 1..3 uses) carries them.  The atom is
                 found without the resolver's bookkeeping: it is the only atom of its element among the atoms whose
                 `fragid` names that base-graph node (for the explicit hydrogen `[H;0.125]`: the only hydrogen of that copy with
                 that weight).  The atom sits at different places of the fragment text (before / after a bonding
                 descriptor, before a ring digit, in a branch, with hydrogens and a charge inside the bracket).
  frag-coarse    the same for a node of a coarse fragment (last_all_atom=False), found by `atomname`; keyword forms
                 only (see below).
  three-level    annotations on coarse-fragment nodes are still on those nodes when they are the coarse graph
                 returned by the second resolve step.

Added families (same five kinds, same checks):
  * ONE-ATOM fragments (SINGLE_ATOM_TEMPLATES: `[$][N..][$]`, `[N..][$][$]`, `[$][O..][$]`, `[$][N..]`, `[$][N..][$][$]`,
    `[$][NH..][$]`, `[O-..][$]`, and the lone explicit hydrogen `[$][H;0.125]`): the reader of atomistic fragments takes a
    path of its own for a fragment that is a single atom; weight, chirality and free keys must reach every copy as for
    any other atom.
  * free keys with UPPER-CASE letters (FREE_UC: `pKa`, `resName`, `Tg`, mixed with the lower-case `mass`) at every level
    (base-graph node read / on the returned coarse graph, coarse-fragment node, coarse-fragment node one level on,
    atomistic-fragment atom, explicit hydrogen): "other keys are kept verbatim", so `pKa` must come back as `pKa`; the
    case-folded spellings (`pka`, `PKA`, ...) count as stray keys.  No key is a case variant of a reserved key.

What the statement demands at the coarse-fragment level -- scope decisions:
  * The docs (Annotations, table "Reserved Annotation Symbols") say the coarse dialect (q -> charge, w -> weight)
    is "used for the coarse resolution fragments / graphs".  So `[#X;q=1]` inside a coarse fragment must give
    charge 1.0 ("reserved numeric keys are numbers").  The code parses these nodes with the atomistic dialect:
    'q' stays the text '1' next to charge 0.0.  This is defect F13; it is inside the statement and gets the narrow
    signature `resolve/coarse-fragment-node/q-keyword-not-charge`.
  * POSITIONAL values on coarse-fragment nodes are not generated: the docs make the first positional the charge,
    the repo's own test (`[$][#TC4][#OT1;0.5][#CD1][$]` -> weight 0.5) makes it the weight.  Contested, so left out.
  * `x=` on a coarse-fragment node: 'x' is reserved for atomic resolution only; whether it is a free key ('x') or the
    chirality ('chiral') on a coarse node is open, the check accepts the value under either key.
  * 'q' is not used as a free key of atomistic atoms (today it is kept verbatim, as the table implies).
  * A positional value after a keyword entry, repeated keys, empty entries: not generated (not documented).
  * Non-bracket atoms get weight 1 as an int; the check asks for a number equal to 1, not for a float.
  * Nothing is demanded of the hydrogens that the resolver adds, nor of base-graph annotations on the FINE graph.

Signatures:  <api>/<level>/<kind>  with kind in exception-<Type>, wrong-value, wrong-type, missing-key, stray-key,
atom-not-found; plus the F13 signature above (only for a `q=` keyword on a coarse-fragment node, and only when the
failing keys are 'charge' / 'q').
"""
import itertools
import logging
import random

from vf.bounded import Outcome, Failure

ID = 'C14'
LEVEL = 'exploration'
P_TARGETS = []
BUDGET = {'quick': 30.0, 'thorough': 300.0}
CHUNK = 100
COARSE_Q_FAMILY = True      # generate `q=` on coarse-fragment nodes (known finding F13)

# spelled value -> the number it denotes (written by hand, not computed with float())
CHARGES = [('1', 1.0), ('+1', 1.0), ('-0.25', -0.25), ('1e-1', 0.1), ('0', 0.0), ('-1', -1.0), ('2.5', 2.5)]
WEIGHTS = [('0.5', 0.5), ('2', 2.0), ('1e-1', 0.1), ('+1', 1.0), ('36', 36.0), ('0.125', 0.125), ('0', 0.0)]   # 0: falsy, but a weight like any other
FREE = [('mass', '72'), ('r', 'abc'), ('p', '+1'), ('k', '1e-1')]
FREE_KEYS = [k for k, _ in FREE]
# free keys with upper-case letters ("other keys are kept verbatim": `pKa` must not come back as `pka`), mixed with one
# lower-case key; only subsets with at least one upper-case key are generated from this pool (the others exist already).
# No key is a case variant of a reserved key (whether `Q=1` is the charge is not documented).
FREE_UC = [('pKa', '4.5'), ('resName', 'ALA'), ('Tg', '373K'), ('mass', '72')]
UC_KEYS = [k for k, _ in FREE_UC if k != k.lower()]
# keys that must not appear on a node unless written: the free keys of both pools and the case-folded spellings
STRAY_KEYS = FREE_KEYS + UC_KEYS + [k.lower() for k in UC_KEYS] + [k.upper() for k in UC_KEYS]

BOUNDS = {
    'quick': {'charge_spellings': [c for c, _ in CHARGES], 'weight_spellings': [w for w, _ in WEIGHTS],
              'free_keys': FREE, 'free_key_subsets': 'all subsets of size <= 2', 'keyword_orders': 'all permutations',
              'positional_forms': 'q; q,w; 0,w (base) / w; w,x; 1,x (atomistic)',
              'base_node_positions': 4, 'fragment_reuse_counts': [1, 2, 3], 'fragment_atom_placements': 7,
              'base_resolve_nodes': '1..4 nodes of the same fragment with different annotations',
              'one_atom_fragments': '7 templates + 2 lone-hydrogen templates, every second written form',
              'upper_case_free_keys': 'FREE_UC subsets of size <= 2 with at least one upper-case key; every 2nd..5th written form per level'},
    'thorough': {'charge_spellings': [c for c, _ in CHARGES], 'weight_spellings': [w for w, _ in WEIGHTS],
                 'free_keys': FREE, 'free_key_subsets': 'all subsets of size <= 3', 'keyword_orders': 'all permutations',
                 'positional_forms': 'q; q,w; 0,w (base) / w; w,x; 1,x (atomistic)',
                 'base_node_positions': 4, 'fragment_reuse_counts': [1, 2, 3, 4], 'fragment_atom_placements': 7,
                 'base_resolve_nodes': '1..4 nodes of the same fragment with different annotations',
                 'random_mixed_cases': 20000,
                 'one_atom_fragments': '7 templates + 2 lone-hydrogen templates, every written form',
                 'upper_case_free_keys': 'FREE_UC subsets of size <= 3 (coarse: 2) with at least one upper-case key, every written form; 5000 random mixed cases'},
}
EXHAUSTIVE = {'quick': False, 'thorough': False}
RULE = ('bindings = (charge spelling or none) x (weight spelling or none) x (subset of free keys) for base-graph nodes, '
        '(weight or none) x (R, S or none) x (subset of free keys) for fragment atoms; every binding is written with every '
        'order of its keyword entries and with every documented positional prefix; the annotated node is placed at several '
        'positions of the base graph / the fragment text; fragments are used 1..3(4) times.  A case is non-trivial when the '
        'annotation has at least two entries or a positional value (so that order / binding matters) or the fragment is '
        'used more than once; distinct = distinct complete string (+ resolver options).  The same enumeration is repeated with '
        'one-atom fragment templates and with the free-key pool FREE_UC (subsets with at least one upper-case key).')
ASSUMPTIONS = [
    'the tables CHARGES / WEIGHTS pair each spelling with the number it denotes (written by hand)',
    'an atom of a fragment copy can be identified by fragid (base-graph node key) + element (unique in the fragment) or atomname',
    'pysmiles reads the bracket atoms used in the fragment templates ([N], [NH3+], [H]) as the element written',
]


def init_worker():
    logging.getLogger('pysmiles').setLevel(logging.ERROR)


# --------------------------------------------------------------------------------------------------------
# bindings and their written forms
# --------------------------------------------------------------------------------------------------------
def _subsets(items, max_size, need=None):
    """need: only subsets that contain at least one of these keys"""
    for r in range(0, max_size + 1):
        for sub in itertools.combinations(items, r):
            if need is None or any(k in need for k, _ in sub):
                yield sub


def base_forms(q, w, free, max_perm=24):
    """q, w: (spelling, value) or None; free: tuple of (key, text).  Yields (annotation text, uses_positional)."""
    kw = []
    if q:
        kw.append('q=' + q[0])
    if w:
        kw.append('w=' + w[0])
    kw += ['%s=%s' % kv for kv in free]
    if not kw:
        yield '', False
        return
    for perm in itertools.islice(itertools.permutations(kw), max_perm):
        yield ';' + ';'.join(perm), False
    rest_free = ['%s=%s' % kv for kv in free]
    if q:
        rest = (['w=' + w[0]] if w else []) + rest_free
        for perm in itertools.islice(itertools.permutations(rest), max_perm):
            yield ';' + ';'.join([q[0]] + list(perm)), True
    if w:
        first = q[0] if q else '0'          # docs: [#A;0;0.5]
        for perm in itertools.islice(itertools.permutations(rest_free), max_perm):
            yield ';' + ';'.join([first, w[0]] + list(perm)), True


def base_expected(name, q, w, free):
    exp = {'fragname': name, 'charge': q[1] if q else 0.0, 'weight': w[1] if w else 1.0}
    exp.update(dict(free))
    return exp


def atom_forms(w, x, free, positional=True, max_perm=24):
    """atomistic dialect: w (weight), x (chirality).  Yields (annotation text, uses_positional)."""
    kw = []
    if w:
        kw.append('w=' + w[0])
    if x:
        kw.append('x=' + x)
    kw += ['%s=%s' % kv for kv in free]
    if not kw:
        yield '', False
        return
    for perm in itertools.islice(itertools.permutations(kw), max_perm):
        yield ';' + ';'.join(perm), False
    if not positional:
        return
    rest_free = ['%s=%s' % kv for kv in free]
    if w:
        rest = (['x=' + x] if x else []) + rest_free
        for perm in itertools.islice(itertools.permutations(rest), max_perm):
            yield ';' + ';'.join([w[0]] + list(perm)), True
    if x:
        first = w[0] if w else '1'          # docs: C[C;1;S]C(=O)ON
        for perm in itertools.islice(itertools.permutations(rest_free), max_perm):
            yield ';' + ';'.join([first, x] + list(perm)), True


def atom_expected(w, x, free):
    exp = {'weight': w[1] if w else 1.0}
    if x:
        exp['chiral'] = x
    exp.update(dict(free))
    return exp


# --------------------------------------------------------------------------------------------------------
# templates
# --------------------------------------------------------------------------------------------------------
# base graphs: {ann} marks the annotated node A (index given), the other nodes take the defaults
BASE_TEMPLATES = [
    ('{{[#A{ann}][#B]}}', 0, ['A', 'B']),
    ('{{[#B][#A{ann}]}}', 1, ['B', 'A']),
    ('{{[#B]=[#A{ann}]1([#C])[#B].[#C]1}}', 1, ['B', 'A', 'C', 'B', 'C']),
    ('{{[#A{ann}]|2[#B]}}', 0, ['A', 'A', 'B']),     # both copies are annotated
    # multiplied branches: every copy of the anchor / of a node inside the branch is the annotated node written once
    ('{{[#A{ann}]([#B])|2}}', 0, ['A', 'B', 'A', 'B']),
    ('{{[#B]([#A{ann}])|3}}', 1, ['B', 'A', 'B', 'A', 'B', 'A']),
    ('{{[#C][#A{ann}]([#B][#B])|2[#C]}}', 1, ['C', 'A', 'B', 'B', 'A', 'B', 'B', 'C']),
    ('{{[#C]([#A{ann}]|2)|2}}', 1, ['C', 'A', 'A', 'C', 'A', 'A']),
    ('{{[#C]([#B][#A{ann}])|2[#B]}}', 2, ['C', 'B', 'A', 'C', 'B', 'A', 'B']),
]
FRAGS_AT = '{#A=[$]CC[$],#B=[$]CO[$],#C=[$]CN[$]}'

# atomistic fragments with one annotated atom; (text, element of the annotated atom, explicit-H flag)
ATOM_TEMPLATES = [
    ('[$]C[N{ann}]O[$]', 'N'),
    ('[N{ann}][$]CO[$]', 'N'),
    ('[$]CO[N{ann}][$]', 'N'),
    ('[$]C1C[N{ann}]1[$]', 'N'),
    ('[$]C([N{ann}])O[$]', 'N'),
    ('[$]CC[NH3+{ann}]', 'N'),
    ('[$]CC(=[O{ann}])[$]', 'O'),
    # an upper-case atom directly followed by an aromatic atom whose letters spell another element (Sc): two atoms
    ('[$]CSc1ccc(cc1)[N{ann}][$]', 'N'),
    ('Sc1ccc(cc1)C[O{ann}][$]', 'O'),
]
# fragments that are ONE atom (the reader of atomistic fragments returns early for them); (text, element, largest reuse
# count whose base graph the descriptors can serve).  A bracket atom without hydrogens is a one-node graph from the
# start; `[NH..]` becomes one after the hydrogens are folded in.
SINGLE_ATOM_TEMPLATES = [
    ('[$][N{ann}][$]', 'N', 4),
    ('[N{ann}][$][$]', 'N', 4),
    ('[$][O{ann}][$]', 'O', 4),
    ('[$][N{ann}]', 'N', 2),
    ('[$][N{ann}][$][$]', 'N', 4),
    ('[$][NH{ann}][$]', 'N', 4),
    ('[O-{ann}][$]', 'O', 2),
]
SINGLE_H_TEMPLATES = ('[$][H{ann}]', '[H{ann}][$]')
COARSE_TEMPLATES = [
    '[$][#X{ann}][#Y][$]',
    '[#Y][$][#X{ann}][$]',
    '[$][#Y]([#X{ann}])[#Z][$]',
    '[$][#X{ann}]1[#Y][#Z]1[$]',
]


def _base_uses(r):
    """base graph with r nodes F (and one G in between when r > 1)"""
    if r == 1:
        return '{[#F]}', [0]
    if r == 2:
        return '{[#F][#G][#F]}', [0, 2]
    if r == 3:
        return '{[#F]([#F])[#G][#F]}', [0, 1, 3]
    return '{[#F]|2[#G]([#F])[#F]}', [0, 1, 3, 4]


# --------------------------------------------------------------------------------------------------------
# case generation
# --------------------------------------------------------------------------------------------------------
def _base_bindings(max_free, pool=FREE, need=None):
    for q in [None] + CHARGES:
        for w in [None] + WEIGHTS:
            for free in _subsets(pool, max_free, need):
                yield q, w, free


def gen_base_read(max_free, templates, thin=1, pool=FREE, need=None):
    n = 0
    for q, w, free in _base_bindings(max_free, pool, need):
        for ann, positional in base_forms(q, w, free):
            n += 1
            if n % thin:
                continue
            entries = (1 if q else 0) + (1 if w else 0) + len(free)
            for t, (tmpl, idx, names) in enumerate(templates):
                if t > 0 and n % 4 != (t - 1) % 4:      # the other placements for a quarter of the forms each
                    continue
                exp = []
                for i, nm in enumerate(names):
                    if nm == 'A':
                        exp.append(base_expected('A', q, w, free))
                    else:
                        exp.append(base_expected(nm, None, None, ()))
                yield {'kind': 'base-read', 'text': tmpl.format(ann=ann), 'expected': exp,
                       'nontrivial': entries >= 2 or positional}


def gen_base_resolve(rng, count, pool=FREE):
    """1..4 nodes of the same fragment with independent annotations; resolve; look at the returned coarse graph"""
    for _ in range(count):
        r = rng.randint(1, 4)
        exp = []
        toks = []
        for i in range(r):
            q = rng.choice([None] + CHARGES)
            w = rng.choice([None] + WEIGHTS)
            free = tuple(rng.sample(pool, rng.randint(0, 2)))
            forms = list(base_forms(q, w, free))
            ann, positional = rng.choice(forms)
            exp.append(base_expected('A', q, w, free))
            toks.append('[#A%s]' % ann)
        sep = rng.choice(['', '', '=', '.'])
        text = '{' + toks[0] + ''.join((sep if i == 1 else '') + t for i, t in enumerate(toks[1:], 1)) + '}.' + FRAGS_AT
        yield {'kind': 'base-resolve', 'text': text, 'expected': exp, 'nontrivial': True}


def gen_frag_atom(max_free, reuse, thin=1, pool=FREE, need=None, templates=None):
    """templates: default ATOM_TEMPLATES; SINGLE_ATOM_TEMPLATES entries carry the largest usable reuse count"""
    templates = templates or ATOM_TEMPLATES
    n = 0
    for w in [None] + WEIGHTS:
        for x in [None, 'R', 'S']:
            for free in _subsets(pool, max_free, need):
                for ann, positional in atom_forms(w, x, free):
                    n += 1
                    if n % thin:
                        continue
                    entries = (1 if w else 0) + (1 if x else 0) + len(free)
                    tmpl, element = templates[n % len(templates)][:2]
                    r = reuse[n % len(reuse)]
                    if len(templates[n % len(templates)]) > 2:
                        r = min(r, templates[n % len(templates)][2])
                    base, uses = _base_uses(r)
                    text = '%s.{#F=%s,#G=[$]CC[$]}' % (base, tmpl.format(ann=ann))
                    yield {'kind': 'frag-atom', 'text': text, 'element': element, 'uses': uses,
                           'expected': atom_expected(w, x, free), 'nontrivial': entries >= 2 or positional or r > 1}


def gen_frag_hydrogen(reuse, pool=FREE, need=None, templates=('[$]C([H{ann}])[$]', '[H{ann}]C([$])[$]', '[$]N([H{ann}])C[$]')):
    for w in WEIGHTS:
        if w[1] == 1.0:
            continue
        for free in _subsets(pool, 1, need):
            for ann, positional in atom_forms(w, None, free):
                for r in reuse:
                    base, uses = _base_uses(r)
                    for tmpl in templates:
                        text = '%s.{#F=%s,#G=[$]CC[$]}' % (base, tmpl.format(ann=ann))
                        yield {'kind': 'frag-hydrogen', 'text': text, 'uses': uses,
                               'expected': atom_expected(w, None, free), 'nontrivial': True}


def gen_frag_coarse(max_free, reuse, thin=1, pool=FREE, need=None):
    n = 0
    for w in [None] + WEIGHTS:
        for x in [None, 'R']:
            for q in ([None] + CHARGES[:3] if COARSE_Q_FAMILY else [None]):
                for free in _subsets(pool, max_free, need):
                    forms = list(atom_forms(w, x, free, positional=False))
                    if q:
                        # q= as one more keyword entry, first / last
                        forms = [(a + ';q=' + q[0], p) for a, p in forms[:3]] + [(';q=' + q[0] + a, p) for a, p in forms[:3]]
                    for ann, positional in forms:
                        n += 1
                        if n % thin:
                            continue
                        tmpl = COARSE_TEMPLATES[n % len(COARSE_TEMPLATES)]
                        r = reuse[n % len(reuse)]
                        base, uses = _base_uses(r)
                        text = '%s.{#F=%s,#G=[$][#Y][$]}' % (base, tmpl.format(ann=ann))
                        exp = {'weight': w[1] if w else 1.0, 'charge': q[1] if q else 0.0}
                        exp.update(dict(free))
                        yield {'kind': 'frag-coarse', 'text': text, 'uses': uses, 'expected': exp,
                               'chiral': x, 'has_q': bool(q),
                               'nontrivial': (1 if w else 0) + (1 if x else 0) + (1 if q else 0) + len(free) >= 2 or r > 1}


def gen_three_level(pool=FREE, need=None):
    for w in [None] + WEIGHTS[:3]:
        for free in _subsets(pool, 2, need):
            for ann, _ in itertools.islice(atom_forms(w, None, free, positional=False), 6):
                text = '{[#P][#P]}.{#P=[$][#X%s][#Y][$]}.{#X=[$]CC[$],#Y=[$]CO[$]}' % ann
                exp = {'weight': w[1] if w else 1.0}
                exp.update(dict(free))
                yield {'kind': 'three-level', 'text': text, 'expected': exp, 'nontrivial': True}


def cases(tier, seed):
    rng = random.Random(seed * 7368787 + 14)
    rng2 = random.Random(seed * 7368787 + 15)
    uc = set(UC_KEYS)
    if tier == 'quick':
        yield from gen_frag_coarse(1, [1, 2, 3])
        yield from gen_three_level()
        # one-atom fragments; free keys with upper-case letters at every level (early: cheap and discriminating)
        yield from gen_frag_atom(2, [1, 2, 3], templates=SINGLE_ATOM_TEMPLATES, thin=2)
        yield from gen_frag_atom(2, [1, 2, 3], pool=FREE_UC, need=uc, templates=SINGLE_ATOM_TEMPLATES, thin=4)
        yield from gen_frag_hydrogen([1, 2], templates=SINGLE_H_TEMPLATES)
        yield from gen_frag_coarse(2, [1, 2, 3], pool=FREE_UC, need=uc, thin=5)
        yield from gen_three_level(pool=FREE_UC, need=uc)
        yield from gen_frag_atom(2, [1, 2, 3], pool=FREE_UC, need=uc, thin=4)
        yield from gen_frag_hydrogen([1, 2], pool=FREE_UC, need=uc)
        yield from gen_frag_atom(2, [1, 2, 3], thin=2)
        yield from gen_frag_hydrogen([1, 2])
        yield from gen_base_resolve(rng, 1500)
        yield from gen_base_resolve(rng2, 300, pool=FREE_UC)
        yield from gen_base_read(2, BASE_TEMPLATES)
        yield from gen_base_read(2, BASE_TEMPLATES, pool=FREE_UC, need=uc, thin=4)
    else:
        yield from gen_frag_coarse(2, [1, 2, 3, 4])
        yield from gen_three_level()
        yield from gen_frag_atom(3, [1, 2, 3, 4], templates=SINGLE_ATOM_TEMPLATES)
        yield from gen_frag_atom(3, [1, 2, 3, 4], pool=FREE_UC, need=uc, templates=SINGLE_ATOM_TEMPLATES)
        yield from gen_frag_hydrogen([1, 2], templates=SINGLE_H_TEMPLATES)
        yield from gen_frag_coarse(2, [1, 2, 3, 4], pool=FREE_UC, need=uc)
        yield from gen_three_level(pool=FREE_UC, need=uc)
        yield from gen_frag_atom(3, [1, 2, 3, 4], pool=FREE_UC, need=uc)
        yield from gen_frag_hydrogen([1, 2, 3], pool=FREE_UC, need=uc)
        yield from gen_frag_atom(3, [1, 2, 3, 4])
        yield from gen_frag_hydrogen([1, 2, 3])
        yield from gen_base_resolve(rng, 20000)
        yield from gen_base_resolve(rng2, 5000, pool=FREE_UC)
        yield from gen_base_read(3, BASE_TEMPLATES)
        yield from gen_base_read(3, BASE_TEMPLATES, pool=FREE_UC, need=uc)


# --------------------------------------------------------------------------------------------------------
# checking
# --------------------------------------------------------------------------------------------------------
def _is_number(v):
    return isinstance(v, (int, float)) and not isinstance(v, bool)


def diff_attrs(where, exp, got, numeric_float=True, free_keys=STRAY_KEYS, skip=()):
    """[(kind, key, detail)] for the expected attributes `exp` against the observed dict `got`"""
    out = []
    for k, v in exp.items():
        if k in skip:
            continue
        if k not in got:
            out.append(('missing-key', k, '%s: %s missing (expected %r)' % (where, k, v)))
        elif isinstance(v, float):
            if not _is_number(got[k]) or (numeric_float and not isinstance(got[k], float)):
                out.append(('wrong-type', k, '%s: %s=%r is not a number' % (where, k, got[k])))
            elif got[k] != v:
                out.append(('wrong-value', k, '%s: %s=%r, expected %r' % (where, k, got[k], v)))
        elif got[k] != v or type(got[k]) is not type(v):
            out.append(('wrong-value', k, '%s: %s=%r, expected %r' % (where, k, got[k], v)))
    for k in free_keys:
        if k not in exp and k in got:
            out.append(('stray-key', k, '%s: unexpected %s=%r' % (where, k, got[k])))
    return out


def _fail(api, level, kind, detail, case, signature=None):
    return Failure(api, kind, '%s  [%s]' % (detail, case['text']), signature or '%s/%s/%s' % (api, level, kind))


def check_case(case):
    import cgsmiles
    from cgsmiles.resolve import MoleculeResolver
    kind = case['kind']
    text = case['text']
    key = kind + ' ' + text
    nontrivial = case.get('nontrivial', True)
    fails = []
    if kind == 'base-read':
        try:
            g = cgsmiles.read_cgsmiles(text)
        except Exception as e:
            return Outcome(key, nontrivial, [_fail('read_cgsmiles', 'base-node', 'exception-' + type(e).__name__, repr(e), case)])
        exp = case['expected']
        if sorted(g.nodes) != list(range(len(exp))):
            return Outcome(key, nontrivial, [_fail('read_cgsmiles', 'base-node', 'wrong-value', 'node keys %r' % list(g.nodes), case)])
        for i, e in enumerate(exp):
            for k, _, d in diff_attrs('node %d' % i, e, g.nodes[i]):
                fails.append(_fail('read_cgsmiles', 'base-node', k, d, case))
        return Outcome(key, nontrivial, fails[:3])

    all_atom = kind not in ('frag-coarse',)
    try:
        resolver = MoleculeResolver.from_string(text, last_all_atom=all_atom)
        coarse, fine = resolver.resolve()
        if kind == 'three-level':
            coarse2, fine2 = resolver.resolve()
    except Exception as e:
        level = {'base-resolve': 'base-node-on-coarse-graph', 'frag-atom': 'atomistic-fragment-atom',
                 'frag-hydrogen': 'atomistic-fragment-atom', 'frag-coarse': 'coarse-fragment-node',
                 'three-level': 'coarse-fragment-node-next-level'}[kind]
        return Outcome(key, nontrivial, [_fail('resolve', level, 'exception-' + type(e).__name__, repr(e), case)])

    if kind == 'base-resolve':
        exp = case['expected']
        if sorted(coarse.nodes) != list(range(len(exp))):
            return Outcome(key, nontrivial, [_fail('resolve', 'base-node-on-coarse-graph', 'wrong-value',
                                                   'coarse node keys %r' % list(coarse.nodes), case)])
        for i, e in enumerate(exp):
            for k, _, d in diff_attrs('coarse node %d' % i, e, coarse.nodes[i]):
                fails.append(_fail('resolve', 'base-node-on-coarse-graph', k, d, case))
        return Outcome(key, nontrivial, fails[:3])

    if kind in ('frag-atom', 'frag-hydrogen'):
        exp = case['expected']
        for use in case['uses']:
            members = [n for n, d in fine.nodes(data=True) if use in (d.get('fragid') or [])]
            if kind == 'frag-atom':
                cands = [n for n in members if fine.nodes[n].get('element') == case['element']]
            else:
                cands = [n for n in members if fine.nodes[n].get('element') == 'H' and fine.nodes[n].get('weight') == exp['weight']]
            if len(cands) != 1:
                fails.append(_fail('resolve', 'atomistic-fragment-atom', 'atom-not-found',
                                   'copy for base node %d: %d candidate atoms among %d' % (use, len(cands), len(members)), case))
                continue
            for k, _, d in diff_attrs('copy for base node %d, atom %r' % (use, cands[0]), exp, fine.nodes[cands[0]],
                                      numeric_float=False):
                fails.append(_fail('resolve', 'atomistic-fragment-atom', k, d, case))
        return Outcome(key, nontrivial, fails[:3])

    if kind == 'frag-coarse':
        exp = case['expected']
        f13_only = True
        for use in case['uses']:
            cands = [n for n, d in fine.nodes(data=True) if use in (d.get('fragid') or []) and d.get('atomname') == 'X']
            if len(cands) != 1:
                fails.append(_fail('resolve', 'coarse-fragment-node', 'atom-not-found',
                                   'copy for base node %d: %d nodes named X' % (use, len(cands)), case))
                f13_only = False
                continue
            got = fine.nodes[cands[0]]
            for k, attr, d in diff_attrs('copy for base node %d, node %r' % (use, cands[0]), exp, got, numeric_float=False):
                if attr == 'charge' and case.get('has_q'):
                    fails.append(_fail('resolve', 'coarse-fragment-node', k, d + ' (q kept as %r)' % (got.get('q'),), case,
                                       signature='resolve/coarse-fragment-node/q-keyword-not-charge'))
                else:
                    f13_only = False
                    fails.append(_fail('resolve', 'coarse-fragment-node', k, d, case))
            if case.get('chiral') and got.get('chiral') != case['chiral'] and got.get('x') != case['chiral']:
                f13_only = False
                fails.append(_fail('resolve', 'coarse-fragment-node', 'missing-key',
                                   'x=%s found neither under chiral nor under x' % case['chiral'], case))
        return Outcome(key, nontrivial, fails[:3])

    if kind == 'three-level':
        exp = case['expected']
        xs = [n for n, d in coarse2.nodes(data=True) if d.get('fragname') == 'X']
        if len(xs) != 2:
            return Outcome(key, nontrivial, [_fail('resolve', 'coarse-fragment-node-next-level', 'atom-not-found',
                                                   '%d nodes X in the coarse graph of step 2' % len(xs), case)])
        for n in xs:
            for k, _, d in diff_attrs('step-2 coarse node %r' % n, exp, coarse2.nodes[n], numeric_float=False):
                fails.append(_fail('resolve', 'coarse-fragment-node-next-level', k, d, case))
        for n, d in coarse2.nodes(data=True):
            if d.get('fragname') == 'Y':
                for k, _, dd in diff_attrs('step-2 coarse node %r' % n, {'weight': 1.0}, d, numeric_float=False):
                    fails.append(_fail('resolve', 'coarse-fragment-node-next-level', k, dd, case))
        return Outcome(key, nontrivial, fails[:3])
    return Outcome(key, False, [], skipped=True, note='unknown case kind')
