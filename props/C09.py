"""
C09 - every atom of an atomistic result has a complete, standard valence (resolver half; the sampler half lives in
the sampler builder's module and imports specs.valence.check_valence).

Bounded tier (DESIGN 6, C09 clause B).  Run-time postcondition on every all-atom MoleculeResolver.resolve() result:

    specs.valence.check_valence(fine) == []      i.e.
    * every non-hydrogen atom whose bonds to non-hydrogen atoms fit a usual valence of its element and formal charge
      (independent table, aromatic bonds counted as stated in specs/valence.py) has exactly the hydrogens missing to
      the smallest such valence - unused descriptors are thereby filled with hydrogen, nothing is over-filled;
    * every hydrogen has exactly one neighbour (order 1) and carries that neighbour's fragid, fragname and weight -
      except hydrogens that were written explicitly with attributes of their own: a one-hydrogen fragment `[$][H]` keeps
      its own membership (one fine node per such coarse node, element H), an annotated `[H;w]` keeps its weight;
    * explicitly written hydrogens are kept: they count towards the valence, they are neither lost nor doubled.

Inputs (no reference molecule is needed, the invariant is per atom):
  family 'cut'   C01 / C10 style descriptions from G2 (all partitions of every molecule <= 3 heavy atoms over the full
                 alphabet, library molecules incl. aromatic rings split across fragments and charged centres, some cuts
                 replaced by shared atoms);
  family 'poly'  monomer x topology x end group: homopolymer chains with surplus end descriptors, with terminal groups,
                 rings of identical units, grafts / branches with surplus descriptors, two units joined by a double edge,
                 block copolymers; unlabelled `$` and `>`/`<` so that matching is ambiguous on purpose; charged and aromatic
                 monomers, monomers bonded through double-bond descriptors;
  family 'hexp'  explicit hydrogens: `[$][H]` end groups, `[H]` written inside a fragment, weighted `[H;0.2]`, weighted
                 heavy atoms, weight 0 (`[C;0]`, `[C;w=0]`, `[H;0]`: falsy but a weight like any other); chains
                 cap - first - second in which the explicit hydrogen is stored before atoms that are bonded through a
                 descriptor of order 2 / 3 or shared with `!` (hfirst_cases), in both listing orders.

Scope decisions: a string that does not resolve (exception) is outside the statement ("all resolvable strings") and is
SKIPPED here - C01 / C10 decide whether it should have resolved.  One-hydrogen end groups are only combined with monomers
whose descriptors they can pair with at every position the topology puts them: a base-graph edge without a compatible
descriptor pair is silently ignored by the resolver and would leave a free hydrogen atom (that is C03's subject).  Atoms whose heavy-bond sum exceeds every usual valence
are not checked.  Strings are built without consecutive closing braces in the base graph and with `|n` only directly in
front of `[`, `)` or `}` (C04 / C05 subjects).
"""
import logging
import random

from vf.bounded import Outcome, Failure
from gen import g2_molecules as g2
from specs.valence import check_valence
from props import C01 as base

ID = 'C09'
LEVEL = 'other'
P_TARGETS = ['cgsmiles.pysmiles_utils:rebuild_h_atoms',
             'cgsmiles.pysmiles_utils:compute_mass',
             'cgsmiles.sample:MoleculeSampler.__init__']      # its contract carries "self.all_atom == all_atom" into sample()
BUDGET = {'quick': 30.0, 'thorough': 300.0}
CHUNK = 50
BOUNDS = {
    'quick': {'cut': 'every partition of every molecule <= 3 heavy atoms over C N O S P F Cl Br [N+] [O-] [S-] and of every molecule with 4 heavy atoms over C N O (1 rendering); 43 library '
                     'molecules x 8 seeded partitions x {disjoint, 1-3 cuts shared}',
              'poly': '27 monomers (3 with a weight-0 atom) x 14 topologies (1-6 units) x 6 end groups where the topology has ends',
              'hexp': '23 hand-written explicit-hydrogen descriptions (9 with weight 0) x 3 topologies; explicit hydrogen first: '
                      '{5+2 capped, 5+2 with [H] inside} first fragments x {5 double-, 3 triple-bonded} second fragments x 2-3 listing '
                      'orders, 5 first x 5 second fragments joined by `!` x 2 orders (205 strings)'},
    'thorough': {'cut': 'as quick with <= 4 heavy atoms over C N O Cl [N+] [O-], 30 partitions per library molecule, 3 renderings',
                 'poly': 'as quick plus every ordered pair of monomers in the block / alternating topologies',
                 'hexp': 'as quick'},
}
EXHAUSTIVE = {'quick': False, 'thorough': False}
RULE = ('see module docstring; the poly and hexp families are fixed lists (independent of the seed), renderings and library partitions '
        'are seeded.  Non-trivial: the description contains at least one bonding descriptor (consumed or left over) so that hydrogens '
        'have to be recomputed from connectivity.  distinct = distinct CGsmiles text')
ASSUMPTIONS = base.ASSUMPTIONS[:1] + [
    'fragment-name attribute `fragname` of a one-hydrogen fragment is used to recognise the explicitly written hydrogen atoms; the '
    'number of such atoms and their coarse-node graphs are checked by construction',
]

MONOMERS = [
    '[$]COC[$]', '[$]CC[$]', '[>]CC[<]', '[$]CC[$]c1ccccc1', '[>]CC[<]c1ccccc1', '[>]CC[<]C(=O)OC', '[>]CC[<]C(=O)[O-]',
    '[>]CC[<][NH3+]', '[>]CC[<]c1ccncc1', '[$]CC[$][$]', '[>]=CC=[<]', '[$]=CC=[$]', '[$]cc[$]', '[$]c1ccc(cc1)[$]',
    '[$]c1cccc(n1)[$]', '[$]CSC[$]', '[$]CP(C)C[$]', '[$]C(F)(F)C(F)(F)[$]', '[$]CC(Cl)[$]', '[$]C[N+](C)(C)C[$]',
    '[<]CC[>]Br', '[$]C#CC[$]', '[$]N=C[$]', '[>]C[<][>]',
    '[<][C;0]OC[>]', '[$][C;w=0]C[$]', '[>][C;0][<]c1ccccc1',      # weight 0 on atoms that receive rebuilt hydrogens
]
ENDS = ['[$]O', '[<]O', '[>]C', '[$][O-]', '[$]C(=O)[O-]', '[$]Cl']
# topologies: M = monomer, N = second monomer (same as M unless stated), T = end group
TOPOLOGIES = [
    ('{[#M]}', False), ('{[#M]|2}', False), ('{[#M]|3}', False), ('{[#M]|5}', False),
    ('{[#T][#M]|2[#T]}', True), ('{[#T][#M]|3}', True), ('{[#M]|2[#T]}', True),
    ('{[#M]1[#M][#M]1}', False), ('{[#M]1[#M]|2[#M]1}', False), ('{[#M]=[#M]}', False),
    ('{[#M]([#M][#T])[#M]([#M])[#M]}', True), ('{[#M]([#M])([#M])[#M]}', False),
    ('{[#M]|2[#N]|2}', False), ('{[#M][#N][#M][#N]}', False),
]
SECOND = {'[$]COC[$]': '[$]CC[$]', '[>]CC[<]': '[>]CC[<]c1ccccc1', '[$]cc[$]': '[$]c1ccc(cc1)[$]', '[$]CC[$]': '[$]CC[$]c1ccccc1'}

# explicit hydrogens: (fragments, {fragment name: is one-hydrogen fragment}, expected H-weight multisets)
HEXP = [
    ('#M=[$]CC[$],#T=[$][H]', ['T'], None),
    ('#M=[$]COC[$],#T=[$][H]', ['T'], None),
    ('#M=[$]CCC[$],#T=[$][H]', ['T'], None),
    ('#M=[$]cc[$],#T=[$][H]', ['T'], None),
    ('#M=[$]C([H])([H])C[$],#T=[$]O', [], None),
    ('#M=[$]C([H])C([H])([H])[$],#T=[$][H]', ['T'], None),
    ('#M=[$]CC[$][NH3+],#T=[$][H]', ['T'], None),
    ('#M=[$]N([H])C[$],#T=[$]C', [], None),
    ('#M=[O;0.5]([H;0.2])C[$]C[$],#T=[$]O', [], {('O', 0.5): [0.2]}),
    ('#M=[$][C;0.5]C[$],#T=[$][OH;0.25]', [], None),
    ('#M=[$][C;0.5]([H;0.1])([H;0.2])C[$],#T=[$][H]', ['T'], {('C', 0.5): [0.1, 0.2]}),
    ('#M=[$]C[N;0.3]([H;0.7])C[$],#T=[$]C', [], {('N', 0.3): [0.7]}),
    ('#M=[$]C[$],#T=[$][H]', ['T'], None),
    ('#M=[$]C=C[$],#T=[$][H]', ['T'], None),
]
# weight 0 (an atom excluded from a weighted centre) written on heavy atoms and on explicit hydrogens, as `;0` and `;w=0`:
# a rebuilt hydrogen inherits the 0, an explicitly weighted hydrogen keeps its own weight next to a parent of weight 0
HEXP += [
    ('#M=[$][C;0]C[$],#T=[$]O', [], None),
    ('#M=[$][C;w=0]C[$],#T=[$][H]', ['T'], None),
    ('#M=[$]C[C;0]([$])C,#T=[$][OH;0]', [], None),
    ('#M=[$][C;0]O[C;0.5][$],#T=[$][H]', ['T'], None),
    ('#M=[$]C[N;0]([H;0.7])C[$],#T=[$]C', [], {('N', 0): [0.7]}),
    ('#M=[$][C;0.5]([H;0])([H;0.2])C[$],#T=[$][H]', ['T'], {('C', 0.5): [0, 0.2]}),
    ('#M=[$][C;0]([H;0])C[$],#T=[$]O', [], {('C', 0): [0]}),
    ('#M=[O;0]([H;0.2])C[$]C[$],#T=[$]O', [], {('O', 0): [0.2]}),
    ('#M=[$][C;w=0]([H;w=0.3])C[$],#T=[$][H]', ['T'], {('C', 0): [0.3]}),
]
HEXP_TOPOLOGIES = ['{[#T][#M]|2[#T]}', '{[#M]1[#M][#M]1}', '{[#T][#M]([#M][#T])[#M]}']


# ---- an explicitly written hydrogen is stored EARLY in the molecule and a later atom is bonded through a descriptor of
# order 2 / 3 or is a shared (`!`) atom: the hydrogen counts of the atoms behind the hydrogen have to be recomputed too.
# Every string below is a chain  cap - first - second  (or first - second); all descriptor pairs are unambiguous.
HFIRST_CAPPED = {2: ['[$]CC=[>]', '[$]OC=[>]', '[$]NC=[>]', '[$]CC(C)=[>]', '[$]C(C)C=[>]'], 3: ['[$]CC#[>]', '[$]OC#[>]']}
HFIRST_INSIDE = {2: [('C([H])([H])C=[>]', None), ('O([H])CC=[>]', None), ('N([H])([H])C=[>]', None),
                     ('[O;0.5]([H;0.2])CC=[>]', {('O', 0.5): [0.2]}), ('C([H])C([H])=[>]', None)],
                 3: [('C([H])([H])C#[>]', None), ('O([H])CC#[>]', None)]}
HSECOND = {2: ['[<]=CC', '[<]=C', '[<]=NC', '[<]=C(C)C', '[<]=CC=O'], 3: ['[<]#CC', '[<]#N', '[<]#C']}
HSQUASH_FIRST = [('#T=[$][H],#A=[$]OC[!]', '{[#T][#A][#B]}', '{[#B][#A][#T]}', ['T']),
                 ('#T=[$][H],#A=[$]CC[!]', '{[#T][#A][#B]}', '{[#B][#A][#T]}', ['T']),
                 ('#T=[$][H],#A=[$]NC(C)[!]', '{[#T][#A][#B]}', '{[#B][#A][#T]}', ['T']),
                 ('#A=O([H])C[!]', '{[#A][#B]}', '{[#B][#A]}', []),
                 ('#A=C([H])([H])C[!]', '{[#A][#B]}', '{[#B][#A]}', [])]
HSQUASH_SECOND = ['[!]C(C)C', '[!]C(=O)C', '[!]C(C)(C)C', '[!]C(C)=C', '[!]CC#N']


def hfirst_cases():
    for k in (2, 3):
        for b in HSECOND[k]:
            for a in HFIRST_CAPPED[k]:
                for topo in ('{[#T][#A][#B]}', '{[#B][#A][#T]}', '{[#A]([#T])[#B]}'):
                    yield {'fam': 'hexp', 'text': topo + '.{#T=[$][H],#A=' + a + ',#B=' + b + '}', 'hfrag': ['T'], 'hweights': []}
            for a, hw in HFIRST_INSIDE[k]:
                for topo in ('{[#A][#B]}', '{[#B][#A]}'):
                    yield {'fam': 'hexp', 'text': topo + '.{#A=' + a + ',#B=' + b + '}', 'hfrag': [],
                           'hweights': [[list(kk), v] for kk, v in (hw or {}).items()]}
    for frags, t1, t2, hn in HSQUASH_FIRST:
        for b in HSQUASH_SECOND:
            for topo in (t1, t2):
                yield {'fam': 'hexp', 'text': topo + '.{' + frags + ',#B=' + b + '}', 'hfrag': hn, 'hweights': []}


# hydrogens written inside a bracket atom of an aromatic ring (`[nH]`): "explicitly written hydrogens are kept" -- every atom
# written `[nH]` must come back as a nitrogen with exactly one hydrogen (uncut, and with the two rings in different fragments)
NH_WRITTEN = [
    ('{[#A]}.{#A=[nH]1cccc1}', 1), ('{[#A]}.{#A=Cc1ccc[nH]1}', 1), ('{[#A]}.{#A=c1c[nH]cn1}', 1),
    ('{[#A]}.{#A=[nH]1cccc1c1ccc[nH]1}', 2), ('{[#A][#B]}.{#A=[$]c1ccc[nH]1,#B=[$]c1ccc[nH]1}', 2),
    ('{[#A][#A]}.{#A=[$]c1ccc[nH]1}', 2), ('{[#M][#A][#B][#M]}.{#A=[$]c1cc([$])c[nH]1,#B=[$]c1cc([$])c[nH]1,#M=[$]C}', 2),
    ('{[#A][#B]}.{#A=CC[$],#B=[$]c1ccc[nH]1}', 1), ('{[#A]}.{#A=O=c1[nH]cccc1C}', 1),
    ('{[#A][#B][#A]}.{#A=[$]c1ccc[nH]1,#B=[$]c1ccc([$])[nH]1}', 3),
]


# sampler half of the statement ("returned by the resolver or the sampler"): all-atom samplers built without a mass table, and three built with one
# (the masses are then computed from the fragments themselves), a few growth histories each
SAMPLER_SETS = [
    ('{#PEO=[>]COC[<]}', {'polymer_reactivities': {'>': 0.5, '<': 0.5}}),
    ('{#PEO=[$]COC[$]}', {'polymer_reactivities': {'$': 1.0}}),
    ('{#PE=[$]CC[$][$]}', {'polymer_reactivities': {'$': 1.0}}),
    ('{#PMA=[>]CC[<]C(=O)OC,#PS=[>]CC[<]c1ccccc1}', {'polymer_reactivities': {'>': 0.5, '<': 0.5}}),
    ('{#A=[>]CC[<],#T=[$]O,#B=[>]C[$]C[<]}', {'polymer_reactivities': {'>': 0.4, '<': 0.4, '$': 0.2}, 'terminal_bonds': ['$']}),
    ('{#PI=[>]CC=C(C)C[<]}', {'polymer_reactivities': {'>': 0.5, '<': 0.5}}),
    ('{#V=[>]=CC=[<]}', {'polymer_reactivities': {'>2': 0.5, '<2': 0.5}}),
    # all-atom samplers WITH a mass table: the table replaces the computed masses, not the hydrogens
    ('{#PEO=[>]COC[<]}', {'polymer_reactivities': {'>': 0.5, '<': 0.5}, 'fragment_masses': {'PEO': 44.05}}),
    ('{#PE=[$]CC[$][$]}', {'polymer_reactivities': {'$': 1.0}, 'fragment_masses': {'PE': 26.0}}),
    ('{#A=[>]CC[<],#T=[$]O,#B=[>]C[$]C[<]}', {'polymer_reactivities': {'>': 0.4, '<': 0.4, '$': 0.2}, 'terminal_bonds': ['$'],
                                             'fragment_masses': {'A': 28.0, 'T': 17.0, 'B': 27.0}}),
]


def sampler_cases(quick):
    for text, kw in SAMPLER_SETS:
        for s in range(1, 4 if quick else 12):
            for target in ((120, 260) if quick else (60, 120, 260, 500)):
                yield {'fam': 'sampler', 'text': text, 'kw': kw, 'seed': s, 'target': target}


def cases(tier, seed):
    rng = random.Random(seed * 499 + 1)
    quick = tier == 'quick'
    yield from hfirst_cases()
    yield from sampler_cases(quick)
    for text, n_nh in NH_WRITTEN:
        yield {'fam': 'hexp', 'text': text, 'hfrag': [], 'hweights': [], 'n_nh': n_nh}
    # ---- explicit hydrogens first (small and the most specific)
    for frags, hnames, hw in HEXP:
        for topo in HEXP_TOPOLOGIES:
            yield {'fam': 'hexp', 'text': topo + '.{' + frags + '}', 'hfrag': hnames,
                   'hweights': [[list(k), v] for k, v in (hw or {}).items()]}
    # ---- polymers
    for m in MONOMERS:
        for topo, has_end in TOPOLOGIES:
            seconds = [SECOND.get(m, m)]
            if not quick and '#N' in topo:
                seconds = [x for x in MONOMERS if x[1] == m[1] or '$' in (x[1], m[1])]
            if '#N' not in topo:
                seconds = [m]
            for n in seconds:
                for t in (ENDS if has_end else [None]):
                    frag = '#M=' + m + (',#N=' + n if '#N' in topo else '') + (',#T=' + t if has_end else '')
                    yield {'fam': 'poly', 'text': topo + '.{' + frag + '}', 'hfrag': [], 'hweights': []}
    # ---- cut molecules
    plan = [(1, g2.ALPHA_FULL), (2, g2.ALPHA_FULL), (3, g2.ALPHA_FULL), (4, g2.ALPHA_CNO)] if quick else \
           [(1, g2.ALPHA_FULL), (2, g2.ALPHA_FULL), (3, g2.ALPHA_FULL), (4, g2.ALPHA_MID)]
    n_part = 8 if quick else 30
    for smi, mol in g2.library():
        prng = random.Random(seed * 53 + sum(map(ord, smi)))
        for part in g2.sampled_partitions(mol, prng, n_part):
            nf = max(part) + 1
            cuts = [bi for bi, (u, v, o) in enumerate(mol['b']) if part[u] != part[v]]
            for variant in (0, 1):
                shares = []
                if variant == 1:
                    if not cuts:
                        continue
                    shares = sorted([bi, prng.randint(0, 1)] for bi in prng.sample(cuts, prng.randint(1, min(3, len(cuts)))))
                r = next(g2.covering_renderings(mol, part, 1, prng))
                r['base'] = list(range(nf))
                yield {'fam': 'cut', 'smiles': smi, 'mol': mol, 'part': part, 'shares': shares, 'r': r}
    for n, alpha in plan:
        for mol in g2.small_molecules(n, alpha):
            if not base._valid(mol):
                continue
            for part in g2.connected_partitions(mol):
                for r in g2.covering_renderings(mol, part, 1 if quick else 3, rng):
                    yield {'fam': 'cut', 'mol': mol, 'part': part, 'shares': [], 'r': r}


def classify(case, text, kind):
    if case['fam'] == 'cut' and base._F2.search(text):
        return 'resolve/descriptor-behind-ring-bond-symbol-and-digit/' + kind
    return 'resolve/%s/%s' % ({'cut': 'cut-molecule', 'poly': 'polymer-with-surplus-descriptors', 'hexp': 'explicit-hydrogens'}[case['fam']], kind)


def init_worker():
    logging.getLogger('pysmiles').setLevel(logging.ERROR)
    import cgsmiles  # noqa: F401


def check_case(case):
    from cgsmiles.resolve import MoleculeResolver
    if case['fam'] == 'sampler':
        from cgsmiles.sample import MoleculeSampler
        text = 'sampler %s %r seed=%d target=%s' % (case['text'], case['kw'], case['seed'], case['target'])
        r = base.quiet(lambda: MoleculeSampler.from_fragment_string(case['text'], all_atom=True, seed=case['seed'], **case['kw']).sample(case['target']))
        if r[0] != 'ok':
            return Outcome(text, False, [], skipped=True, note='growth history dead-ends (%s)' % r[1])
        fails = []
        for kind, node, detail in check_valence(r[1])[:4]:
            fails.append(Failure('MoleculeSampler.sample() -> molecule', kind, '%s -> %s' % (text, detail), 'sample/all-atom/%s' % kind, text=text))
        return Outcome(text, True, fails)
    if case['fam'] == 'cut':
        built = g2.build(case)
        text = g2.describe(built)
        if not base.base_reads_as_intended(built):
            return Outcome(text, False, [], skipped=True, note='base graph not read as intended (C04 subject)')
        r = base._resolve(built)
    else:
        text = case['text']
        r = base.quiet(lambda: MoleculeResolver.from_string(text).resolve())
    if r[0] != 'ok':
        return Outcome(text, False, [], skipped=True, note='does not resolve (%s): outside "all resolvable strings"' % r[1])
    coarse, fine = r[1]
    nontrivial = any(x in text for x in ('[$', '[>', '[<', '[!'))
    api = 'MoleculeResolver.from_string(s).resolve() -> fine graph'
    fails = []

    def fail(kind, detail):
        fails.append(Failure(api, kind, '%s -> %s' % (text, detail), classify(case, text, kind), text=text))

    # explicitly written one-hydrogen fragments: known by construction from the base graph
    hnames = set(case.get('hfrag') or ())
    explicit = set()
    for k, d in coarse.nodes(data=True):
        if d.get('fragname') in hnames:
            gk = d.get('graph')
            nodes = list(gk.nodes) if gk is not None else []
            if len(nodes) != 1 or fine.nodes[nodes[0]].get('element') != 'H' or list(fine.nodes[nodes[0]].get('fragid') or ()) != [k]:
                fail('explicit-h-fragment-lost', 'coarse node %r (%s) is a one-hydrogen fragment but is mapped to %s'
                     % (k, d.get('fragname'), [(n, fine.nodes[n].get('element'), fine.nodes[n].get('fragid')) for n in nodes]))
            else:
                explicit.add(nodes[0])
    hw = {tuple(k): list(v) for k, v in (case.get('hweights') or [])}
    inherit = ('fragid', 'fragname', 'weight') if not hw else ('fragid', 'fragname')
    for kind, node, detail in check_valence(fine, explicit_h=explicit, inherit=inherit)[:4]:
        fail(kind, detail)
    if case.get('n_nh') is not None:
        got = sum(1 for n, d in fine.nodes(data=True) if d.get('element') == 'N' and
                  sum(1 for m in fine[n] if fine.nodes[m].get('element') == 'H') == 1)
        if got != case['n_nh']:
            fail('written-hydrogen-lost', '%d atoms are written [nH] but %d nitrogens carry exactly one hydrogen: %s' % (
                case['n_nh'], got, sorted((n, sum(1 for m in fine[n] if fine.nodes[m].get('element') == 'H'))
                                          for n, d in fine.nodes(data=True) if d.get('element') == 'N')))
    if hw:
        # atoms (element, weight) listed in hw carry explicitly weighted hydrogens; all other hydrogens inherit the weight
        for n, d in fine.nodes(data=True):
            if d.get('element') == 'H':
                continue
            hs = [fine.nodes[m].get('weight') for m in fine[n] if fine.nodes[m].get('element') == 'H' and m not in explicit]
            key = (d.get('element'), d.get('weight'))
            exp_explicit = hw.get(key, [])
            if None in hs or d.get('weight') is None:
                # every atom has a weight (1 unless annotated): a hydrogen without one did not inherit its atom's
                if None in hs:
                    fail('h-weight', '%s%r (weight %r) has a hydrogen without weight attribute: %s' % (d.get('element'), n, d.get('weight'), hs))
                continue
            hs = sorted(hs)
            want = sorted(exp_explicit + [d.get('weight')] * (len(hs) - len(exp_explicit)))
            if len(hs) < len(exp_explicit) or hs != want:
                fail('h-weight', '%s%r (weight %r) has hydrogens with weights %s, expected %s (explicit %s, the rest inherited)'
                     % (d.get('element'), n, d.get('weight'), hs, want, exp_explicit))
    return Outcome(text, nontrivial, fails)
