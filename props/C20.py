"""
C20 -- malformed input is rejected, never silently resolved.

Bounded tier, fault injection (DESIGN section 6 C20).  A valid string is taken from generator G1 (base graphs, with
and without multipliers) or built as a complete two-level string (G1 base graph + one atomistic or coarse fragment
per node name); ONE of the listed faults is injected at every position where it can be written; the documented
exception must come out and no graph may be returned:

  dangling-ring        a fresh ring marker (digit or %nn, with or without bond symbol) after node token i, or the
                       closing marker of an existing ring removed                         -> SyntaxError
  duplicate-edge       a fresh ring-marker pair on the two ends of an existing edge (chain edge, branch edge,
                       zero-order edge, or an existing ring bond)                          -> SyntaxError
  missing-fragment     the definition of one fragment name removed from a two-level string, where a node of that name
                       has at least one edge of order != 0                                  -> SyntaxError from resolve()
      control          ... where every node of that name has edges and all of them have order 0 (a virtual node,
                       docs "Virtual Edges"): resolve() must NOT raise the missing-fragment error
  two-equals           an annotation entry with two '=' (alone, before / after valid entries)  -> SyntaxError
  too-many-positional  more positional values than the dialect has reserved keys             -> SyntaxError
  non-numeric          a charge or weight that is not a number (keyword or positional)       -> TypeError
      the three annotation faults are injected into every node token of the base graph (also multiplied nodes and
      nodes inside multiplied branches), into an atom of the first / last atomistic fragment and into a node of a
      coarse fragment.

APIs: `cgsmiles.read_cgsmiles(text)` for base-graph strings, `MoleculeResolver.from_string(text[, last_all_atom=False])
.resolve()` for complete strings.  Before the faulty string is judged, the unfaulted string is run through the same
API; if THAT fails the case is skipped (a defect of another property, e.g. C04/C05, must not be counted here).

Scope decisions:
  * base strings avoid the known defect classes of C04/C05 (two branch closures followed by a node token; a multiplied
    branch containing a branch; a bond symbol directly after a node multiplier; |1 on a branch): there the reader
    fails or misplaces edges before it reaches the fault, which belongs to those properties;
  * ring faults are injected only outside multiplied units (ring markers next to |n are not documented);
  * non-numeric values are plain words / malformed numbers ('abc', '1,5', 'x1'); the empty value is not used;
  * 'q' is reserved only at coarse resolution, so non-numeric `q=` is injected into base-graph nodes only; fragment
    atoms get non-numeric `w=`; positional faults in coarse fragments use three values (too many under both dialects);
  * a fragment name whose nodes have no edge at all is never removed (the statement defines virtual by its edges);
  * the oracle checks the exception TYPE (SyntaxError; TypeError and not SyntaxError for the non-numeric value), not
    the message.

Signatures: <api>/<fault>/<kind>, kind = no-error (a graph came back), wrong-exception-<Type>,
virtual-node-flagged (control).
"""
import contextlib
import io
import logging
import random

from vf.bounded import Outcome, Failure
from gen import g1_grammar as g1

ID = 'C20'
LEVEL = 'other'
P_TARGETS = ['cgsmiles.resolve:MoleculeResolver.resolve_disconnected_molecule']
BUDGET = {'quick': 30.0, 'thorough': 300.0}
CHUNK = 200
BOUNDS = {
    'quick': {'base_strings': 'all arrangements of <= 4 node tokens, plain and with one ring / bond symbols; 150 random G1 '
                              'strings with 5..12 tokens; 150 random G1 strings with multipliers',
              'two_level_strings': 'the same arrangements (<= 4 tokens) + 100 random, one fragment per node name',
              'positions': 'every node token / every edge / every fragment name / first and last fragment',
              'fault_variants': {'dangling-ring': 7, 'duplicate-edge': 3, 'two-equals': 5, 'too-many-positional': 3,
                                 'non-numeric': 8}},
    'thorough': {'base_strings': 'all arrangements of <= 5 node tokens, plain and with one ring / bond symbols; 2000 random G1 '
                                 'strings with 5..14 tokens; 2000 random G1 strings with multipliers',
                 'two_level_strings': 'the same arrangements (<= 5 tokens) + 1500 random, one fragment per node name',
                 'positions': 'every node token / every edge / every fragment name / first and last fragment',
                 'fault_variants': {'dangling-ring': 7, 'duplicate-edge': 3, 'two-equals': 5, 'too-many-positional': 3,
                                    'non-numeric': 8}},
}
EXHAUSTIVE = {'quick': False, 'thorough': False}
RULE = ('valid strings from G1 (every arrangement of up to N node tokens, decorated with a ring bond and bond symbols; seeded '
        'random larger ones, with and without multipliers) and complete two-level strings built on them; each fault variant is '
        'injected at every node token / edge / fragment name where it can be written.  A case is non-trivial when the base '
        'string has at least 3 node tokens or a branch, ring or multiplier, or the fault sits in a fragment definition (i.e. it '
        'is not the two-node situation of test_syntax_errors); distinct = distinct faulty string + API.')
ASSUMPTIONS = [
    'gen/g1_grammar renders valid strings (checked at run time: the unfaulted string must be accepted, else the case is skipped)',
    'gen/g1_grammar.denote gives the edges of the base graph (used to choose the edge to duplicate and to decide which nodes are virtual)',
]

TWO_EQUALS = [';w=ab=c', ';k=a=b', ';q=1=2', ';q=1;k=a=b', ';k=a=b;w=2']
TOO_MANY = [';1;2;3', ';0;0.5;abc', ';1;2;3;k=v']
NON_NUMERIC = [';q=abc', ';w=abc', ';abc', ';0;abc', ';w=1;q=x1', ';k=v;w=abc', ';q=1,5', ';1;w=1.2.3']
FRAG_TWO_EQUALS = [';w=ab=c', ';k=a=b', ';0.5;k=a=b']
FRAG_TOO_MANY = [';1;R;3', ';1;2;3;k=v']
FRAG_NON_NUMERIC = [';w=abc', ';abc', ';k=v;w=1.2.3', ';abc;R']     # no ',' here: it separates fragments
CARBON = '[$]C([$])([$])[$]'


def init_worker():
    logging.getLogger('pysmiles').setLevel(logging.ERROR)


# --------------------------------------------------------------------------------------------------------
# base strings
# --------------------------------------------------------------------------------------------------------
def _in_known_defect_class(ast, text):
    from props.C05 import multiplied_branch_after_closed_branch_in_branch, multiplied_node_with_symbol_in_multiplied_branch
    return (g1.consecutive_closures_then_token(text) or g1.outer_multiplied_branch_contains_branch(ast)
            or g1.symbol_after_node_multiplier(text) or g1.branch_multiplier_one(ast)
            or multiplied_branch_after_closed_branch_in_branch(ast)
            or multiplied_node_with_symbol_in_multiplied_branch(ast))


def base_asts(tier, seed, multipliers):
    """valid ASTs outside the known defect classes"""
    rng = random.Random(seed * 99991 + (7 if multipliers else 3))
    max_k = 4 if tier == 'quick' else 5
    n_random = 150 if tier == 'quick' else 2000
    out = []
    if not multipliers:
        for k in range(1, max_k + 1):
            for skel in g1.skeleton_shapes(k):
                parents = g1.skeleton_parents(skel)
                out.append({'skel': skel})
                if k >= 2:
                    syms = [g1.NONDEFAULT[(i + k) % 5] if i % 2 == 0 else '' for i in range(k - 1)]
                    out.append({'skel': skel, 'in': syms})
                    out.append({'skel': skel, 'in': ['.'] * (k - 1)})
                pairs = list(g1.ring_pair_sets(k, parents, 1))[1:]
                for (pair,) in pairs[:3]:
                    out.append({'skel': skel, 'rings': [[pair[0], pair[1], 'd', '', False, 1]]})
                    out.append({'skel': skel, 'rings': [[pair[0], pair[1], 'p', '=', False, 1]], 'in': ['-'] + [''] * (k - 2)})
        for c in g1.c04_random(seed, n_random, min_tokens=5, max_tokens=12 if tier == 'quick' else 14):
            out.append(c)
    else:
        for c in g1.c05_random(seed, n_random, min_tokens=2, max_tokens=10, branch_in_unit=False, max_count=4, max_nodes=40):
            out.append(c)
    for c in out:
        ast = g1.build(c)
        text = g1.render(ast)
        if g1.scope_violation(ast) is None and not _in_known_defect_class(ast, text):
            yield ast, text


def _fresh_ids(ast):
    used = {g1.ring_id(m) for n in g1.flat_nodes(ast) for _, m in n['rings']}
    digit = next(d for d in (9, 8, 7, 6, 5, 4, 3, 2, 1) if d not in used)
    pct = next(p for p in (77, 78, 79, 80, 81) if p not in used)
    return str(digit), '%' + str(pct)


def _nontrivial(ast):
    f = g1.features(ast)
    return f['tokens'] >= 3 or f['branch'] > 0 or f['ring'] > 0 or f['node_mult'] > 0 or f['branch_mult'] > 0


def _case(fault, api, base, text, expect, where, nontrivial, **kw):
    c = {'fault': fault, 'api': api, 'base': base, 'text': text, 'expect': expect, 'where': where, 'nontrivial': bool(nontrivial)}
    c.update(kw)
    return c


def ring_fault_cases(ast, text):
    """dangling ring / duplicate edge in a multiplier-free base graph"""
    flat = g1.flat_nodes(ast)
    nt = _nontrivial(ast)
    digit, pct = _fresh_ids(ast)
    for i in range(len(flat)):
        zero = [('', '0'), ('', '%00')] if 0 not in {g1.ring_id(m) for nn in flat for _, m in nn['rings']} else []
        for sym, marker in [('', digit), ('=', digit), ('', pct), ('.', pct)] + zero:      # ring index 0 is an index like any other
            a = g1.copy_ast(ast)
            n = g1.flat_nodes(a)[i]
            n['rings'] = g1._sorted_rings([[sym, marker]] + n['rings']) if not marker.startswith('%') else n['rings'] + [[sym, marker]]
            yield _case('dangling-ring', 'read', text, g1.render(a), 'SyntaxError', 'marker %s%s after node %d' % (sym, marker, i), nt)
    # remove the closing marker of an existing ring
    seen = {}
    for i, n in enumerate(flat):
        for j, (sym, marker) in enumerate(n['rings']):
            rid = g1.ring_id(marker)
            if rid in seen:
                a = g1.copy_ast(ast)
                del g1.flat_nodes(a)[i]['rings'][j]
                yield _case('dangling-ring', 'read', text, g1.render(a), 'SyntaxError',
                            'closing marker %s of node %d removed' % (marker, i), nt)
                del seen[rid]
            else:
                seen[rid] = i
    # duplicate an existing edge
    nodes, edges = g1.denote_lists(ast)
    for (u, v), order in sorted(edges.items()):
        for sym, marker in (('', digit), ('', pct), ('#', digit)):
            a = g1.copy_ast(ast)
            f = g1.flat_nodes(a)
            for idx in (u, v):
                n = f[idx]
                n['rings'] = g1._sorted_rings([[sym if idx == u else '', marker]] + n['rings']) \
                    if not marker.startswith('%') else n['rings'] + [[sym if idx == u else '', marker]]
            yield _case('duplicate-edge', 'read', text, g1.render(a), 'SyntaxError',
                        'ring %s%s between nodes %d and %d which already share an edge of order %d' % (sym, marker, u, v, order), nt)


def annotation_fault_cases(ast, text, api='read', suffix='', thin=1):
    flat = g1.flat_nodes(ast)
    nt = _nontrivial(ast)
    n = 0
    for i in range(len(flat)):
        for fault, variants, expect in (('two-equals', TWO_EQUALS, 'SyntaxError'), ('too-many-positional', TOO_MANY, 'SyntaxError'),
                                        ('non-numeric', NON_NUMERIC, 'TypeError')):
            for ann in variants:
                n += 1
                if n % thin:
                    continue
                a = g1.copy_ast(ast)
                g1.flat_nodes(a)[i]['ann'] = ann
                yield _case(fault, api, text + suffix, g1.render(a) + suffix, expect, 'annotation %s on node token %d' % (ann, i), nt)


# --------------------------------------------------------------------------------------------------------
# two-level strings
# --------------------------------------------------------------------------------------------------------
def fragment_block(names, template=CARBON, override=None, skip=None):
    defs = []
    for nm in names:
        if nm == skip:
            continue
        defs.append('#%s=%s' % (nm, (override or {}).get(nm, template)))
    return '{' + ','.join(defs) + '}'


# base graphs in which #X stands once as a virtual node and once as a bonded node, in both orders of appearance
MIXED_VIRTUAL = [('[#A].[#X].[#A][#X]', 'virtual first'),
                 ('[#A][#X].[#X].[#A]', 'bonded first'),
                 ('[#X].[#A][#A][#X]', 'virtual first, at the start'),
                 ('[#A]([#X])[#A].[#X]', 'bonded in a branch, virtual last'),
                 ('[#A](.[#X])[#A][#X]', 'virtual in a branch, bonded last'),
                 ('[#X].[#A]1[#A][#X]1', 'virtual first, bonded through a ring bond'),
                 ('[#A].[#X].[#X].[#A]=[#X]', 'two virtual ones first')]


def two_level_cases(ast, text, rng):
    names = []
    for n in g1.flat_nodes(ast):
        if n['name'] not in names:
            names.append(n['name'])
    nodes, edges = g1.denote_lists(ast)
    incident = {i: [] for i in range(len(nodes))}
    for (u, v), o in edges.items():
        incident[u].append(o)
        incident[v].append(o)
    full = text + '.' + fragment_block(names)
    # missing fragment, for every name
    for nm in names:
        idxs = [i for i, a in enumerate(nodes) if a['fragname'] == nm]
        if any(len(incident[i]) == 0 for i in idxs):
            continue
        real = any(o != 0 for i in idxs for o in incident[i])
        if len(names) == 1:
            continue
        faulty = text + '.' + fragment_block(names, skip=nm)
        if real:
            yield _case('missing-fragment', 'resolve', full, faulty, 'SyntaxError', 'definition of #%s removed' % nm, True)
        else:
            yield _case('missing-fragment', 'resolve', full, faulty, 'ok', 'definition of #%s removed, all its edges have order 0' % nm,
                        True, control=True)
    # annotation faults in a fragment atom of the first / last fragment (atomistic)
    for which in sorted({names[0], names[-1]}):
        for fault, variants, expect in (('two-equals', FRAG_TWO_EQUALS, 'SyntaxError'), ('too-many-positional', FRAG_TOO_MANY, 'SyntaxError'),
                                        ('non-numeric', FRAG_NON_NUMERIC, 'TypeError')):
            for ann in variants:
                tmpl = rng.choice(['[$]C([$])([N%s])[$]', '[N%s]C([$])([$])[$]', '[$]C([$])([$])[C%s]'])
                good = tmpl % ''
                bad = tmpl % ann
                yield _case(fault, 'resolve', text + '.' + fragment_block(names, override={which: good}),
                            text + '.' + fragment_block(names, override={which: bad}), expect,
                            'annotation %s on an atom of fragment #%s' % (ann, which), True)
    # coarse fragments: annotation faults and a dangling ring inside a late fragment
    which = names[-1]
    good = '[$][#X][$][#Y][$][$]'
    for fault, bad, expect in (('two-equals', '[$][#X][$][#Y;k=a=b][$][$]', 'SyntaxError'),
                               ('too-many-positional', '[$][#X;1;2;3][$][#Y][$][$]', 'SyntaxError'),
                               ('non-numeric', '[$][#X][$][#Y;w=abc][$][$]', 'TypeError'),
                               ('dangling-ring', '[$][#X][$][#Y]7[$][$]', 'SyntaxError'),
                               ('duplicate-edge', '[$][#X]7[$][#Y]7[$][$]', 'SyntaxError')):
        yield _case(fault, 'resolve-coarse', text + '.' + fragment_block(names, template='[$][#X][$][$][$]', override={which: good}),
                    text + '.' + fragment_block(names, template='[$][#X][$][$][$]', override={which: bad}), expect,
                    'coarse fragment #%s: %s' % (which, bad), True)


def with_virtual_node(ast, rng):
    """copy of a multiplier-free ast in which every edge of one node has order 0 (symbol '.')"""
    a = g1.copy_ast(ast)
    parents = []
    flat = g1.flat_nodes(a, parents=parents)
    if len(flat) < 2:
        return None
    v = rng.randrange(len(flat))
    if v > 0:
        flat[v]['in'] = '.'
    for i, p in enumerate(parents):
        if p == v:
            flat[i]['in'] = '.'
    # ring bonds of v: drop them (keeps the string valid and v virtual)
    ids = {g1.ring_id(m) for _, m in flat[v]['rings']}
    if ids:
        for n in flat:
            n['rings'] = [r for r in n['rings'] if g1.ring_id(r[1]) not in ids]
    # its name must be unique, otherwise another node of that name may have real edges
    flat[v]['name'] = 'V'
    return a if g1.scope_violation(a) is None else None


def cases(tier, seed):
    rng = random.Random(seed * 31337 + 20)
    plain = list(base_asts(tier, seed, False))
    mult = list(base_asts(tier, seed, True))
    # 1. ring faults and annotation faults on base graphs (read_cgsmiles)
    for ast, text in plain:
        yield from ring_fault_cases(ast, text)
    for ast, text in plain:
        yield from annotation_fault_cases(ast, text, thin=1 if len(g1.flat_nodes(ast)) <= 4 else 3)
    for ast, text in mult:
        yield from annotation_fault_cases(ast, text, thin=2)
    # 2. complete strings (resolve)
    n_two = 100 if tier == 'quick' else 1500
    small = [(a, t) for a, t in plain if len(g1.flat_nodes(a)) <= (4 if tier == 'quick' else 5)]
    big = [(a, t) for a, t in plain if len(g1.flat_nodes(a)) > 5][:n_two]
    for ast, text in small + big + mult[:n_two]:
        yield from two_level_cases(ast, text, rng)
        if not g1.has_multiplier(ast):
            v = with_virtual_node(ast, rng)
            if v is not None:
                vt = g1.render(v)
                if not _in_known_defect_class(v, vt):
                    for c in two_level_cases(v, vt, rng):
                        if c['fault'] == 'missing-fragment':
                            yield c
    # 2b. a fragment-less name that occurs both as a virtual node (only '.' bonds) and as a really bonded node: the
    #     bonded occurrence makes the string faulty wherever it stands relative to the virtual one
    for base_g, a_def in MIXED_VIRTUAL:
        for fr, lvl in (('#A=[$]CC[$],#X=[$]CO[$]', 'resolve'), ('#A=[$][#P][#Q][$],#X=[$][#P][$]', 'resolve-coarse')):
            full = '{%s}.{%s}' % (base_g, fr)
            faulty = '{%s}.{%s}' % (base_g, fr.split(',')[0])
            yield _case('missing-fragment', lvl, full, faulty, 'SyntaxError',
                        'definition of #X removed; #X occurs once with order-0 bonds only and once really bonded (%s)' % a_def, True)
    # 3. annotation faults on base nodes, seen through the resolver
    for ast, text in (small + big)[::7]:
        names = []
        for n in g1.flat_nodes(ast):
            if n['name'] not in names:
                names.append(n['name'])
        yield from annotation_fault_cases(ast, text, api='resolve', suffix='.' + fragment_block(names), thin=5)


# --------------------------------------------------------------------------------------------------------
# checking
# --------------------------------------------------------------------------------------------------------
def _run(api, text):
    import cgsmiles
    from cgsmiles.resolve import MoleculeResolver
    # the annotation parser prints the TypeError of Signature.bind; keep stdout clean (it carries the verdict lines)
    with contextlib.redirect_stdout(io.StringIO()):
        if api == 'read':
            return cgsmiles.read_cgsmiles(text)
        resolver = MoleculeResolver.from_string(text, last_all_atom=(api != 'resolve-coarse'))
        return resolver.resolve()


_BASE_OK = {}     # per worker: (api, unfaulted string) -> None if accepted, else the exception name


def check_case(case):
    api, text, fault, expect = case['api'], case['text'], case['fault'], case['expect']
    api_name = {'read': 'read_cgsmiles', 'resolve': 'MoleculeResolver.resolve', 'resolve-coarse': 'MoleculeResolver.resolve'}[api]
    key = api + ' ' + text
    nontrivial = case.get('nontrivial', True)
    # the unfaulted string must be accepted by the same API, otherwise the case says nothing about C20
    bkey = (api, case['base'])
    if bkey not in _BASE_OK:
        if len(_BASE_OK) > 5000:
            _BASE_OK.clear()
        try:
            _run(api, case['base'])
            _BASE_OK[bkey] = None
        except Exception as e:
            _BASE_OK[bkey] = type(e).__name__
    if _BASE_OK[bkey] is not None:
        return Outcome(key, False, [], skipped=True, note='unfaulted string rejected: %s' % _BASE_OK[bkey])
    try:
        _run(api, text)
    except Exception as e:
        tname = type(e).__name__
        if expect == 'ok':
            if isinstance(e, SyntaxError) and 'no corresponding fragment' in str(e):
                return Outcome(key, nontrivial, [Failure(api_name, 'virtual-node-flagged', '%s (%s) -> %s: %s' % (text, case['where'], tname, e),
                                                         '%s/%s/virtual-node-flagged' % (api_name, fault))])
            # some other problem with this string: outside the statement
            return Outcome(key, False, [], skipped=True, note='control raised %s' % tname)
        good = isinstance(e, SyntaxError) if expect == 'SyntaxError' else (isinstance(e, TypeError) and not isinstance(e, SyntaxError))
        if good:
            return Outcome(key, nontrivial, [])
        return Outcome(key, nontrivial, [Failure(api_name, 'wrong-exception-' + tname,
                                                 '%s (%s): expected %s, got %s: %s' % (text, case['where'], expect, tname, e),
                                                 '%s/%s/wrong-exception-%s' % (api_name, fault, tname))])
    if expect == 'ok':
        return Outcome(key, nontrivial, [])
    return Outcome(key, nontrivial, [Failure(api_name, 'no-error', '%s (%s): expected %s, but a graph was returned' % (text, case['where'], expect),
                                             '%s/%s/no-error' % (api_name, fault))])
