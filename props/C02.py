"""
C02 - the coarse-to-fine mapping is a faithful partition into fragment copies.

Bounded tier (run-time postcondition on every `MoleculeResolver.resolve` step; the deductive tier is wired in
elsewhere).  For every step of every generated input (gen/gr_resolver_inputs.py):

  (a) every fine node has a non-empty 'fragid' list of coarse node keys (one entry: the inputs contain no `!`),
      `coarse.nodes[k]['graph']` has exactly the fine nodes n with k in fragid(n) and the induced edges, the sets
      cover the fine graph;
  (b) the heavy (non hydrogen-completed) nodes of coarse node k are a copy of the template defined under k's
      fragment name - template read independently with `cgsmiles.read_fragments(block, all_atom=...)`:
      element (all-atom) / atomname (coarse), internal bonds and their orders, every per-atom annotation the
      template carries (weight, charge, chiral, free keys), 'fragname' of every node of k (hydrogens included:
      they inherit it) equal to the fragment name; the resolver's own 'mapping' record, when present, must itself
      be that isomorphism; a node without fragment (virtual) owns nothing.

  (c) shared atoms (gen shared_cases: one atom shared by 2, 3 or 4 coarse nodes; the hub fragment first / in the middle /
      last in the base string; the non-hub fragments bonded to each other or not; all pairs marked; two hubs; all-atom
      and coarse): the fine graph and the membership of every atom are known BY CONSTRUCTION - an atom written with `!`
      belongs to all coarse nodes whose fragments were merged there.  Demanded: clause (a) with multi-entry fragid lists
      (bi-implication with coarse 'graph', covering), an isomorphism heavy fine graph <-> constructed graph under which
      every atom's fragid is exactly (each once) the set of coarse nodes that contain it and its 'mapping' record exactly
      the template atoms it stems from; completed hydrogens carry the membership of the atom they sit on; an unshared atom
      reports its coarse node's fragment name, a shared atom the name of one of its coarse nodes.
  (d) falsy annotations (gen zero_weight_cases): weight 0 on explicit hydrogens and on heavy atoms must arrive on the
      copies like any other annotation (clause b); fragment names defined on several levels (gen layered_reuse_cases).

Scope decisions: shared atoms (`!`) only in family (c) - every pair has a label of its own (which atoms merge does not
depend on the search order), no aromatic shared atoms (findings C10-4/5), no annotations on shared atoms, the all-atom
'atomname' of a shared atom may differ between the membership graphs (it is numbered per coarse node, C12); that the
molecule as a whole is the right one is C10's; 'aromatic', 'hcount', 'bonding' and the all-atom 'atomname' are not
per-atom annotations (pysmiles / C09 / C03 / C12); the coarse node's fragment name is taken from the intended base
graph at the first step (by construction) and from the returned coarse graph at later steps (C06 checks that
chain).  A base string the reader does not read as intended is skipped (C04/C05).  Base graphs handed to
`from_graph` with keys that are not 0..n-1 in insertion order are generated on purpose (the API only asks for a
'fragname' on every node).
"""
import logging
from vf.bounded import Outcome, Failure
from gen import gr_resolver_inputs as gr
from specs import resolver_spec as rs

ID = 'C02'
LEVEL = 'other'
P_TARGETS = ['cgsmiles.graph_utils:merge_graphs', 'cgsmiles.resolve:MoleculeResolver.resolve_disconnected_molecule', 'cgsmiles.pysmiles_utils:rebuild_h_atoms', 'cgsmiles.resolve:MoleculeResolver.squash_atoms',
             'cgsmiles.graph_utils:annotate_fragments', 'cgsmiles.resolve:MoleculeResolver.resolve']
BUDGET = {'quick': 30.0, 'thorough': 400.0}
CHUNK = 40
BOUNDS = {
    'quick': {'base_graphs': 'all connected graphs <= 4 nodes', 'order_variants': 'all single; each edge in turn 2 / 0 (first edge also 3), every second one for 4 nodes',
              'designs': ['unique', 'homo', 'free'], 'last_level': ['all-atom', 'coarse'], 'legacy': [True, False],
              'virtual_node': 'first / middle / last on graphs <= 3 nodes', 'multiplied_units': '|2 |3, flat multiplied branch',
              'typed_in': 40, 'layered': 'groupings of graphs <= 4 nodes into 1..2 intermediate levels, 7 typed-in multi-level strings',
              'from_graph_rekeyed': 'graphs <= 3 nodes x 4 key schemes', 'random': '60 trees 5..8 nodes + 60 layered', 'repeats_per_cell': 2,
              'shared_atoms': '12 designs (2-, 3-, 4-fold sharing, hub first/middle/last, bonded / pairwise-marked, two hubs) x all orders of '
                              '<= 3 coarse nodes (8 seeded orders above) x all-atom/coarse x descriptor before/behind the first atom',
              'zero_weight': '6 typed-in strings + graphs <= 3 nodes x 4 fills from 7 bodies with weight-0 hydrogens / heavy atoms',
              'reused_names': '5 typed-in + graphs <= 4 nodes x 2 groupings named after their first member'},
    'thorough': {'base_graphs': 'all connected graphs <= 5 nodes', 'order_variants': 'as quick + 2 seeded assignments', 'repeats_per_cell': 3,
                 'designs': ['unique', 'homo', 'free'], 'last_level': ['all-atom', 'coarse'], 'legacy': [True, False],
                 'virtual_node': 'first / middle / last on graphs <= 4 nodes', 'multiplied_units': '|2 |3 |5', 'typed_in': 40,
                 'layered': 'groupings of graphs <= 5 nodes into 1..3 intermediate levels', 'from_graph_rekeyed': 'graphs <= 4 nodes x 4 key schemes',
                 'random': '4000 trees + 3000 layered',
                 'shared_atoms': 'as quick with 40 seeded orders for designs with > 3 coarse nodes',
                 'zero_weight': '6 typed-in strings + graphs <= 4 nodes x 8 fills', 'reused_names': '5 typed-in + graphs <= 5 nodes x 4 groupings'},
}
EXHAUSTIVE = {'quick': False, 'thorough': False}
RULE = ('base graph (atlas graph x bond orders, virtual node, multiplied units, typed-in strings, layered strings) x fragment design '
        '(unique labels / homogeneous $ with repeated names / random ambiguous fills) x all-atom or coarse bodies (internal rings, '
        'explicit H, weights incl. 0, charges, free annotations) x legacy; shared-atom designs x order of the coarse nodes; fragment names '
        'reused across levels; the exhaustive part is seeded by the cell, not by VERIF_SEED; '
        'a case is non-trivial when some step has >= 2 coarse nodes that own fine nodes (so membership, offsets and copies can go wrong); '
        'distinct = distinct (constructor, keys, full string, flags)')
ASSUMPTIONS = ['cgsmiles.read_fragments returns the template the fragment text denotes (properties C13 / C08)',
               'cgsmiles.read_cgsmiles reads the base string as intended (checked per case against the construction; otherwise the case is skipped)',
               'isomorphism decided by networkx.is_isomorphic / by the recorded mapping verified edge by edge',
               'pysmiles keeps complete benzene rings aromatic (bond order 1.5 inside templates and copies)',
               'shared-atom family: template atoms are numbered in order of appearance in the fragment text (linear fragments without explicit hydrogens)']

# what a fragment index that is not the coarse node's key looks like (finding F4 and its from_graph variant)
_F4_CLAUSES = {'fragid-not-a-coarse-node', 'coarse-graph-members', 'virtual-node-owns-atoms', 'fragname', 'copy-size',
               'copy-not-isomorphic', 'mapping-attribute'}


def init_worker():
    logging.getLogger('pysmiles').setLevel(logging.ERROR)
    logging.getLogger('cgsmiles').setLevel(logging.ERROR)


def cases(tier, seed):
    # small seed-independent families first: falsy annotations, shared atoms, fragment names reused across levels
    yield from gr.zero_weight_cases(tier)
    yield from gr.shared_cases(tier)
    yield from gr.layered_reuse_cases(tier)
    small = []
    for c in gr.two_level_cases(tier, seed):
        yield c
        if c['id'].startswith('atlas/') and c['design'] in ('unique', 'homo') and c['legacy'] \
                and len(c['base']['nodes']) <= (3 if tier == 'quick' else 4) and all(o == 1 for _, _, o in c['base']['edges']):
            small.append(c)
    for c in small:
        for kid, keys in gr.keyed_variants(c):
            d = dict(c)
            d['id'] = c['id'] + '/keys-' + kid
            d['how'] = 'graph-own'
            d['keys'] = keys
            d['tags'] = c['tags'] + ['rekeyed']
            yield d
    for c in small[::3]:
        for how in ('graph', 'dicts', 'graph-own'):
            d = dict(c)
            d['id'] = c['id'] + '/' + how
            d['how'] = how
            yield d
    yield from gr.layered_cases(tier, seed)


def classify(case, clause, step):
    tags = case.get('tags', [])
    if clause in _F4_CLAUSES:
        if 'virtual-not-last' in tags:
            return 'resolve/virtual-node-not-last/membership-shifted'
        if 'rekeyed' in tags:
            return 'resolve/from_graph-keys-not-0..n-1-in-order/membership-by-running-index'
    kind = 'coarse' if not case['all_atom'] or step < len(case['blocks']) - 1 else 'all-atom'
    return 'resolve/%s/%s' % (kind, clause)


def _check_shared(cgsmiles, case, key):
    """Inputs with `!`: membership bi-implication and covering (specs.check_membership), memberships / mapping / structure
    against the construction (specs.check_shared)."""
    fails, nontrivial, step = [], False, -1
    kind = 'all-atom' if case['all_atom'] else 'coarse'
    names = {k: nm for k, nm in case['base']['nodes']}
    try:
        for step, (coarse, fine) in enumerate(gr.make_resolver(cgsmiles, case).resolve_iter()):
            probs = rs.check_membership(coarse, fine, shared_atoms=True)
            probs += rs.check_shared(coarse, fine, case['expect'], names, case['all_atom'])
            nontrivial = nontrivial or sum(1 for k in coarse.nodes if rs.members(fine, k)) >= 2
            for clause, detail in probs:
                fails.append(Failure('MoleculeResolver.resolve', clause, 'step %d of %s: %s' % (step, gr.full_string(case), detail),
                                     'resolve/shared-atoms/%s/%s' % (kind, clause)))
    except Exception as e:      # noqa
        fails.append(Failure('MoleculeResolver.resolve', 'exception', 'step %d of %s: %s: %s' % (
            step + 1, gr.full_string(case), type(e).__name__, str(e)[:300]), 'resolve/shared-atoms/%s/exception-%s' % (kind, type(e).__name__)))
    seen, uniq = set(), []
    for f in fails:
        if f['kind'] not in seen:
            seen.add(f['kind'])
            uniq.append(f)
    return Outcome(key, nontrivial, uniq)


def check_case(case):
    import cgsmiles
    how = case.get('how', 'string')
    key = repr((how, case.get('keys'), gr.full_string(case), case['all_atom'], case['legacy']))
    if how != 'graph-own' and not gr.reader_agrees(cgsmiles, case):
        return Outcome(key, False, [], skipped=True, note='base string not read as intended (C04/C05)')
    if case.get('design') == 'shared':
        return _check_shared(cgsmiles, case, key)
    fails, nontrivial = [], False
    try:
        templates = gr.read_templates(cgsmiles, case)
    except Exception as e:
        return Outcome(key, False, [], skipped=True, note='fragment block not readable: %r' % e)
    names0 = None
    if case.get('base'):
        kmap = {i: k for i, k in enumerate(case['keys']['keys'])} if case.get('keys') else None
        names0 = {(kmap[i] if kmap else i): nm for i, nm in case['base']['nodes']}
    step = -1
    try:
        resolver = gr.make_resolver(cgsmiles, case, how, case.get('keys'))
        for step, (coarse, fine) in enumerate(resolver.resolve_iter()):
            all_atom = case['all_atom'] and step == len(case['blocks']) - 1
            probs = rs.check_membership(coarse, fine)
            probs += rs.check_copies(coarse, fine, templates[step], all_atom, names=names0 if step == 0 else None)
            owning = sum(1 for k in coarse.nodes if rs.members(fine, k))
            nontrivial = nontrivial or owning >= 2
            for clause, detail in probs:
                fails.append(Failure('MoleculeResolver.resolve', clause, 'step %d of %s: %s' % (step, gr.full_string(case), detail),
                                     classify(case, clause, step)))
    except Exception as e:      # noqa
        if not case.get('valid'):
            return Outcome(key, False, [], skipped=True, note='%s: %s' % (type(e).__name__, e))
        tags = case.get('tags', [])
        sig = 'resolve/exception/%s' % type(e).__name__
        if 'rekeyed' in tags:
            sig = 'resolve/from_graph-keys-not-0..n-1-in-order/membership-by-running-index'
        elif 'virtual-not-last' in tags:
            sig = 'resolve/virtual-node-not-last/membership-shifted'
        fails.append(Failure('MoleculeResolver.resolve', 'exception', 'step %d of %s (%s): %s: %s' % (
            step + 1, gr.full_string(case), how, type(e).__name__, str(e)[:300]), sig))
    # one failure per signature and case is enough
    seen, uniq = set(), []
    for f in fails:
        if (f['signature'], f['kind']) not in seen:
            seen.add((f['signature'], f['kind']))
            uniq.append(f)
    return Outcome(key, nontrivial, uniq)
