"""
C13 -- bonding descriptors are separated from fragment text exactly.

Bounded tier only (the tokenizer is a character-level state machine outside pyvc's reach, DESIGN section 6
C13).  Run-time postcondition on the real `cgsmiles.read_fragments.strip_bonding_descriptors`:

    strip_bonding_descriptors(text) == (clean text, descriptors by atom, cis/trans marks, annotations)

where `text` is produced by generator G3 (gen/g3_fragment_text.py) from a skeleton token sequence and a
list of descriptor insertions, so that all four expected components are known BY CONSTRUCTION (G3 never
imports cgsmiles and never parses the text it renders).

Scope decisions (the check demands no more than the statement / docs / repo tests promise):
* The list of descriptors of one atom is compared as a multiset; the statement fixes kind, label, order and
  owner of every descriptor, not the order of the list.
* Conventions taken from docs/source/syntax/fragments.rst and test_strip_bonding_descriptors: order symbol
  BEFORE a descriptor that follows an atom (`C=[$]` -> '$2', symbol removed from the clean text), AFTER a
  leading descriptor (`[$]=C`); a descriptor after a branch close belongs to the branch's anchor atom
  (`[$]CC(CC)[$]` -> atoms 0 and 1); after a ring marker to the atom carrying the marker.  Only these
  documented spellings are generated (never `=[$]C` for a leading descriptor).
* Order symbols generated: none . - = # $ (orders 1 0 1 2 3 4).  ':' is not generated as a descriptor order
  (order '1.5' would break the "last character is the order digit" convention; docs are silent).
* Annotated atoms must yield exactly the dict given by the docs' reserved-symbol table for the atomic
  dialect (weight default 1.0, `x` -> 'chiral', free keys verbatim).  Atoms without annotation may have no
  entry, an empty entry or the default weight only.  A coarse node with a *positional* annotation
  (`[#OT1;0.5]`) is only required to carry the value under 'weight' (repo test) or 'charge' (docs table for
  coarse nodes) -- that disagreement is finding F13 of C14, not a C13 matter; `q=` on coarse nodes is not
  generated for the same reason.
* cis/trans marks: the statement does not mention them; the repo tests pin "a mark written between atoms a
  and b is removed from the clean text and reported on a and b".  Checked only on skeletons where no atom is
  touched by two different marks; skeletons without marks must report none.
* Not generated: `|n` multipliers inside fragments, a `%nn` marker directly followed by a digit marker,
  whitespace, bare two-letter elements other than Cl / Br (Si Na Mg are not in the SMILES organic subset).
"""
import itertools
from vf.bounded import Outcome, Failure
from vf.util import call
from gen import g3_fragment_text as g3

ID = 'C13'
LEVEL = 'exploration'
P_TARGETS = []
BUDGET = {'quick': 33.0, 'thorough': 440.0}
CHUNK = 400
BOUNDS = {
    'quick': {'skeletons': 'G3 quick set: 23 atomistic + 4 cis/trans + 14 coarse shapes (<= 5 atoms, nesting <= 2, '
                           '<= 2 ring bonds, ring-bond symbol on opening / closing / both, %nn) x cyclic fillings '
                           'over 8 atomistic / 4 coarse atom spellings',
              'insertions_max': 2,
              'singles': 'every slot x 72 descriptors (4 kinds x labels "",A,1a x symbols none . - = # $)',
              'doubles': 'every slot pair (same slot in both orders) x 12 x 12 descriptors',
              'random_cases': 15000, 'random_skeleton_atoms_max': 8, 'random_insertions_max': 2},
    'thorough': {'skeletons': 'G3 thorough set: same shapes x 12 (19 for <= 2 atoms) cyclic fillings over 19 atomistic spellings, '
                              '6 fillings over 6 coarse spellings',
                 'insertions_max': 3,
                 'singles': 'every slot x 72 descriptors',
                 'doubles': 'every slot pair x 12 x 12 descriptors',
                 'triples': 'every slot triple x 6 x 6 x 6 descriptors on the quick skeleton set',
                 'random_cases': 250000, 'random_skeleton_atoms_max': 8, 'random_insertions_max': 3},
}
EXHAUSTIVE = {'quick': False, 'thorough': False}
RULE = ('skeleton token sequences of G3 (exhaustive over the listed shapes x fillings) x every sequence of <= k '
        'descriptor insertions over the listed alphabets at every slot (leading, after each atom, after each ring '
        'marker, after each branch close), enumerated in the order 0, 1, 2 (,3) insertions, then seeded random '
        'skeletons (random trees with <= 8 atoms, <= 2 ring bonds) with random insertions; a case is non-trivial '
        'when at least one descriptor is inserted or an atom carries an annotation (the tokenizer has to decide an '
        'owner and an order, or to split a bracket atom); distinct = distinct fragment text')
ASSUMPTIONS = ['expected values are produced by gen/g3_fragment_text.render from the token list (by construction)',
               'the annotation dict of an atom follows the reserved-symbol table of docs/source/syntax/'
               'basic_graph_description.rst (atomic dialect), re-implemented in g3.annotation_spec',
               'descriptor lists per atom are compared as multisets']

_MEDIUM = g3.alphabet_medium()
_SMALL = g3.alphabet_small()
_FULL = g3.alphabet_full()


def cases(tier, seed):
    sks = g3.skeletons(tier)
    for s, _ in sks:
        yield {'sk': s, 'ins': []}
    for s, _ in sks:
        for ins in g3.single_insertions(s, _FULL):
            yield {'sk': s, 'ins': ins}
    for s, _ in sks:
        for ins in g3.multi_insertions(s, 2, _MEDIUM):
            yield {'sk': s, 'ins': ins}
    if tier == 'thorough':
        for s, _ in g3.skeletons('quick'):
            for ins in g3.multi_insertions(s, 3, _SMALL):
                yield {'sk': s, 'ins': ins}
    n_rand = BOUNDS[tier]['random_cases']
    yield from g3.random_cases(seed, n_rand, BOUNDS[tier]['random_insertions_max'])


def classify(case, kind):
    """Narrow failure classes (only used to match entries of known_findings.json)."""
    sk = g3.parse(case['sk'])
    by_slot = {}
    for slot, k, l, sym in case['ins']:
        by_slot.setdefault(slot, []).append(sym)
    if kind in ('clean-text', 'descriptors'):
        # F2: the first descriptor after ring marker(s) of which one carries a ring-bond symbol (branch closes may
        # follow the markers), written without an order symbol of its own
        toks = sk.tokens
        for slot, syms in by_slot.items():
            if slot >= 0 and (toks[slot][0] == 'r' or toks[slot] == ')') and syms[0] == '':
                j = slot
                while j >= 0 and (toks[j][0] == 'r' or toks[j] == ')'):
                    if toks[j][0] == 'r' and toks[j][2] not in '0123456789%' and toks[j][2] != '.':
                        # no other descriptor between that marker and this slot
                        if not any(j <= s2 < slot for s2 in by_slot):
                            return 'strip_bonding_descriptors/descriptor-after-ring-marker-with-bond-symbol/' + kind
                    j -= 1
        # F3: order symbol '.' (order 0) in front of a non-leading descriptor
        if any(slot >= 0 and '.' in syms for slot, syms in by_slot.items()):
            return 'strip_bonding_descriptors/order-zero-descriptor/' + kind
    return 'strip_bonding_descriptors/' + kind


def _ann_ok(sk, observed):
    bad = []
    for atom in range(sk.n_atoms):
        got = observed.get(atom)
        if atom in sk.ann:
            exp = sk.ann[atom]
            if atom in sk.lenient_ann:
                val = exp['weight']
                if not (isinstance(got, dict) and (got.get('weight') == val or got.get('charge') == val)):
                    bad.append((atom, exp, got))
            elif got is None or dict(got) != exp:
                bad.append((atom, exp, got))
        elif got is not None and any(k != 'weight' or v != 1.0 for k, v in dict(got).items()):
            bad.append((atom, {}, got))
    for atom in observed:
        if not (isinstance(atom, int) and 0 <= atom < sk.n_atoms):
            bad.append((atom, None, observed[atom]))
    return bad


def check_case(case):
    from cgsmiles.read_fragments import strip_bonding_descriptors
    sk = g3.parse(case['sk'])
    text, clean, desc, ann, ez = g3.render(case['sk'], case['ins'])
    nontrivial = bool(case['ins']) or bool(sk.ann)
    r = call(strip_bonding_descriptors, text)
    fails = []
    if r[0] == 'exc':
        fails.append(Failure('strip_bonding_descriptors', 'exception', '%s -> %s: %s' % (text, r[1], r[2]),
                             classify(case, 'exception') + '/' + r[1], text=text))
        return Outcome(text, nontrivial, fails)
    got_text, got_desc, got_ez, got_ann = r[1]
    if got_text != clean:
        fails.append(Failure('strip_bonding_descriptors', 'clean-text',
                             '%s -> clean text %r, expected %r' % (text, got_text, clean),
                             classify(case, 'clean-text'), text=text))
    got_d = {k: sorted(v) for k, v in dict(got_desc).items() if v}
    exp_d = {k: sorted(v) for k, v in desc.items()}
    if got_d != exp_d:
        fails.append(Failure('strip_bonding_descriptors', 'descriptors',
                             '%s -> descriptors %r, expected %r' % (text, dict(got_desc), desc),
                             classify(case, 'descriptors'), text=text))
    bad = _ann_ok(sk, {k: dict(v) for k, v in dict(got_ann).items()})
    if bad:
        fails.append(Failure('strip_bonding_descriptors', 'annotations',
                             '%s -> annotations %r; (atom, expected, got): %r' % (text, {k: dict(v) for k, v in got_ann.items()}, bad),
                             classify(case, 'annotations'), text=text))
    if ez is not None and dict(got_ez) != ez:
        fails.append(Failure('strip_bonding_descriptors', 'ez-marks',
                             '%s -> marks %r, expected %r' % (text, dict(got_ez), ez),
                             classify(case, 'ez-marks'), text=text))
    return Outcome(text, nontrivial, fails)
