"""
C07 — writing a graph and reading it back is the identity.

Bounded tier only for the relational clause (both directions are scanner / serialiser code outside
pyvc's reach, DESIGN §6 C07): run-time postcondition on write_cgsmiles_graph:
    read_cgsmiles(write_cgsmiles_graph(G)) is isomorphic to G (names, bond orders)
over the graph families G5.
"""
import networkx as nx
from vf.bounded import Outcome, Failure
from vf.util import same_graph, call
from gen import g5_graphs

ID = 'C07'
LEVEL = 'exploration'
P_TARGETS = []
BUDGET = {'quick': 30.0, 'thorough': 420.0}
CHUNK = 200
BOUNDS = {
    'quick': {'max_nodes_exhaustive': 4, 'all_order_assignments_up_to_edges': 6, 'orders': [0, 1, 2, 3, 4],
              'relabelings_per_graph': 'identity, reversed, 1 seeded permutation, gapped keys', 'random_graphs': 150,
              'random_graph_nodes': '6..12', 'dense_graphs': 'K6..K8, fans and wheels with 10, 12, 14 nodes (>= 10 ring bonds open at once), 2 variants each'},
    'thorough': {'max_nodes_exhaustive': 6, 'all_order_assignments_up_to_edges': 6, 'orders': [0, 1, 2, 3, 4],
                 'sampled_assignments_above': 60,
                 'relabelings_per_graph': 'identity, reversed, 2 seeded permutations, gapped keys', 'random_graphs': 3000,
                 'random_graph_nodes': '6..12', 'dense_graphs': 'K6..K9, fans and wheels with 10..16 nodes, 5 variants each'},
}
EXHAUSTIVE = {'quick': False, 'thorough': False}
RULE = ('every connected unlabelled graph up to the stated size (networkx atlas) x bond-order assignments from 0..4 '
        '(all of them up to the stated edge count, seeded sample above) x node relabelings x distinct / repeated names, '
        'then seeded random trees with extra ring edges; a case is non-trivial when it has a non-single bond order or a ring edge '
        'or a branch (a node of degree >= 3 or a DFS start of degree >= 2); distinct = distinct (nodes, edges) description')
ASSUMPTIONS = ['networkx.dfs_successors and pysmiles._write_edge_symbol / _get_ring_marker behave as documented (not verified)',
               'isomorphism is decided by networkx.is_isomorphic with node_match on fragname and edge_match on order']


def cases(tier, seed):
    # graphs that need two-digit ring markers first (few and cheap)
    yield from g5_graphs.dense_graph_cases(seed, quick=(tier == 'quick'))
    if tier == 'quick':
        yield from g5_graphs.graph_cases(4, 6, seed, n_samples=0, n_perm=1)
        yield from g5_graphs.graph_cases(5, 4, seed, n_samples=6, n_perm=0, repeated_names=False, min_nodes=5)
        yield from g5_graphs.random_graph_cases(seed, 150)
    else:
        yield from g5_graphs.graph_cases(5, 6, seed, n_samples=60, n_perm=2)
        yield from g5_graphs.graph_cases(6, 4, seed, n_samples=30, n_perm=1, repeated_names=False, min_nodes=6)
        yield from g5_graphs.random_graph_cases(seed, 3000)


def _nontrivial(g):
    return (any(d.get('order', 1) != 1 for _, _, d in g.edges(data=True))
            or g.number_of_edges() >= g.number_of_nodes()
            or any(deg >= 3 for _, deg in g.degree))


def classify(g, text, kind):
    """Narrow failure classes (used only to match entries of known_findings.json)."""
    branch_edge_special = text is not None and any(('(' + s + '[') in text for s in '.=#$')
    if branch_edge_special and kind in ('reader-exception', 'not-isomorphic'):
        return 'write_cgsmiles_graph/bond-symbol-after-branch-open/' + kind
    return 'write_cgsmiles_graph/roundtrip/' + kind


def check_case(case):
    import cgsmiles
    from cgsmiles.write_cgsmiles import write_cgsmiles_graph
    g = g5_graphs.build(case)
    key = repr((sorted(map(tuple, case['nodes']), key=repr), sorted(map(tuple, case['edges']), key=repr)))
    fails = []
    w = call(write_cgsmiles_graph, g)
    if w[0] == 'exc':
        fails.append(Failure('write_cgsmiles_graph', 'writer-exception', w[1] + ': ' + w[2],
                             classify(g, None, 'writer-exception')))
        return Outcome(key, _nontrivial(g), fails)
    text = w[1]
    r = call(cgsmiles.read_cgsmiles, text)
    if r[0] == 'exc':
        fails.append(Failure('read_cgsmiles(write_cgsmiles_graph(G))', 'reader-exception',
                             '%s -> %s: %s' % (text, r[1], r[2]), classify(g, text, 'reader-exception'), text=text))
    elif not same_graph(g, r[1]):
        fails.append(Failure('read_cgsmiles(write_cgsmiles_graph(G))', 'not-isomorphic',
                             '%s reads back as nodes=%s edges=%s' % (text, list(r[1].nodes(data='fragname')),
                                                                     list(r[1].edges(data='order'))),
                             classify(g, text, 'not-isomorphic'), text=text))
    return Outcome(key, _nontrivial(g), fails)
