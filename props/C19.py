"""
C19 — the 2D layout gives every node a finite position at the requested scale.

Bounded tier only (networkx' spring / Kamada-Kawai optimisers, scipy and floating point are outside any contract's
reach, DESIGN section 6 C19).  Run-time postcondition on `cgsmiles.graph_layout.vespr_layout(G, default_bond=b)`
(the function is not re-exported by the package; `cgsmiles.drawing` reaches it through `LAYOUT_METHODS['vespr']`):

  1. the result has exactly one entry per node of G, each a finite 2-vector;
  2. no two bonded nodes coincide (distance > 1e-9 * b — at the requested scale anything closer is one point);
  3. |mean bond length - b| <= 1e-9 * b, the mean taken over the edges of G with math.fsum / math.hypot;

and all three hold for every relabelling of the same graph (integer keys permuted / gapped / negative, strings,
tuples, floats) and every node / edge insertion order.  Positions are NOT compared across relabelings: the statement
promises the three clauses for each labelling, not the same picture.

Inputs: every connected graph with 2..5 (quick) / 2..7 (thorough) nodes from the networkx atlas, chains, stars,
rings, fused rings (hexagonal lattices, bicyclic and cage graphs), seeded random trees with extra ring edges,
resolved molecules with explicit hydrogens (gen/coords_mols.py) including molecules with `/`, `\\` stereo bonds,
whose 'ez_isomer' annotations drive check_and_fix_cis_trans; bond lengths 0.5, 1, 1.54, 10; layout RNG seeds.

Scope decisions:
* single-node graphs, graphs without edges and disconnected graphs are outside the statement: not generated
  (a string that does not resolve to a connected molecule is skipped).
* node keys of one graph are of one type, so they are mutually comparable (check_and_fix_cis_trans orders two
  node keys with `<`; the statement says "labelled", it does not promise mixed-type keys).
* the layout draws its start positions from numpy's global RNG (networkx `seed=None`); `numpy.random.seed(rng)` with the
  case's own number is called before every layout, so a case is reproducible.  `align_with` is left at None.
* an exception from vespr_layout on an in-scope graph is a failure: the statement says the layout returns.
"""
import logging
import math
import os

# 16 worker processes x one BLAS thread pool per process = heavy oversubscription (measured: a 14 ms layout takes
# 340 ms on a loaded machine); the checks only do small-array arithmetic. Must happen before numpy is first imported.
for _v in ('OPENBLAS_NUM_THREADS', 'OMP_NUM_THREADS', 'MKL_NUM_THREADS'):
    os.environ.setdefault(_v, '1')

import networkx as nx
import numpy as np

from vf.bounded import Outcome, Failure
from gen import coords_mols as cm
from gen import g5_graphs

ID = 'C19'
LEVEL = 'exploration'
P_TARGETS = []
BUDGET = {'quick': 30.0, 'thorough': 420.0}
CHUNK = 10
BONDS = [0.5, 1, 1.54, 10]
BOUNDS = {
    'quick': {'atlas': 'all 30 connected graphs with 2..5 nodes x 4 bond lengths x 7 labelings x 2 RNG seeds; '
                       'all 112 connected graphs with 6 nodes x 2 bond lengths x 2 labelings',
              'families': 'chains 2..12,16,20,30; stars 3..8,12 leaves; rings 3..12,16,20; 12 fused / cage graphs; x 4 bond lengths x 3 labelings',
              'random_graphs': '80 trees with 6..12 nodes and 0..3 extra edges x 2 labelings',
              'molecules': 'fixed list + 11 E/Z molecules (x 6 labelings x 2 bond lengths), single fragments, homopolymers n=3, '
                           '40 seeded random assemblies (x 2 labelings)',
              'bond_lengths': BONDS, 'max_nodes': '53 (molecules), 30 (chains)', 'distinct_molecule_strings': 151},
    'thorough': {'atlas': 'all 142 connected graphs with 2..6 nodes x 4 bond lengths x 9 labelings x 3 RNG seeds; '
                          'all 853 connected graphs with 7 nodes x 4 bond lengths x 3 labelings',
                 'families': 'chains 2..12,16,20,30,50,80; stars 3..8,12,20 leaves; rings 3..12,16,20,30; 12 fused / cage graphs; '
                             'x 4 bond lengths x 9 labelings x 3 RNG seeds',
                 'random_graphs': '2000 trees with 6..12 nodes and 0..3 extra edges x 3 labelings',
                 'molecules': 'fixed list + 11 E/Z molecules (x 9 labelings x 4 bond lengths x 3 seeds), single fragments, ordered pairs, '
                              'homopolymers n=3,5, 600 seeded random assemblies (x 4 labelings x 2 bond lengths)',
                 'bond_lengths': BONDS, 'max_nodes': '76 (molecules), 80 (chains)', 'distinct_molecule_strings': 817},
}
EXHAUSTIVE = {'quick': False, 'thorough': False}
RULE = ('graphs: networkx atlas (every connected graph up to the stated size), chains, stars, rings, fused rings and cages, seeded random '
        'trees with extra ring edges, and molecules resolved by the real resolver from gen/coords_mols.py strings (explicit hydrogens; E/Z '
        'molecules carry ez_isomer annotations); each x requested bond length x relabelling (integer keys same / permuted / gapped / negative, '
        'strings, tuples, floats) x node and edge insertion order (same / reversed / shuffled / sorted) x numpy RNG seed. '
        'Non-trivial: the graph has at least two bonds (the mean is a genuine mean and the layout is not a single segment). '
        'Distinct = distinct (graph or string, labelling, bond length, RNG seed).')
ASSUMPTIONS = [
    'networkx.fruchterman_reingold_layout / kamada_kawai_layout / shortest_path_length and scipy behave as documented; their '
    'optimisers and floating point are not verified, only the result of each call is checked',
    'numpy.random.seed makes fruchterman_reingold_layout(seed=None) reproducible',
    'the resolver output for the generated strings is the molecule under test (resolver correctness is C01..C12)',
    'the mean bond length is recomputed independently with math.hypot / math.fsum; 1e-9 relative tolerance',
]


def init_worker():
    logging.getLogger('pysmiles').setLevel(logging.ERROR)


# ---------------------------------------------------------------------------------------------- labelings
def _lab(keys, order, seed=0):
    return {'keys': keys, 'order': order, 'seed': seed}


LABELS = [_lab('same', 'same'), _lab('str', 'shuffle', 1), _lab('tuple', 'rev', 2), _lab('perm', 'shuffle', 3),
          _lab('gap', 'sorted', 4), _lab('float', 'shuffle', 5), _lab('neg', 'rev', 6), _lab('str', 'same', 0),
          _lab('tuple', 'shuffle', 7)]


# ---------------------------------------------------------------------------------------------- graph families
def _as_case_edges(g):
    nodes = sorted(g.nodes, key=repr)
    idx = {n: i for i, n in enumerate(nodes)}
    return len(nodes), sorted([sorted((idx[u], idx[v])) for u, v in g.edges])


def _fused():
    out = []
    for name, g in [('naphthalene', nx.hexagonal_lattice_graph(1, 2)), ('anthracene', nx.hexagonal_lattice_graph(1, 3)),
                    ('tetracene', nx.hexagonal_lattice_graph(1, 4)), ('pyrene-like', nx.hexagonal_lattice_graph(2, 2)),
                    ('coronene-like', nx.hexagonal_lattice_graph(3, 3)), ('cubane', nx.cubical_graph()),
                    ('ladder4', nx.ladder_graph(4)), ('prism', nx.circular_ladder_graph(3)),
                    ('bicyclo', nx.Graph([(0, 1), (1, 2), (2, 3), (3, 4), (4, 5), (5, 0), (0, 6), (6, 3)])),
                    ('indane', nx.Graph([(0, 1), (1, 2), (2, 3), (3, 4), (4, 5), (5, 0), (0, 6), (6, 7), (7, 8), (8, 5)])),
                    ('spiro', nx.Graph([(0, 1), (1, 2), (2, 3), (3, 4), (4, 0), (0, 5), (5, 6), (6, 7), (7, 8), (8, 0)])),
                    ('lollipop', nx.lollipop_graph(4, 5))]:
        out.append((name, g))
    return out


def _families(tier):
    quick = tier == 'quick'
    for n in list(range(2, 13)) + [16, 20, 30] + ([] if quick else [50, 80]):
        yield 'chain', nx.path_graph(n)
    for n in [3, 4, 5, 6, 7, 8, 12] + ([] if quick else [20]):
        yield 'star', nx.star_graph(n)
    for n in list(range(3, 13)) + [16, 20] + ([] if quick else [30]):
        yield 'ring', nx.cycle_graph(n)
    for name, g in _fused():
        yield 'fused', g


def _graph_case(family, g, lab, bond, rng):
    n, edges = _as_case_edges(g)
    return {'kind': 'graph', 'family': family, 'n': n, 'edges': edges, 'label': lab, 'bond': bond, 'rng': rng}


def cases(tier, seed):
    # every sixth case additionally asks for an alignment (align_with), in turn with the x axis, the diagonal and the y axis
    for i, c in enumerate(_cases(tier, seed)):
        if i % 6 == 5:
            c = dict(c, align=[[1.0, 0.0], [1.0, 1.0], [0.0, 1.0]][(i // 6) % 3])
        yield c


def _cases(tier, seed):
    quick = tier == 'quick'
    base = (seed * 1000003 + 12345) % (2 ** 31)
    counter = [0]

    def rng():
        counter[0] += 1
        return (base + 7919 * counter[0]) % (2 ** 32 - 1)

    nlab = 7 if quick else 9
    nseed = 2 if quick else 3
    mols = list(cm.FIXED) + list(cm.STEREO)

    def mol_block(strings):
        for i, s in enumerate(strings):
            labs = LABELS[:6] if quick else LABELS
            bonds = [BONDS[i % 4], BONDS[(i + 2) % 4]] if quick else BONDS
            for lab in labs:
                for bond in bonds:
                    for _ in range(1 if quick else 3):
                        yield {'kind': 'mol', 'cgs': s, 'label': lab, 'bond': bond, 'rng': rng()}
    # 1. E/Z molecules first: few, and the only inputs that reach check_and_fix_cis_trans
    yield from mol_block(cm.STEREO)
    # 2. atlas, small: full cross product
    for g in g5_graphs.connected_graphs(5 if quick else 6, 2):
        for bond in BONDS:
            for lab in LABELS[:nlab]:
                for _ in range(nseed):
                    yield _graph_case('atlas', g, lab, bond, rng())
    # 2b. the hand-written molecules (hydrogens, rings of beads, shared atoms)
    yield from mol_block(cm.FIXED)
    # 3. families
    for k, (fam, g) in enumerate(_families(tier)):
        for bond in BONDS:
            labs = [LABELS[0], LABELS[1 + k % 2], LABELS[3 + k % 4]] if quick else LABELS
            for lab in labs:
                for _ in range(1 if quick else 3):
                    yield _graph_case(fam, g, lab, bond, rng())
    # 4. atlas, next size
    for k, g in enumerate(g5_graphs.connected_graphs(6 if quick else 7, 6 if quick else 7)):
        bonds = [BONDS[k % 4], BONDS[(k + 1) % 4]] if quick else BONDS
        labs = [LABELS[k % 3], LABELS[3 + k % 4]] if quick else [LABELS[0], LABELS[1 + k % 2], LABELS[3 + k % 4]]
        for bond in bonds:
            for lab in labs:
                yield _graph_case('atlas', g, lab, bond, rng())
    # 5. more molecules
    rest = [s for s in cm.cgsmiles_strings(seed, 40 if quick else 600, weights=False, pairs='none' if quick else 'some',
                                           stereo=False, max_beads=6 if quick else 8) if s not in set(mols)]
    for k, s in enumerate(rest):
        labs = [LABELS[k % 2], LABELS[2 + k % 5]] if quick else [LABELS[0], LABELS[1 + k % 2], LABELS[3 + k % 3], LABELS[6 + k % 3]]
        bonds = [BONDS[k % 4]] if quick else [BONDS[k % 4], BONDS[(k + 2) % 4]]
        for lab in labs:
            for bond in bonds:
                yield {'kind': 'mol', 'cgs': s, 'label': lab, 'bond': bond, 'rng': rng()}
    # 6. seeded random trees with ring edges
    for k, c in enumerate(g5_graphs.random_graph_cases(seed, 80 if quick else 2000)):
        g = nx.Graph([(u, v) for u, v, _ in c['edges']])
        g.add_nodes_from(key for key, _ in c['nodes'])
        labs = [LABELS[k % 2], LABELS[2 + k % 5]] if quick else [LABELS[0], LABELS[1 + k % 2], LABELS[3 + k % 6]]
        for lab in labs:
            yield _graph_case('random', g, lab, BONDS[k % 4], rng())


# ---------------------------------------------------------------------------------------------- the check
_CACHE = {}


def _resolve(s):
    if s not in _CACHE:
        if len(_CACHE) > 64:
            _CACHE.clear()
        from cgsmiles import MoleculeResolver
        try:
            _, aa = MoleculeResolver.from_string(s).resolve_all()
        except Exception as e:
            aa = '%s: %s' % (type(e).__name__, str(e)[:100])
        _CACHE[s] = aa
    return _CACHE[s]


def _build(case):
    if case['kind'] == 'graph':
        g = nx.Graph()
        g.add_nodes_from(range(case['n']))
        for u, v in case['edges']:
            g.add_edge(u, v, order=1)
        return g, None
    aa = _resolve(case['cgs'])
    if isinstance(aa, str):
        return None, aa
    return aa, None


def _key_type(G):
    types = sorted({type(n).__name__ for n in G.nodes})
    if types == ['int']:
        return 'int-keys' if list(G.nodes) == list(range(len(G))) else 'int-keys-relabelled'
    return '+'.join(types) + '-keys'


def classify(case, G, kind):
    fam = case.get('family', 'molecule')
    if case['kind'] == 'mol':
        fam = 'molecule-ez' if any('ez_isomer' in d for _, d in G.nodes(data=True)) else 'molecule'
    return 'vespr_layout/%s/%s/%s' % (fam, _key_type(G), kind)


def check_case(case):
    import cgsmiles  # noqa: F401
    from cgsmiles.graph_layout import vespr_layout
    key = repr(sorted(case.items(), key=lambda kv: kv[0]))
    g0, err = _build(case)
    if g0 is None or len(g0) < 2 or g0.number_of_edges() < 1 or not nx.is_connected(g0):
        return Outcome(key, False, [], skipped=True, note=err or 'outside the statement: not a connected graph with a bond')
    G, _ = cm.relabel(g0, case['label'])
    b = float(case['bond'])
    nontrivial = G.number_of_edges() >= 2
    fails = []
    np.random.seed(int(case['rng']) % (2 ** 32 - 1))
    try:
        if case.get('align'):
            # the optional alignment of the longest axis is a rotation: everything the statement says still applies
            pos = vespr_layout(G, default_bond=case['bond'], align_with=np.array(case['align'], dtype=float))
        else:
            pos = vespr_layout(G, default_bond=case['bond'])
    except Exception as e:
        import traceback
        fails.append(Failure('vespr_layout', 'exception', '%s: %s | %s' % (type(e).__name__, e, traceback.format_exc()[-400:]),
                             classify(case, G, 'exception-' + type(e).__name__)))
        return Outcome(key, nontrivial, fails)
    # 1. one finite 2-vector per node
    try:
        keys = list(pos.keys())
    except Exception:
        fails.append(Failure('vespr_layout', 'not-a-mapping', repr(type(pos)), classify(case, G, 'not-a-mapping')))
        return Outcome(key, nontrivial, fails)
    if len(keys) != len(G) or set(keys) != set(G.nodes):
        fails.append(Failure('vespr_layout', 'node-set-mismatch', 'graph nodes %s, position keys %s' % (list(G.nodes)[:10], keys[:10]),
                             classify(case, G, 'node-set-mismatch')))
        return Outcome(key, nontrivial, fails)
    P = {}
    bad = []
    for n in G.nodes:
        try:
            p = np.asarray(pos[n], dtype=float)
        except Exception:
            p = None
        if p is None or p.shape != (2,) or not np.all(np.isfinite(p)):
            bad.append((n, repr(pos[n])[:40]))
        else:
            P[n] = (float(p[0]), float(p[1]))
    if bad:
        fails.append(Failure('vespr_layout', 'position-not-finite-2d', '%d of %d nodes, e.g. %s' % (len(bad), len(G), bad[:3]),
                             classify(case, G, 'position-not-finite-2d')))
        return Outcome(key, nontrivial, fails)
    # 2. bonded nodes distinct, 3. mean bond length
    lengths = [math.hypot(P[u][0] - P[v][0], P[u][1] - P[v][1]) for u, v in G.edges]
    close = [(u, v, d) for (u, v), d in zip(G.edges, lengths) if not d > 1e-9 * b]
    if close:
        fails.append(Failure('vespr_layout', 'bonded-nodes-coincide', '%d bonds, e.g. %s' % (len(close), close[:3]),
                             classify(case, G, 'bonded-nodes-coincide')))
    mean = math.fsum(lengths) / len(lengths)
    if not abs(mean - b) <= 1e-9 * b:
        fails.append(Failure('vespr_layout', 'mean-bond-length-off',
                             'requested %r, mean over %d bonds is %.12g (relative error %.3g)' % (case['bond'], len(lengths), mean, abs(mean - b) / b),
                             classify(case, G, 'mean-bond-length-off')))
    return Outcome(key, nontrivial, fails)
