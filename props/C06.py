"""
C06 - layered resolutions compose.

Bounded tier.  A layered case (gen/gr_resolver_inputs.layered_cases) is built from ONE description: a two-level
string `{base}.{bottom fragments}` whose bottom fragments are written with an own label pair per unit of bond order
(so the molecule it denotes does not depend on search order), and a hierarchical grouping of the base-graph nodes
into 1..3 intermediate levels of coarse fragments: every edge crossing two groups gets a fresh label pair written
with the crossing edge's order, the quotient edge's order is the number of crossing edges.  Both strings therefore
denote the same molecule by construction.  Checked on every case:

  (1) the molecule after the last step is isomorphic (element + charge, or atomname for a coarse last level; bond
      orders; hydrogens included) to the molecule of the flat two-level string; the fine graph of the step before the
      last is isomorphic (atomname, orders) to the flat string's base graph as constructed; for typed-in strings and
      regular polymers (unlabelled `>`/`<`/`$`, repeated names) the comparison is made only when both resolutions
      spent every unit of base-graph order on a bond - otherwise the first-match search, whose order the statement
      leaves open, decides what the strings denote;
  (2) each step's coarse graph is the previous step's fine graph: same node keys, same edges and orders, and
      fragname(n) == previous atomname(n);
  (3) the mapping (C02) and bonding (C03) guarantees hold at every step (specs/resolver_spec);
  (4) `resolve()` repeated, `resolve_iter()` and `resolve_all()` give identical canonical dumps of every pair they
      return (coarse graph, fine graph, membership graphs).

Typed-in strings: the docs' mPEG pair (two- and three-level, claimed equivalent), the docs' four-level example and the
class docstring example (no flat counterpart: clauses 2-4 only), the two `!`-free strings of test_layering.py whose
references the test computes but never asserts (its first string has a typo `[#A2c)`, written `[#A2c]` here; flat
strings derived by replacing the first level by hand), regular polymers with repeated intermediate fragment names.

Two further families, each built from one description as well (gen/gr_resolver_inputs):
  * layered_reuse_cases: the groups of an intermediate level are called like their first member, so one fragment NAME is
    defined on two or three levels (a bead that keeps its name while it is refined; a bead handed through a level
    unchanged, `#W=[<][#W]`); typed-in strings of the same kind.  Each level's fragment block is a table of its own
    (the string writes one `{...}` per level).
  * layered_shared_cases: `!` on two consecutive levels - a chain of 3..5 beads whose neighbours share an end atom or are
    bonded, covered by segments that share their boundary bead or are disjoint; the flat string is the bead chain with
    the same bottom fragments (every `!` / `<>` pair has a label of its own, no aromatic atoms).  Clause (3) is reduced
    to the membership clause for these (copies and bonds of `!` inputs: C02's shared family, C10).

Scope decisions: legacy=True only (with labels ignored the grouped and the flat string may legitimately pair
different atoms); `!` only in the family above; no virtual nodes inside groups; crossing edges have order >= 1 (an order-0 descriptor is
F3 / C13 territory); at most 3 crossing edges between two groups.
"""
import logging
import networkx as nx
from vf.bounded import Outcome, Failure
from gen import gr_resolver_inputs as gr
from specs import resolver_spec as rs

ID = 'C06'
LEVEL = 'other'
P_TARGETS = ['cgsmiles.resolve:MoleculeResolver.resolve', 'cgsmiles.resolve:MoleculeResolver.resolve_disconnected_molecule',
             'cgsmiles.resolve:MoleculeResolver.edges_from_bonding_descrpt', 'cgsmiles.resolve:MoleculeResolver.squash_atoms',
             'cgsmiles.graph_utils:annotate_fragments', 'cgsmiles.resolve:MoleculeResolver.read_fragment_strings',
             'cgsmiles.resolve:MoleculeResolver.__init__']
BUDGET = {'quick': 30.0, 'thorough': 400.0}
CHUNK = 20
BOUNDS = {
    'quick': {'flat_base_graphs': 'all connected graphs with 2..4 nodes, all single + first two edges in turn order 2', 'repeats_per_cell': 2,
              'intermediate_levels': '1..2 (exhaustive part), 1..3 (random part)', 'group_size': '<= 3 (first level), <= 2 (above)',
              'last_level': ['all-atom', 'coarse'], 'typed_in': 7, 'regular_polymers': '3 fragment sets x (2x2, 3x2, 2x3) (+ second grouping)',
              'random': '60 trees with 4..9 nodes',
              'reused_names': '5 typed-in + graphs 2..4 nodes x 2 groupings x all-atom/coarse',
              'shared_on_two_levels': 'bead chains 3..5 x groupings with a shared bead x bottom links with a shared atom x 3 bead-size variants (thinned for 4, 5 beads)'},
    'thorough': {'flat_base_graphs': 'all connected graphs with 2..5 nodes, same order variants', 'repeats_per_cell': 4,
                 'intermediate_levels': '1..3', 'group_size': '<= 3 / <= 2', 'last_level': ['all-atom', 'coarse'], 'typed_in': 7,
                 'regular_polymers': '3 fragment sets x 6 shapes', 'random': '3000 trees with 4..9 nodes',
                 'reused_names': '5 typed-in + graphs 2..5 nodes x 4 groupings', 'shared_on_two_levels': 'bead chains 3..5, every grouping x every link assignment (5 beads: one size variant)'},
}
EXHAUSTIVE = {'quick': False, 'thorough': False}
RULE = ('flat two-level description (atlas graph x order variant x unique-label bottom fragments, all-atom or coarse) x seeded '
        'connected partition into groups (per level), also with group names = member names; bead chains with `!` on two levels; exhaustive part seeded by the cell; a case is non-trivial when it has >= 2 '
        'fragment levels and at least one intermediate fragment with >= 2 nodes or >= 2 crossing edges; distinct = distinct layered string')
ASSUMPTIONS = ['cgsmiles.read_fragments / read_cgsmiles read fragment and base text as intended (C13, C04/C05; base strings are cross-checked per case)',
               'the flat two-level resolution is the reference molecule (its own correctness is C01/C02/C03)',
               'isomorphism decided by networkx.is_isomorphic']


def init_worker():
    logging.getLogger('pysmiles').setLevel(logging.ERROR)
    logging.getLogger('cgsmiles').setLevel(logging.ERROR)


def cases(tier, seed):
    # small seed-independent families first: fragment names defined on several levels, `!` on two consecutive levels
    yield from gr.layered_reuse_cases(tier)
    yield from gr.layered_shared_cases(tier)
    yield from gr.layered_cases(tier, seed)


def classify(case, clause):
    return 'resolve_iter/%s/%s' % ('all-atom' if case['all_atom'] else 'coarse', clause)


def _snapshot(fine):
    return {'keys': list(fine.nodes), 'atomname': {n: fine.nodes[n].get('atomname') for n in fine.nodes},
            'edges': {frozenset(e): fine.edges[e].get('order') for e in fine.edges}}


def _iso(g, h, all_atom):
    if all_atom:
        nm = lambda a, b: a.get('element') == b.get('element') and (a.get('charge') or 0) == (b.get('charge') or 0)   # noqa
    else:
        nm = lambda a, b: a.get('atomname') == b.get('atomname')   # noqa
    if g.number_of_nodes() != h.number_of_nodes() or g.number_of_edges() != h.number_of_edges():
        return False
    return nx.is_isomorphic(g, h, node_match=nm, edge_match=lambda a, b: a.get('order') == b.get('order'))


def _fully_bonded(coarse, fine):
    want = sum(o for u, v, o in coarse.edges(data='order') if o and rs.members(fine, u) and rs.members(fine, v))
    return want == sum(1 for _, _, d in fine.edges(data=True) if 'bonding' in d)


def check_case(case):
    import cgsmiles
    key = repr((gr.full_string(case), case['all_atom']))
    flat = case.get('flat')
    flat_case = None
    if flat:
        flat_case = dict(case, base=flat['base'], base_str=flat['base_str'], blocks=flat['blocks'])
    for c in (case, flat_case):
        if c is not None and not gr.reader_agrees(cgsmiles, c):
            return Outcome(key, False, [], skipped=True, note='base string not read as intended (C04/C05)')
    nlev = len(case['blocks'])
    fails = []

    def fail(clause, detail):
        fails.append(Failure('MoleculeResolver.resolve_iter', clause, '%s: %s' % (gr.full_string(case), detail), classify(case, clause)))
    try:
        templates = gr.read_templates(cgsmiles, case)
        # --- driver A: resolve_iter, with the per-step guarantees
        dumps_a, prev, final_a, before_last, last_coarse = [], None, None, None, None
        multi_node_fragment = False
        for step, (coarse, fine) in enumerate(gr.make_resolver(cgsmiles, case).resolve_iter()):
            all_atom = case['all_atom'] and step == nlev - 1
            if prev is not None:
                if list(coarse.nodes) != prev['keys']:
                    fail('chain-keys', 'step %d: coarse node keys %s, previous fine keys %s' % (step, list(coarse.nodes)[:30], prev['keys'][:30]))
                else:
                    bad = [n for n in coarse.nodes if coarse.nodes[n].get('fragname') != prev['atomname'][n]]
                    if bad:
                        fail('chain-names', 'step %d: coarse fragname of %s is %s, previous atomname %s' % (
                            step, bad[:5], [coarse.nodes[n].get('fragname') for n in bad[:5]], [prev['atomname'][n] for n in bad[:5]]))
                    edges = {frozenset(e): coarse.edges[e].get('order') for e in coarse.edges}
                    if edges != prev['edges']:
                        fail('chain-edges', 'step %d: coarse edges differ from the previous fine graph' % step)
            base = gr.intended_graph(case['base']) if (step == 0 and case.get('base')) else coarse
            if 'shared' in case['tags']:
                # with shared atoms only the membership clause is demanded here (copies / bonds of `!` inputs: C02's shared family, C10)
                guarantees = rs.check_membership(coarse, fine, shared_atoms=True)
            else:
                guarantees = rs.check_membership(coarse, fine) + rs.check_copies(coarse, fine, templates[step], all_atom) \
                    + rs.check_bonds(base, fine, templates[step], case['legacy'], all_atom)
            for clause, detail in guarantees:
                fail('step-guarantee-' + clause, 'step %d: %s' % (step, detail))
            if step < nlev - 1 and any(t.number_of_nodes() >= 2 for t in templates[step].values()):
                multi_node_fragment = True
            dumps_a.append(rs.pair_dump(coarse, fine))
            prev = _snapshot(fine)
            if step == nlev - 2:
                before_last = fine.copy()
            final_a, last_coarse = fine, coarse
        if len(dumps_a) != nlev:
            fail('number-of-steps', 'resolve_iter yielded %d pairs for %d fragment levels' % (len(dumps_a), nlev))
        # --- driver B: resolve() repeated
        rb = gr.make_resolver(cgsmiles, case)
        dumps_b = []
        for _ in range(nlev):
            cb, fb = rb.resolve()
            dumps_b.append(rs.pair_dump(cb, fb))
        # --- driver C: resolve_all()
        cc, fc = gr.make_resolver(cgsmiles, case).resolve_all()
        dump_c = rs.pair_dump(cc, fc)
        if dumps_a != dumps_b:
            i = next((i for i, (a, b) in enumerate(zip(dumps_a, dumps_b)) if a != b), min(len(dumps_a), len(dumps_b)))
            fail('drivers-disagree', 'resolve() repeated and resolve_iter() differ at step %d' % i)
        if dumps_a and dump_c != dumps_a[-1]:
            fail('drivers-disagree', 'resolve_all() differs from the last pair of resolve_iter()')
        # --- the flat string
        if flat_case is not None:
            flat_coarse, flat_fine = gr.make_resolver(cgsmiles, flat_case).resolve_all()
            # typed-in strings and regular polymers use unlabelled / repeated descriptors: when the first-match search
            # leaves a unit of order without a bond in either string, the two are not known to denote the same molecule
            comparable = case['design'] == 'layered' and 'repeated-names' not in case['tags'] or case.get('same_molecule') or \
                (_fully_bonded(last_coarse, final_a) and _fully_bonded(flat_coarse, flat_fine))
            if comparable and not _iso(final_a, flat_fine, case['all_atom']):
                fail('not-isomorphic-to-flat', 'layered result (%d nodes, %d edges) vs flat %s (%d nodes, %d edges)' % (
                    final_a.number_of_nodes(), final_a.number_of_edges(), gr.full_string(flat_case),
                    flat_fine.number_of_nodes(), flat_fine.number_of_edges()))
            if flat.get('base') and before_last is not None:
                fb = nx.Graph()
                for k, nm in flat['base']['nodes']:
                    fb.add_node(k, atomname=nm)
                for u, v, o in flat['base']['edges']:
                    fb.add_edge(u, v, order=o)
                if not _iso(before_last, fb, False):
                    fail('intermediate-not-the-flat-base', 'fine graph before the last step: nodes %s edges %s; constructed: %s' % (
                        list(before_last.nodes(data='atomname'))[:20], list(before_last.edges(data='order'))[:20], flat['base']))
    except Exception as e:      # noqa
        if not case.get('valid'):
            return Outcome(key, False, [], skipped=True, note='%s: %s' % (type(e).__name__, e))
        fails.append(Failure('MoleculeResolver.resolve_iter', 'exception', '%s: %s: %s' % (gr.full_string(case), type(e).__name__, str(e)[:300]),
                             'resolve_iter/exception/%s' % type(e).__name__))
        return Outcome(key, True, fails)
    seen, uniq = set(), []
    for f in fails:
        if f['kind'] not in seen:
            seen.add(f['kind'])
            uniq.append(f)
    return Outcome(key, nlev >= 2 and multi_node_fragment, uniq)
