"""
C10 - shared atoms: the squash operator `!` merges exactly the two marked atoms.

Bounded tier (DESIGN 6, C10 clause B).  A G2 molecule M is partitioned; any subset of its cut bonds is replaced by
*sharing one end atom*: for a cut bond x-y the fragment of y receives a copy x' of x (bonded to y with the bond's
order), x' and x both carry one `[!L]` with a label of their own, the base-graph edge counts the pair as one unit of
order.  Run-time postcondition on MoleculeResolver.resolve() for the overlapping description O(M):

  (a) heavy(resolve(O(M))) is isomorphic to M by construction (element, charge, bond order, hydrogens from the
      independent valence table) - so nothing but the marked atoms is merged and no bond of either fragment is lost;
  (b) resolve(O(M)) is isomorphic to resolve(D(M)), D = the disjoint description of the same partition and rendering
      (metamorphic, as the property states);
  (c) the fine graph has exactly one heavy atom fewer per shared pair than the fragments contain together
      (when three or more copies of one atom are marked pairwise - the "triangle" - the redundant pairs identify
      atoms that are already one, so the count is one fewer per *copy*; stated here because the property text
      counts pairs of distinct atoms);
  (d) under the isomorphism of (a) every atom's `fragid`, as a set, is exactly the set of coarse nodes whose
      fragment contains it: more than one entry exactly on shared atoms; coarse.nodes[k]['graph'] holds exactly the
      fine nodes whose fragid contains k;
  (e) hydrogens: C09's per-atom check (specs.valence.check_valence) - a hydrogen of a shared atom carries the
      shared atom's membership.

Family 'ML' (two levels of `!` in ONE resolver, blocks . beads . atoms): the bead graph that an overlapping atom-level
description O(M) defines is itself cut into blocks, bead-level cuts are replaced by shared beads (`#X1=[#A][#B][!A],
#X2=[!A][#B][#D]`), and MoleculeResolver.resolve_iter() resolves both levels.  Level 1 must give every bead once with the
blocks that list it as fragid and the bead graph of O(M); level 2 must satisfy (a), (c), (d), (e) above (membership read
through the unique bead names), leave no `!` pair behind as a bond, and give the same molecule as the one-level description
with the same atom-level fragments (fresh resolver) and as the three-level description without any `!` (metamorphic (b)).
Aliphatic tree molecules only, every bead-graph / block-graph edge of order 1, blocks are trees of beads.

Scope decisions: molecules, renderings and base graphs as in C01 (see props/C01.py); a second cut bond between a shared
atom and the fragment that already holds its copy becomes a bond of that same copy (one copy of an atom per fragment);
ordinary descriptors of a shared atom stay on the original atom.  Cases whose base-graph text is not read as
intended by read_cgsmiles are skipped (C04's subject).
"""
import itertools
import logging
import random

from vf.bounded import Outcome, Failure
from vf.util import call
from gen import g2_molecules as g2
from specs import chem_checks as cc
from specs.valence import check_valence
from props import C01 as base

ID = 'C10'
LEVEL = 'other'
P_TARGETS = ['cgsmiles.resolve:compatible', 'cgsmiles.resolve:MoleculeResolver.squash_atoms']
BUDGET = {'quick': 33.0, 'thorough': 420.0}
CHUNK = 50
BOUNDS = {
    'quick': {
        'familyML': 'OCCN cut into 3 or 4 beads in every way x every share assignment of the atom-level cuts x every 2nd (3 beads) / 12th (4 beads) '
                    'of {partition of the bead tree into >= 2 blocks x share assignment of the bead-level cuts, >= 1 shared}; 9 further '
                    'aliphatic molecules with 5-7 heavy atoms, 3-4 beads: seeded 8 % sample, one level-1 description each (565 cases at seed 0)',
        'blockA': 'carbon skeletons and 14 ring / hetero probes <= 4 heavy atoms + every C N O molecule <= 3 heavy atoms; every '
                  'partition with a cut; every assignment {ordinary, share end 0, share end 1} to the cut bonds (at least one '
                  'shared); with and without the pairwise "triangle" marking when an atom is copied into >= 2 fragments; '
                  '2 renderings; base-graph node orders: all for carbon-only molecules <= 3 atoms, two per assignment for the others, one for 4-atom molecules',
        'blockB': '43 library molecules (aromatic, charged, fused rings) x 6 seeded partitions x 3 seeded share subsets',
        'blockC': 'ladder molecules (2-4 bonds between two fragments, some double): every sixth assignment with >= 2 shared atoms',
        'thinning': 'molecules with 4 heavy atoms: one rendering and one base-graph order per share assignment',
        'shared_pairs_per_case': '1..6'},
    'thorough': {
        'familyML': '10 aliphatic molecules (4-7 heavy atoms) cut into 3-5 beads in every way x every atom-level share assignment x '
                    '{every level-1 description for OCCN; for the others a seeded half of the share assignments with 2 seeded level-1 descriptions each}',
        'blockA': 'as quick plus every C N O Cl [N+] [O-] molecule with <= 3 and every C N O molecule with 4 heavy atoms; 3 renderings up to 3 atoms, 2 for 4 atoms',
        'blockB': '43 library molecules x 30 seeded partitions x 6 seeded share subsets',
        'blockC': 'ladder molecules (2-4 bonds between two fragments, some double): every assignment with >= 2 shared atoms',
        'shared_pairs_per_case': '1..8'},
}
EXHAUSTIVE = {'quick': False, 'thorough': False}
RULE = ('family ML first (see docstring: the same construction applied twice, atoms -> beads -> blocks), then '
        'molecule x partition x subset of cut bonds replaced by a shared atom (which end is copied) x triangle marking x rendering '
        'x base-graph node order; exhaustive blocks are independent of the seed; every case is non-trivial (it contains at least '
        'one `!` pair that has to be contracted); distinct = distinct CGsmiles text')
ASSUMPTIONS = base.ASSUMPTIONS + ['networkx.contracted_nodes is not verified']


def share_assignments(mol, part):
    cuts = [bi for bi, (u, v, o) in enumerate(mol['b']) if part[u] != part[v]]
    for combo in itertools.product((None, 0, 1), repeat=len(cuts)):
        shares = [[bi, e] for bi, e in zip(cuts, combo) if e is not None]
        if shares:
            yield shares


def multi_copied(mol, part, shares):
    """True when some atom is copied into two or more other fragments (triangle marking possible)."""
    tgt = {}
    for bi, e in shares:
        u, v, _ = mol['b'][bi]
        x, y = (u, v) if e == 0 else (v, u)
        tgt.setdefault(x, set()).add(part[y])
    return any(len(t) >= 2 for t in tgt.values())


def _orders(nf, rng):
    if nf <= 3:
        return [list(p) for p in itertools.permutations(range(nf))]
    return [list(range(nf)), list(range(nf))[::-1]]


def _blockA_mols(tier):
    mols = []
    for n in (2, 3, 4):
        mols += g2.small_molecules(n, g2.ALPHA_C)
    mols += [g2.parse_smiles(s) for s in base.PROBES]
    for n in (2, 3):
        mols += [m for m in g2.small_molecules(n, g2.ALPHA_CNO) if any(a[0] != 'C' for a in m['a'])]
    if tier == 'thorough':
        for n in (2, 3):
            mols += [m for m in g2.small_molecules(n, g2.ALPHA_MID) if any(a[0] not in 'CNO' or a[1] for a in m['a'])]
        mols += [m for m in g2.small_molecules(4, g2.ALPHA_CNO) if any(a[0] != 'C' for a in m['a'])]
    return [m for m in mols if base._valid(m)]


def _block_a(mols, rng, n_rend, quick):
    for mol in mols:
        for part in g2.connected_partitions(mol):
            nf = max(part) + 1
            if nf < 2:
                continue
            for shares in share_assignments(mol, part):
                tris = [False, True] if multi_copied(mol, part, shares) else [False]
                for tri in tris:
                    k = n_rend if len(mol['a']) <= 3 else (1 if quick else 2)
                    rends = ([{'starts': [0] * nf}] if (k > 1 or len(shares) % 2) else []) \
                        + list(g2.covering_renderings(mol, part, max(k - 1, 0 if len(shares) % 2 else 1), rng))
                    for i, r in enumerate(rends):
                        orders = _orders(nf, rng)
                        if not (i == 0 and len(mol['a']) <= 3 and (not quick or all(a[0] == 'C' for a in mol['a']))):
                            j = (i + len(shares) + len(mol['b'])) % len(orders)
                            orders = [orders[j]] if (i or len(mol['a']) > 3) else [orders[j], orders[(j + 3) % len(orders)]]
                        for o in orders:
                            rr = dict(r)
                            rr['base'] = o
                            rr['ctor'] = 'string'
                            yield {'fam': 'A', 'mol': mol, 'part': part, 'shares': shares, 'tri': tri, 'r': rr}


def _block_b(seed, n_part, n_sub):
    for smi, mol in g2.library():
        prng = random.Random(seed * 131 + sum(map(ord, smi)))
        for part in g2.sampled_partitions(mol, prng, n_part):
            nf = max(part) + 1
            cuts = [bi for bi, (u, v, o) in enumerate(mol['b']) if part[u] != part[v]]
            if not cuts or nf > 8:
                continue
            for _ in range(n_sub):
                k = prng.randint(1, min(len(cuts), 4))
                shares = [[bi, prng.randint(0, 1)] for bi in prng.sample(cuts, k)]
                tri = multi_copied(mol, part, shares) and prng.random() < 0.5
                r = next(g2.covering_renderings(mol, part, 1, prng))
                base_o = list(range(nf))
                if prng.random() < 0.5:
                    prng.shuffle(base_o)
                r['base'] = base_o
                r['ctor'] = 'string' if prng.random() < 0.8 else 'graph'
                yield {'fam': 'B', 'smiles': smi, 'mol': mol, 'part': part, 'shares': sorted(shares), 'tri': tri, 'r': r}


def _block_c(rng):
    """several shared atoms per fragment: ladders whose rails are joined by 2-4 bonds, every subset of them shared"""
    for mol, part in g2.multi_cut_descriptions():
        nf = max(part) + 1
        for shares in share_assignments(mol, part):
            if len(shares) < 2:
                continue
            r = next(g2.covering_renderings(mol, part, 1, rng))
            r['base'] = list(range(nf)) if len(shares) % 2 else list(range(nf))[::-1]
            yield {'fam': 'C', 'mol': mol, 'part': part, 'shares': shares, 'tri': False, 'r': r}


# ---- family 'ML': `!` on two successive levels of ONE resolver (blocks . beads . atoms)
ML_MOLS = ['OCCN', 'OCCCN', 'CC(=O)CCO', 'OCC(C)CN', 'NCC(O)CS', 'CCOCCN', 'OC(=O)CCCN', 'ClCCC(F)CO', 'C=CCC(N)CO', 'C[N+](C)(C)CCO']


def _ml_level1(nb, bead_edges):
    """(part1, shares1) pairs: every partition of the bead tree into >= 2 connected blocks, every assignment
    {ordinary, share end 0, share end 1} to the cut bead edges with at least one shared bead"""
    beadmol = {'a': [['X', 0, 0]] * nb, 'b': [[u, v, 1] for u, v in bead_edges]}
    for part1 in g2.connected_partitions(beadmol):
        if max(part1) < 1:
            continue
        for shares1 in share_assignments(beadmol, part1):
            yield part1, shares1


def _ml_cases(tier, seed):
    quick = tier == 'quick'
    rng = random.Random(seed * 104729 + 11)
    for mi, smi in enumerate(ML_MOLS):
        mol = g2.parse_smiles(smi)
        n = 0
        for part in g2.connected_partitions(mol):
            nb = max(part) + 1
            if not 3 <= nb <= (4 if quick else 5):
                continue
            bead_edges = sorted({(min(part[u], part[v]), max(part[u], part[v])) for u, v, _ in mol['b'] if part[u] != part[v]})
            lvl1 = list(_ml_level1(nb, bead_edges))
            for shares in share_assignments(mol, part):
                # the first molecule: every (thorough) / every 2nd (3 beads) and 12th (4 beads) level-1 description; the others a seeded sample
                if mi == 0:
                    step = 1 if not quick else (2 if nb == 3 else 12)
                    picks = lvl1[(len(shares) + n) % step::step]
                else:
                    picks = rng.sample(lvl1, min(len(lvl1), 1 if quick else 2)) if rng.random() < (0.08 if quick else 0.5) else []
                for part1, shares1 in picks:
                    n += 1
                    nblk = max(part1) + 1
                    r = next(g2.covering_renderings(mol, part, 1, rng)) if mi else {'starts': [0] * nb}
                    base1 = list(range(nblk))
                    if n % 2:
                        base1.reverse()
                    yield {'fam': 'ML', 'smiles': smi, 'mol': mol, 'part': part, 'shares': shares, 'part1': part1, 'shares1': shares1,
                           'r': r, 'base1': base1, 'lead1': bool(n % 3 == 0),
                           'starts1': [rng.randrange(4) for _ in range(nblk)] if mi else [0] * nblk}


# typed-in overlapping descriptions with the molecule they describe (ordinary SMILES, read by pysmiles): one atom shared by
# four and more coarse nodes with the hub fragment written after / between its partners, rings closed through shared atoms,
# shared atoms on aromatic rings that contain an [nH]
TYPED = [
    ('{[#A]1([#E][#B][#C]12)[#S]2}.{#A=[!][!]CC[>],#E=[<]C[>],#B=[<]CC[!],#C=[!][!][!]CF,#S=[!][!]CO}', 'OC1(F)CCC1'),
    ('{[#A]1[#B][#C]1}.{#A=[$]CCC[!],#B=[$]CCC[!],#C=[!][!]C(C)C}', 'CC1(C)CCCC1'),
    ('{[#A]1[#B][#D][#C]1}.{#A=[$]CC[!],#B=[$]O[$],#D=[$]CC[!],#C=[!][!]C(C)C}', 'CC1(C)COC1'),
    ('{[#C]1[#A][#B]1}.{#A=[$]CCC[!],#B=[$]CCC[!],#C=[!][!]C(C)C}', 'CC1(C)CCCC1'),
    ('{[#A][#B]}.{#A=[nH]1cccc1[!],#B=[!]cC}', 'Cc1ccc[nH]1'),
    ('{[#A]=[#B]}.{#A=c1cc[!]c[!]cc1,#B=[nH]1c[!]c[!]cc1}', 'c1ccc2[nH]ccc2c1'),
    ('{[#A][#B]}.{#A=CC[!],#B=[!]Cc1ccc[nH]1}', 'CCc1ccc[nH]1'),
]


def check_typed(case):
    import networkx as nx
    import pysmiles
    from cgsmiles.resolve import MoleculeResolver
    text, ref = case['text'], case['ref']
    api = 'MoleculeResolver.resolve() on an overlapping description'
    r = base.quiet(lambda: MoleculeResolver.from_string(text).resolve())
    if r[0] != 'ok':
        return Outcome(text, True, [Failure(api, 'resolver-exception', '%s -> %s: %s' % (text, r[1], r[2][:160]),
                                            'resolve/typed-shared-atom/resolver-exception', text=text)])
    fine = r[1][1]
    want = pysmiles.read_smiles(ref, explicit_hydrogen=True)
    same = nx.is_isomorphic(fine, want, node_match=lambda a, b: a.get('element') == b.get('element'))
    fails = []
    if not same:
        def formula(g):
            els = sorted(d.get('element') for _, d in g.nodes(data=True))
            return ' '.join('%s%d' % (e, els.count(e)) for e in sorted(set(els)))
        fails.append(Failure(api, 'wrong-molecule', '%s -> %s (%d bonds), described molecule %s is %s (%d bonds)' % (
            text, formula(fine), fine.number_of_edges(), ref, formula(want), want.number_of_edges()),
            'resolve/typed-shared-atom/wrong-molecule', text=text))
    return Outcome(text, True, fails)


def cases(tier, seed):
    rng = random.Random(seed * 7368787 + 5)
    quick = tier == 'quick'
    for text, ref in TYPED:
        if ref is not None:
            yield {'fam': 'typed', 'text': text, 'ref': ref}
    yield from _ml_cases(tier, seed)
    mols = _blockA_mols(tier)
    small = sorted([m for m in mols if len(m['a']) <= 3], key=lambda m: len(m['a']))
    large = [m for m in mols if len(m['a']) > 3]
    # smallest first: three atoms in three fragments is where the triangle lives; then the aromatic library,
    # the ladders, then the four-atom molecules
    yield from _block_a(small, rng, 2 if quick else 3, quick)
    yield from _block_b(seed, *((6, 3) if quick else (30, 6)))
    blk_c = list(_block_c(rng))
    yield from (blk_c[::6] if quick else blk_c)
    yield from _block_a(large, rng, 2 if quick else 3, quick)


def classify(case, built, kind, exc=None):
    """Narrow classes (matched against known_findings.json only):
    * F2 text pattern (descriptor behind `=1`);
    * a shared atom is aromatic and the result is a kekulisation SyntaxError or a molecule that lost aromatic bonds:
      the kept copy keeps its own `hcount` although it inherits the ring bonds (stale hcount);
    * KeyError / NetworkXError (node not in graph) with one atom in >= 4 coarse nodes: one-level remap of repeated merges
      in squash_atoms;
    * pairwise marked copies of one atom (F15 self-merge);
    * everything else generic."""
    plan = built['plan']
    if base._F2.search(built['frag_str']):
        return 'resolve/descriptor-behind-ring-bond-symbol-and-digit/' + kind
    arom_shared = any(len(m) > 1 and case['mol']['a'][a][2] for a, m in plan['member'].items())
    if arom_shared and ((kind == 'resolver-exception' and exc == 'SyntaxError')
                        or kind in ('wrong-molecule', 'wrong-hydrogens', 'differs-from-disjoint')):
        return 'resolve/shared-aromatic-atom-stale-hcount/' + kind
    if kind == 'resolver-exception' and exc in ('KeyError', 'NetworkXError') and max(len(m) for m in plan['member'].values()) >= 4:
        return 'resolve/atom-shared-by-four-or-more-nodes/' + kind
    if case.get('tri') and plan['n_pairs'] > plan['n_merge']:
        return 'resolve/one-atom-shared-by-three-mutually-adjacent-nodes/' + kind
    return 'resolve/shared-atom/' + kind


def init_worker():
    logging.getLogger('pysmiles').setLevel(logging.ERROR)
    import cgsmiles  # noqa: F401


def check_two_level(case):
    """family ML.  One resolver resolves blocks -> beads -> atoms, both steps with `!`:
      level 1  every bead exists exactly once, the bead graph is the one the atom-level cut defines, a bead's fragid is the
               set of blocks whose fragment lists it (construction);
      level 2  (a) (c) (d) (e) as for the one-level description, membership read through the bead *names* (unique);
               (b) same molecule as the one-level description beads.atoms (same atom-level fragments, fresh resolver) and as
               the description without any `!` on either level."""
    from cgsmiles.resolve import MoleculeResolver
    built = g2.build_two_level(case)
    if built is None:
        return Outcome(repr(case)[:200], False, [], skipped=True, note='outside the ML family (edge of order > 1 / block not a tree)')
    text = built['two']
    if not base.base_reads_as_intended(built) or not base.base_reads_as_intended(built['one_built']):
        return Outcome(text, False, [], skipped=True, note='base-graph text is not read as the intended graph (C04 subject)')
    api = 'MoleculeResolver.resolve_iter() on a three-level overlapping description'
    fails = []
    mol = case['mol']
    plan1, plan2 = built['plan1'], built['plan2']

    def fail(kind, detail, **kw):
        fails.append(Failure(api, kind, detail, 'resolve/two-levels-of-shared-atoms/' + kind, text=text, **kw))

    r = base.quiet(lambda: list(MoleculeResolver.from_string(text).resolve_iter()))
    if r[0] != 'ok':
        fail('resolver-exception', '%s -> %s: %s' % (text, r[1], r[2][:160]), traceback=r[3])
        return Outcome(text, True, fails)
    levels = r[1]
    if len(levels) != 2:
        fail('levels', '%s -> %d resolutions, expected 2' % (text, len(levels)))
        return Outcome(text, True, fails)
    # ---- level 1: the beads
    beads = levels[0][1]
    key0 = {blk: k for k, blk in enumerate(built['order0'])}
    got_nodes = sorted((d.get('atomname'), tuple(sorted(d.get('fragid') or ()))) for _, d in beads.nodes(data=True))
    want_nodes = sorted((built['beads'][b], tuple(sorted(key0[x] for x in plan1['member'][b]))) for b in built['beads'])
    if got_nodes != want_nodes:
        fail('level1-beads', '%s -> beads (name, fragid) %s ; expected %s' % (text, got_nodes, want_nodes))
    got_edges = sorted(tuple(sorted((beads.nodes[u].get('atomname'), beads.nodes[v].get('atomname')))) + (d.get('order'),)
                       for u, v, d in beads.edges(data=True))
    want_edges = sorted(tuple(sorted((built['beads'][u], built['beads'][v]))) + (1,) for u, v in built['bead_edges'])
    if got_edges != want_edges:
        fail('level1-bead-graph', '%s -> bead edges %s ; expected %s' % (text, got_edges, want_edges))
    # ---- level 2: the atoms
    coarse, fine = levels[1]
    h, probs = cc.heavy_view(fine)
    if probs:
        fail('hydrogen-topology', '%s -> %s' % (text, probs[:3]))
        return Outcome(text, True, fails)
    together = sum(len(f['atoms']) for f in plan2['frags'])
    if h.number_of_nodes() != together - plan2['n_merge']:
        fail('atom-count', '%s -> %d heavy atoms; the atom-level fragments contain %d together, %d `!` pairs'
             % (text, h.number_of_nodes(), together, plan2['n_merge']))
    want = cc.expected_heavy(mol)
    for a in want.nodes:
        want.nodes[a]['mem'] = tuple(sorted(built['beads'][f] for f in plan2['member'][a]))
    for n in h.nodes:
        h.nodes[n]['mem'] = tuple(sorted(str(coarse.nodes[k].get('fragname')) if k in coarse else '?%r' % (k,)
                                         for k in set(h.nodes[n]['fragid'])))
    if not cc.same_heavy(h, want, with_h=True):
        kind = 'wrong-hydrogens' if cc.same_heavy(h, want, with_h=False) else 'wrong-molecule'
        fail(kind, '%s -> %s ; expected (construction + valence table) %s' % (text, cc.summary(h), cc.summary(want)))
    elif not cc.same_heavy(h, want, with_h=True, extra='mem'):
        fail('wrong-membership', '%s -> beads per heavy atom %s ; expected %s'
             % (text, sorted((d['element'], d['mem']) for _, d in h.nodes(data=True)),
                sorted((d['element'], d['mem']) for _, d in want.nodes(data=True))))
    leftovers = [(u, v) for u, v, d in fine.edges(data=True) if str((d.get('bonding') or ('',))[0]).startswith('!')]
    if leftovers:
        fail('squash-pair-left-as-bond', '%s -> `!` pairs %s are still two atoms joined by a bond' % (text, leftovers[:4]))
    for k in coarse.nodes:
        got = set(coarse.nodes[k].get('graph', ()))
        exp = {n for n, d in fine.nodes(data=True) if k in (d.get('fragid') or ())}
        if got != exp:
            fail('coarse-graph-membership', '%s -> bead node %r graph nodes %s, fine nodes with that fragid %s' % (text, k, sorted(got), sorted(exp)))
            break
    vp = check_valence(fine)
    if vp:
        fail('valence-' + vp[0][0], '%s -> %s' % (text, [p[2] for p in vp[:3]]))
    # ---- (b) metamorphic
    if not any(f['kind'] in ('wrong-molecule', 'wrong-hydrogens') for f in fails):
        r1 = base.quiet(lambda: MoleculeResolver.from_string(built['one']).resolve())
        if r1[0] == 'ok':
            h1, p1 = cc.heavy_view(r1[1][1])
            if not p1 and not cc.same_heavy(h, h1, with_h=True):
                fail('differs-from-one-level', '%s -> %s ; %s -> %s' % (text, cc.summary(h), built['one'], cc.summary(h1)), one_level=built['one'])
        dcase = dict(case)
        dcase['shares'] = []
        dcase['shares1'] = []
        dbuilt = g2.build_two_level(dcase)
        if dbuilt is not None and base.base_reads_as_intended(dbuilt):
            dr = base.quiet(lambda: list(MoleculeResolver.from_string(dbuilt['two']).resolve_iter()))
            if dr[0] == 'ok' and len(dr[1]) == 2:
                dh, dprobs = cc.heavy_view(dr[1][1][1])
                if not dprobs and not cc.same_heavy(h, dh, with_h=True):
                    fail('differs-from-disjoint', '%s -> %s ; %s -> %s' % (text, cc.summary(h), dbuilt['two'], cc.summary(dh)), disjoint=dbuilt['two'])
    return Outcome(text, True, fails)


def check_case(case):
    if case.get('fam') == 'ML':
        return check_two_level(case)
    if case.get('fam') == 'typed':
        return check_typed(case)
    built = g2.build(case)
    text = g2.describe(built)
    plan = built['plan']
    if not base.base_reads_as_intended(built):
        return Outcome(text, False, [], skipped=True, note='base-graph text is not read as the intended graph (C04 subject)')
    api = 'MoleculeResolver.resolve() on an overlapping description'
    fails = []

    def fail(kind, detail, exc=None, **kw):
        fails.append(Failure(api, kind, detail, classify(case, built, kind, exc), text=text, **kw))

    r = base._resolve(built)
    if r[0] != 'ok':
        fail('resolver-exception', '%s -> %s: %s' % (text, r[1], r[2][:160]), exc=r[1], traceback=r[3])
        return Outcome(text, True, fails)
    coarse, fine = r[1]
    mol = case['mol']
    h, probs = cc.heavy_view(fine)
    if probs:
        fail('hydrogen-topology', '%s -> %s' % (text, probs[:3]))
        return Outcome(text, True, fails)
    # (c) atom count
    together = sum(len(f['atoms']) for f in plan['frags'])
    if h.number_of_nodes() != together - plan['n_merge']:
        fail('atom-count', '%s -> %d heavy atoms; the fragments contain %d together, %d copies are shared (%d `!` pairs)'
             % (text, h.number_of_nodes(), together, plan['n_merge'], plan['n_pairs']))
    # (a) + (d) by construction, membership as node label
    key_of = {n: k for k, n in enumerate(built['order'])}
    want = cc.expected_heavy(mol)
    for a in want.nodes:
        want.nodes[a]['mem'] = tuple(sorted(key_of[f] for f in plan['member'][a]))
    for n in h.nodes:
        h.nodes[n]['mem'] = tuple(sorted(set(h.nodes[n]['fragid'])))
    if not cc.same_heavy(h, want, with_h=True):
        kind = 'wrong-hydrogens' if cc.same_heavy(h, want, with_h=False) else 'wrong-molecule'
        fail(kind, '%s -> %s ; expected (construction + valence table) %s' % (text, cc.summary(h), cc.summary(want)))
    elif not cc.same_heavy(h, want, with_h=True, extra='mem'):
        fail('wrong-membership', '%s -> fragid per heavy atom %s ; expected %s'
             % (text, sorted((d['element'], d['mem']) for _, d in h.nodes(data=True)),
                sorted((d['element'], d['mem']) for _, d in want.nodes(data=True))))
    # coarse graphs hold exactly the atoms whose fragid names them
    for k in coarse.nodes:
        got = set(coarse.nodes[k].get('graph', ()))
        exp = {n for n, d in fine.nodes(data=True) if k in (d.get('fragid') or ())}
        if got != exp:
            fail('coarse-graph-membership', '%s -> coarse node %r graph nodes %s, fine nodes with that fragid %s'
                 % (text, k, sorted(got), sorted(exp)))
            break
    # (e) hydrogens
    vp = check_valence(fine)
    if vp:
        fail('valence-' + vp[0][0], '%s -> %s' % (text, [p[2] for p in vp[:3]]))
    # (b) metamorphic: the disjoint description (not repeated when (a) already failed: it would restate the same fault)
    if any(f['kind'] in ('wrong-molecule', 'wrong-hydrogens') for f in fails):
        return Outcome(text, True, fails)
    dcase = dict(case)
    dcase['shares'] = []
    dcase['tri'] = False
    dbuilt = g2.build(dcase)
    if base.base_reads_as_intended(dbuilt):
        dr = base._resolve(dbuilt)
        if dr[0] == 'ok':
            dh, dprobs = cc.heavy_view(dr[1][1])
            if not dprobs:
                if not cc.same_heavy(h, dh, with_h=True):
                    fail('differs-from-disjoint', '%s -> %s ; %s -> %s' % (text, cc.summary(h), g2.describe(dbuilt), cc.summary(dh)),
                         disjoint=g2.describe(dbuilt))
                elif fine.number_of_nodes() != dr[1][1].number_of_nodes():
                    fail('differs-from-disjoint', '%s -> %d nodes ; %s -> %d nodes'
                         % (text, fine.number_of_nodes(), g2.describe(dbuilt), dr[1][1].number_of_nodes()))
    return Outcome(text, True, fails)
