"""
C12 - output numbering is canonical and results depend on the input alone.

Bounded tier.  Two kinds of cases (inputs from gen/gr_resolver_inputs.py):

'single'  one resolvable string.  Checked on every resolution step:
  (a) node keys are 0..n-1 and - the inputs have no shared atoms - the atoms of each coarse node, hydrogens included,
      form one contiguous block of KEYS, blocks in ascending coarse-key order (keys, not iteration order:
      `relabel_nodes` keeps the old iteration order, nothing is claimed about it);
  (b) all-atom: atomname == element + index, unique within each coarse node, the indices of one coarse node form one
      run of consecutive integers (where the run starts is not stated, so not demanded);
  (c) resolving the same string again gives identical canonical dumps of every (coarse, fine) pair incl. the membership
      graphs;
  (d) every permutation of the definitions inside each fragment block (all of them up to 3 (quick) / 4 (thorough)
      definitions, the reversal and a seeded sample above) gives the identical dumps;
  (e) `from_string`, `from_graph(fragment part, base graph)`, `from_fragment_dicts(base string, fragment dicts)` give the
      identical dumps; `from_graph` with a base graph built directly as networkx graph (keys 0..n-1, only 'fragname' and
      edge 'order') gives the identical fine graphs;
  (f) fragment libraries passed to `from_fragment_dicts` are never modified: deep canonical snapshot of every template
      before / after; one library shared by three resolvers in sequence (the string, a one-node base graph per defined
      fragment, the string again) - unchanged, and the third result equals the result with a fresh library.
'hashseed'  a batch of strings resolved in fresh interpreters under PYTHONHASHSEED = 0, 1, 4242: the digests of all
      dumps must be equal across the seeds and equal to the digest computed in the (long-lived) worker process, which
      also exposes state carried over from earlier calls (mutable default arguments).

  (g) (added) `from_graph` with the SAME base graph (keys 0..n-1, same names, same edges) whose nodes were inserted in
      another order (reversed, one seeded shuffle): at every level the numbering clause (a) holds with blocks in ascending
      coarse-KEY order, and the fine graphs equal those of `from_string` (nodes compared by key with all attributes, edges
      with their order; the record of which descriptor is named first on an edge is not compared).  Only for inputs whose
      bonds are determined by the labels (design 'unique' under the label-sensitive convention, layered strings built from
      it): with interchangeable descriptors the pairing may follow the search order.  For shared-atom designs only the
      numbering clause is demanded under another insertion order (which of two merged atoms survives follows the visits).
Shared atoms (`!`, added): inputs from gen shared_cases / layered_shared_cases (two-level coarse and all-atom, `!` on an
      intermediate coarse level of a three-level string) and typed-in strings (SQUASH_HAND).  The block clause is void by the
      statement itself, what remains of (a) and is demanded at EVERY level, coarse levels included: keys are exactly 0..n-1;
      the atoms owned by one coarse node only are in ascending coarse-key order; an atom shared by coarse nodes S has a key
      above every exclusively owned atom of a coarse node < min(S) and below every one of a coarse node > max(S).  Clause
      (b) is not demanded of these inputs (a shared atom is named once per coarse node).  No shared aromatic atoms (known
      finding of C10).  Clauses (c)-(g) as for all other inputs.

Scope decisions: base graphs for `from_graph` keep the keys 0..n-1 of the string ('base-graph order' = ascending key; other
keys are exercised by C02); permuting definitions never changes which definition a name refers to (names are unique inside
a block).
"""
import hashlib
import itertools
import json
import logging
import os
import random
import subprocess
import sys
import networkx as nx
from vf.bounded import Outcome, Failure
from vf.util import canonical_dump
from gen import gr_resolver_inputs as gr
from specs import resolver_spec as rs

ID = 'C12'
LEVEL = 'other'
P_TARGETS = ['cgsmiles.graph_utils:merge_graphs', 'cgsmiles.graph_utils:set_atom_names_atomistic']
BUDGET = {'quick': 32.0, 'thorough': 300.0}
CHUNK = 12
HASHSEEDS = ('0', '1', '4242')
BOUNDS = {
    'quick': {'strings': 'every fourth two-level case (graphs <= 4 nodes x orders x designs x all-atom/coarse x legacy, virtual nodes, multiplied units), '
                         'all typed-in strings, every second layered string', 'permutations': 'all for <= 3 definitions per block, reversal + 7 seeded above',
              'constructors': 4, 'shared_library_sequence': 3, 'hashseed_batches': 3, 'batch_size': 25, 'hashseeds': list(HASHSEEDS),
              'shared_atoms': 'typed-in strings, every fourth coarse and every tenth all-atom shared-atom design, every fifth string with `!` on two levels',
              'base_graph_insertion_orders': 'reversed + 1 seeded shuffle'},
    'thorough': {'strings': 'every fourth two-level case (graphs <= 5 nodes, 2 repeats per cell, 4000 random trees), all typed-in strings, every second layered case', 'permutations': 'all for <= 4 definitions per block, reversal + 7 seeded above',
                 'constructors': 4, 'shared_library_sequence': 3, 'hashseed_batches': 30, 'batch_size': 25, 'hashseeds': list(HASHSEEDS),
                 'shared_atoms': 'typed-in strings, every second shared-atom design, every fourth string with `!` on two levels',
                 'base_graph_insertion_orders': 'reversed + 1 seeded shuffle'},
}
EXHAUSTIVE = {'quick': False, 'thorough': False}
RULE = ('single: one string per case, all clauses (a)-(g) (inputs with shared atoms: the numbering clause for shared atoms instead of the '
        'block clause); non-trivial when the fine graph has >= 2 coarse nodes owning atoms and the case '
        'exercised at least one permutation or a second constructor; hashseed: batches of 25 strings x 3 interpreter hash seeds, non-trivial '
        'always; distinct = distinct string / distinct batch')
ASSUMPTIONS = ['vf.util.canonical_dump captures every node / edge attribute of a graph (nodes in iteration order)',
               'cgsmiles.read_cgsmiles reads the base string as intended (checked per case; otherwise skipped)',
               'PYTHONHASHSEED controls str hashing of the child interpreter (CPython)']


def init_worker():
    logging.getLogger('pysmiles').setLevel(logging.ERROR)
    logging.getLogger('cgsmiles').setLevel(logging.ERROR)


def cases(tier, seed):
    """Typed-in strings first, then single cases with a hash-seed batch after every 150 (quick) / 200 (thorough) of
    them, so that every kind of check is reached early even when the budget cuts the enumeration."""
    pf = 3 if tier == 'quick' else 4
    singles, pool = [], []
    for k, c in enumerate(gr.two_level_cases(tier, seed, reps=1 if tier == 'quick' else 2)):
        pool.append(c)
        if c['design'] == 'hand' or k % 4 == 0:
            singles.append(dict(c, kind='single', perm_full=pf))
    for i, c in enumerate(gr.layered_cases(tier, seed)):
        pool.append(c)
        if i % 2 == 0 or 'hand' in c['tags']:
            singles.append(dict(c, kind='single', perm_full=pf))
    singles.extend(dict(c, kind='single', perm_full=pf) for c in squash_cases(tier))
    # stable: typed-in strings first, then the inputs with shared atoms (few; the only ones whose merge numbering has holes)
    singles.sort(key=lambda c: 0 if c['design'] == 'hand' else 1 if 'shared' in c['tags'] else 2)
    rng = random.Random(99)
    rng.shuffle(pool)
    nb = 3 if tier == 'quick' else 30
    batches = [{'kind': 'hashseed', 'id': 'hashseed/%d' % b,
                'batch': [{'s': gr.full_string(c), 'aa': c['all_atom'], 'leg': c['legacy']} for c in pool[b * 25:(b + 1) * 25]]}
               for b in range(nb) if pool[b * 25:(b + 1) * 25]]
    every = 150 if tier == 'quick' else 200
    for i, c in enumerate(singles):
        yield c
        if (i + 1) % every == 0 and batches:
            yield batches.pop(0)
    yield from batches


# ------------------------------------------------------------------------------------------- shared atoms
# (id, string, all_atom): `!` on a coarse level; three-level strings continue the coarse level to atoms, so the keys of
# the coarse level are the coarse-node ids ('fragid') of the next one.  No aromatic atoms.
SQUASH_HAND = [
    ('squash/cg-chain', '{[#A][#B][#C]}.{#A=[#a][#b][!],#B=[!][#b][#c][>],#C=[<][#d][#e]}', False),
    ('squash/cg-chain-aa', '{[#A][#B][#C]}.{#A=[#a][#b][!],#B=[!][#b][#c][>],#C=[<][#d][#e]}.'
     '{#a=CC[$],#b=[$]O[$],#c=[$]CC[$],#d=[$]CO[$],#e=[$]N}', True),
    ('squash/cg-first-listed-last', '{[#C][#B][#A]}.{#A=[#a][#b][!x],#B=[#b][!x][#c][!y],#C=[!y][#c][#e]}', False),
    ('squash/cg-two', '{[#A][#B][#C]}.{#A=[#a][#b][!x],#B=[#b][!x][#c][!y],#C=[!y][#c][#e]}', False),
    ('squash/cg-two-cg', '{[#A][#B][#C]}.{#A=[#a][#b][!x],#B=[#b][!x][#c][!y],#C=[!y][#c][#e]}.'
     '{#a=[#a1][#a2][$],#b=[$][#b1][$],#c=[$][#c1][#c2][$],#e=[$][#e1]}', False),
    ('squash/cg-hub', '{[#H]([#A])[#B]}.{#H=[#s][!p][!q][#h1][#h2],#A=[#a1][#s][!p],#B=[#s][!q][#b1]}', False),
    ('squash/cg-hub-aa', '{[#A][#H][#B]}.{#H=[#s][!p][!q][#h1][>],#A=[#a1][#s][!p],#B=[#s][!q][#b1]}.'
     '{#s=[$]C([$])[$],#h1=[$]CO,#a1=N[$],#b1=[$]CF}', True),
    ('squash/cg-ring', '{[#A]1[#B][#C]1}.{#A=[!ca][#s][#a][#s][!ab],#B=[!ab][#s][#b][#s][!bc],#C=[!bc][#s][#c][#s][!ca]}', False),
]


# molecules with more than a few dozen atoms (small ones cannot show an order that depends on hashing of the node keys)
LARGE_HAND = [
    ('large/peo10', '{[#PEO]|10}.{#PEO=[$]COC[$]}', True),
    ('large/ps6', '{[#PS]|6}.{#PS=[$]CC[$]c1ccccc1}', True),
    ('large/peo-pe', '{[#PEO]|6[#PE]|6}.{#PEO=[$]COC[$],#PE=[$]CC[$]}', True),
    ('large/cg24', '{[#A]|12}.{#A=[$][#a][#b][#c][$]}', False),
]


def squash_cases(tier):
    for cid, s, aa in LARGE_HAND:
        i = s.index('}.{')
        yield {'id': 'hand/' + cid, 'base': None, 'base_str': s[:i + 1], 'blocks': gr._split_blocks(s[i + 2:]), 'all_atom': aa,
               'legacy': True, 'valid': True, 'design': 'hand', 'bonds': None, 'tags': ['hand', 'large']}
    for cid, s, aa in SQUASH_HAND:
        i = s.index('}.{')
        yield {'id': 'hand/' + cid, 'base': None, 'base_str': s[:i + 1], 'blocks': gr._split_blocks(s[i + 2:]), 'all_atom': aa,
               'legacy': True, 'valid': True, 'design': 'hand', 'bonds': None, 'tags': ['shared', 'hand']}
    two = list(getattr(gr, 'shared_cases', lambda t: [])(tier))
    cg = [c for c in two if not c['all_atom']]
    aa = [c for c in two if c['all_atom']]
    lay = list(getattr(gr, 'layered_shared_cases', lambda t: [])(tier))
    if tier == 'quick':
        yield from cg[::4]
        yield from lay[1::5]
        yield from aa[::10]
    else:
        yield from cg[::2]
        yield from lay[::4]
        yield from aa[1::2]


def check_numbering_shared(coarse, fine):
    """What the statement demands of the keys when atoms are shared (see the module docstring)."""
    n = fine.number_of_nodes()
    if set(fine.nodes) != set(range(n)):
        return [('keys-not-0..n-1', 'node keys %s' % sorted(fine.nodes, key=repr)[:60])]
    fid = {}
    for m in fine.nodes:
        f = fine.nodes[m].get('fragid')
        if not (isinstance(f, list) and f and all(isinstance(k, int) for k in f)):
            return []          # membership records are C02's subject
        fid[m] = f
    excl = [m for m in sorted(fid) if len(set(fid[m])) == 1]
    for a, b in zip(excl, excl[1:]):
        if fid[a][0] > fid[b][0]:
            return [('keys-not-ordered-by-coarse-node', 'node %d belongs to coarse node %d, the later node %d to coarse node %d' % (
                a, fid[a][0], b, fid[b][0]))]
    for m in sorted(fid):
        if len(set(fid[m])) < 2:
            continue
        lo, hi = min(fid[m]), max(fid[m])
        for e in excl:
            if (fid[e][0] < lo and e > m) or (fid[e][0] > hi and e < m):
                return [('shared-atom-outside-its-coarse-nodes', 'node %d is shared by coarse nodes %s but node %d of coarse node %d is on the other side of it' % (
                    m, sorted(fid[m]), e, fid[e][0]))]
    return []


def _is_shared(case):
    return 'shared' in (case.get('tags') or [])


def _bonds_determined(case):
    """The labels decide which descriptors pair up, whatever the order in which the fragments are visited."""
    tags = case.get('tags') or []
    if not case.get('base') or not case.get('legacy') or 'repeated-names' in tags:
        return False
    return (case['design'] == 'unique' and case.get('bonds') is not None) or case['design'] in ('layered', 'shared')


def _by_key_dump(g):
    """Nodes in key order with all attributes, edges with their order only."""
    h = nx.Graph()
    for k in sorted(g.nodes, key=repr):
        h.add_node(k, **g.nodes[k])
    for u, v, d in g.edges(data=True):
        h.add_edge(u, v, order=d.get('order'))
    return canonical_dump(h)


def insertion_orders(n, rng):
    out = [('reversed', list(range(n))[::-1])]
    if n >= 3:
        p = list(range(n))
        for _ in range(5):
            rng.shuffle(p)
            if p != list(range(n)) and p != out[0][1]:
                out.append(('shuffled', list(p)))
                break
    return out


# ------------------------------------------------------------------------------------------- helpers
def _all_dumps(resolver, numbering=None, shared=False, by_key=None):
    """Dumps are taken when a pair is returned: the next step turns the fine graph into its coarse graph in place.
    numbering: optional list collecting (step, coarse-node count owning atoms, violations of (a)/(b), fine dump);
    shared: the input has shared atoms (numbering clause for shared atoms); by_key: optional list collecting the fine
    graphs dumped in key order."""
    out = []
    nlev = resolver.resolutions
    for step, (coarse, fine) in enumerate(resolver.resolve_iter()):
        out.append(rs.pair_dump(coarse, fine))
        if numbering is not None:
            probs = check_numbering_shared(coarse, fine) if shared else \
                rs.check_numbering(coarse, fine, resolver.last_all_atom and step == nlev - 1)
            numbering.append((step, sum(1 for k in coarse.nodes if rs.members(fine, k)), probs, canonical_dump(fine)))
        if by_key is not None:
            by_key.append(_by_key_dump(fine))
    return out


def _fine_dumps(resolver):
    return [canonical_dump(fine) for _, fine in resolver.resolve_iter()]


def _digest(cg, item):
    r = cg.MoleculeResolver.from_string(item['s'], last_all_atom=item['aa'], legacy=item['leg'])
    h = hashlib.sha1()
    for coarse, fine in r.resolve_iter():
        h.update(rs.pair_dump(coarse, fine).encode())
    return h.hexdigest()


def _child():
    """Entry point of the fresh interpreters: digests of a batch read from stdin."""
    init_worker()
    import cgsmiles
    batch = json.load(sys.stdin)
    out = []
    for item in batch:
        try:
            out.append(_digest(cgsmiles, item))
        except Exception as e:   # noqa
            out.append('EXC %s' % type(e).__name__)
    json.dump(out, sys.stdout)


def _split_defs(block):
    return block[1:-1].split(',')


def _library_snapshot(dicts):
    return [[(name, canonical_dump(g, drop=())) for name, g in d.items()] for d in dicts]


def classify(case, clause):
    return 'resolve/%s/%s' % ('all-atom' if case.get('all_atom') else 'coarse', clause)


def check_hashseed(case):
    import cgsmiles
    key = 'hashseed:' + hashlib.sha1(json.dumps(case['batch'], sort_keys=True).encode()).hexdigest()
    here = []
    for item in case['batch']:
        try:
            here.append(_digest(cgsmiles, item))
        except Exception as e:   # noqa
            here.append('EXC %s' % type(e).__name__)
    fails = []
    results = {}
    for hs in HASHSEEDS:
        env = dict(os.environ, PYTHONHASHSEED=hs)
        p = subprocess.run([sys.executable, '-c', 'from props.C12 import _child; _child()'], input=json.dumps(case['batch']),
                           capture_output=True, text=True, env=env, cwd=os.path.dirname(os.path.dirname(os.path.abspath(__file__))), timeout=300)
        if p.returncode != 0:
            return Outcome(key, False, [], skipped=True, note='child interpreter failed: %s' % p.stderr[-300:])
        results[hs] = json.loads(p.stdout[p.stdout.index('['):])
    ref = results[HASHSEEDS[0]]
    for hs in HASHSEEDS[1:]:
        for item, a, b in zip(case['batch'], ref, results[hs]):
            if a != b:
                fails.append(Failure('MoleculeResolver.resolve_iter', 'hashseed-dependent', '%s: PYTHONHASHSEED=%s gives %s, PYTHONHASHSEED=%s gives %s' % (
                    item['s'], HASHSEEDS[0], a, hs, b), 'resolve/hashseed-dependent'))
                break
    for item, a, b in zip(case['batch'], ref, here):
        if a != b:
            fails.append(Failure('MoleculeResolver.resolve_iter', 'history-dependent', '%s: fresh interpreter gives %s, the worker process (after other calls) %s' % (
                item['s'], a, b), 'resolve/depends-on-earlier-calls'))
            break
    return Outcome(key, True, fails)


def check_case(case):
    if case.get('kind') == 'hashseed':
        return check_hashseed(case)
    import cgsmiles
    key = repr((gr.full_string(case), case['all_atom'], case['legacy']))
    if not gr.reader_agrees(cgsmiles, case):
        return Outcome(key, False, [], skipped=True, note='base string not read as intended (C04/C05)')
    fails = []
    nlev = len(case['blocks'])

    def fail(clause, detail):
        if clause not in {f['kind'] for f in fails}:
            fails.append(Failure('MoleculeResolver', clause, '%s (all_atom=%s legacy=%s): %s' % (gr.full_string(case), case['all_atom'], case['legacy'], detail),
                                 classify(case, clause)))
    numbering = []
    shared = _is_shared(case)
    ref_by_key = []
    try:
        ref = _all_dumps(gr.make_resolver(cgsmiles, case), numbering, shared, ref_by_key)
    except Exception as e:   # noqa
        if not case.get('valid'):
            return Outcome(key, False, [], skipped=True, note='%s: %s' % (type(e).__name__, e))
        return Outcome(key, False, [Failure('MoleculeResolver.resolve_iter', 'exception', '%s: %s: %s' % (gr.full_string(case), type(e).__name__, str(e)[:300]),
                                            'resolve/exception/%s' % type(e).__name__)])
    owning = 0
    # (a) (b)
    for step, own, probs, _ in numbering:
        for clause, detail in probs:
            fail(clause, 'step %d: %s' % (step, detail))
        owning = max(owning, own)
    exercised = 0
    try:
        # (c)
        again = _all_dumps(gr.make_resolver(cgsmiles, case))
        if again != ref:
            fail('second-call-differs', 'two consecutive resolutions of the same string differ')
        # (d)
        rng = random.Random(key)
        for bi, block in enumerate(case['blocks']):
            defs = _split_defs(block)
            if len(defs) < 2:
                continue
            full_up_to = case.get('perm_full', 4)
            perms = list(itertools.permutations(range(len(defs)))) if len(defs) <= full_up_to else \
                [tuple(range(len(defs)))[::-1]] + [tuple(rng.sample(range(len(defs)), len(defs))) for _ in range(7)]
            for perm in perms:
                if list(perm) == list(range(len(defs))):
                    continue
                blocks = list(case['blocks'])
                blocks[bi] = '{' + ','.join(defs[i] for i in perm) + '}'
                exercised += 1
                got = _all_dumps(gr.make_resolver(cgsmiles, dict(case, blocks=blocks)))
                if got != ref:
                    fail('definition-order', 'block %d written as %s gives a different result' % (bi, blocks[bi]))
                    break
        # (e)
        for how in ('graph', 'dicts'):
            exercised += 1
            got = _all_dumps(gr.make_resolver(cgsmiles, case, how))
            if got != ref:
                fail('constructor-' + how, 'constructor %s gives a different result than from_string' % how)
        if case.get('base'):
            got = _fine_dumps(gr.make_resolver(cgsmiles, case, 'graph-own'))
            if got != [d for _, _, _, d in numbering]:
                fail('constructor-graph-own', 'from_graph with a directly built base graph gives different fine graphs')
        # (g)
        if _bonds_determined(case) and len(case['base']['nodes']) >= 2:
            nb = len(case['base']['nodes'])
            for oname, ins in insertion_orders(nb, rng):
                exercised += 1
                got_num, got_by_key = [], []
                _all_dumps(gr.make_resolver(cgsmiles, case, 'graph-own', {'keys': list(range(nb)), 'insertion': ins}), got_num, shared, got_by_key)
                for step, _, probs, _ in got_num:
                    for clause, detail in probs:
                        fail('base-graph-insertion-order/' + clause, 'from_graph, base-graph nodes inserted in the order %s, step %d: %s' % (ins, step, detail))
                # with shared atoms the order of the visits decides which of two merged atoms survives (its attributes,
                # the order of its membership list): only the numbering clause is demanded then
                if not shared and got_by_key != ref_by_key:
                    step = next((i for i, (a, b) in enumerate(zip(got_by_key, ref_by_key)) if a != b), min(len(got_by_key), len(ref_by_key)))
                    fail('constructor-graph-insertion-order', 'from_graph with the same base graph, nodes inserted in the order %s, differs from from_string at step %d' % (ins, step))
        # (f)
        lib = gr.read_templates(cgsmiles, case)
        snap = _library_snapshot(lib)
        got = _all_dumps(gr.make_resolver(cgsmiles, case, 'dicts', fragment_dicts=lib))
        if _library_snapshot(lib) != snap:
            fail('library-modified', 'fragment dicts changed during one resolution')
        if got != ref:
            fail('constructor-dicts', 'from_fragment_dicts with a pre-read library gives a different result')
        names = list(lib[0])
        for nm in names[:3]:
            one = dict(case, base=None, base_str='{[#%s]}' % nm)
            try:
                _all_dumps(gr.make_resolver(cgsmiles, one, 'dicts', fragment_dicts=lib))
            except Exception:   # noqa  a one-node molecule of an aromatic bead etc. may be rejected: outside the statement
                pass
        if _library_snapshot(lib) != snap:
            fail('library-modified', 'fragment dicts changed while shared by several resolvers')
        got = _all_dumps(gr.make_resolver(cgsmiles, case, 'dicts', fragment_dicts=lib))
        if got != ref:
            fail('shared-library-result', 'a library already used by other resolvers gives a different result')
        if _library_snapshot(lib) != snap:
            fail('library-modified', 'fragment dicts changed while shared by several resolvers')
    except Exception as e:   # noqa
        fail('exception', '%s: %s' % (type(e).__name__, str(e)[:300]))
    return Outcome(key, owning >= 2 and exercised > 0, fails)
