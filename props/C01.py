"""
C01 - cutting a molecule into fragments and resolving gives the molecule back.

Bounded tier (DESIGN 6, C01 clause B).  Run-time postcondition on MoleculeResolver.resolve():

    for a G2 molecule M, a partition P of its atoms into connected blocks, a rendering R (fragment SMILES written
    by the independent writer of gen/g2_molecules.py, one uniquely labelled descriptor pair per cut bond carrying
    the bond's order, base graph with one node per block and edge order = number of cut bonds) :

      (a) heavy(resolve(R(M, P)))  is isomorphic to  M           by construction: element, formal charge, bond
          order (1.5 inside aromatic rings), and per atom the number of hydrogens the INDEPENDENT valence table
          (specs/valence.py) demands;
      (b) resolve(R(M, P))  is isomorphic to  resolve(M written as one fragment)          (metamorphic);
      (c) every hydrogen of the result is bonded to exactly one heavy atom with order 1.

Scope decisions (so that no more is demanded than the property states):
  * molecules come from G2 only: every atom within its usual valence, no ring of alternating single and double
    bonds outside the declared aromatic rings (CGsmiles defines such rings as aromatic and returns 1.5 there,
    so Kekule and aromatic spelling are one molecule - not a C01 question), aromatic rings of benzene / pyridine type.
  * descriptors are written directly behind their atom (before or behind its ring digits) or, for the first atom,
    in front of the fragment; in block 6 behind the branches of their atom (`C(O)(C(F)Cl)[$a]`: a descriptor that
    follows `)` belongs to the atom the branch started from, as anything that follows a branch in SMILES; that
    includes a `)` closing a branch which itself contains branches).  Only there: blocks 1-5 never write a
    descriptor behind a branch.
  * block 7: molecules whose usual spelling has an aromatic `[nH]` (pyrrole, imidazole, indole, 2,2'-bipyrrole,
    2-pyridone, histidine).  The fragments are written in that aromatic spelling; the molecule that must come back is
    the structure with the N-H localised (the only Kekule structure of the five-membered ring; the benzo ring of indole
    is aromatic, 1.5), typed in by hand next to the aromatic spelling in gen/g2_molecules.NH_AROMATIC_SMILES and
    completed with hydrogens by the valence table.  Partitions of these molecules never cut a bond of a ring that
    contains the `[nH]` (a lower-case fragment with an `[nH]` whose ring is closed only through descriptors is a
    question about reading aromatic fragments, not about the cut), see NH_RULE.
  * the base graph is written without consecutive closing braces and without `|n`; if cgsmiles.read_cgsmiles does
    not read the base-graph string as the intended graph the case is SKIPPED (that is C04's subject, F7 / F8).
  * both constructors named in the property's observe_at are used: from_string, and from_graph with node keys
    0..n-1 listing the fragments in an arbitrary order.
"""
import contextlib
import io
import itertools
import logging
import random
import re

from vf.bounded import Outcome, Failure
from vf.util import call
from gen import g2_molecules as g2
from specs import chem_checks as cc

ID = 'C01'
LEVEL = 'other'
P_TARGETS = ['cgsmiles.resolve:compatible', 'cgsmiles.resolve:match_bonding_descriptors', 'cgsmiles.resolve:MoleculeResolver.edges_from_bonding_descrpt']
BUDGET = {'quick': 33.0, 'thorough': 440.0}
CHUNK = 60
BOUNDS = {
    'quick': {
        'block1_all_renderings': 'carbon skeletons + 14 ring / hetero probes, <= 4 heavy atoms, every partition, every '
                                 'rendering (start atoms x neighbour order x ring-digit mode x ring-symbol placement x '
                                 'descriptor position x descriptor kind)',
        'block2_exhaustive_molecules': 'every molecule with <= 3 heavy atoms over C N O S P F Cl Br [N+] [O-] [S-] and with 4 '
                                       'heavy atoms over C N O (trees and one ring, bond orders 1-3), every partition, covering renderings: 3 for 2 atoms, 2 for 3 atoms, 1 for 4 atoms',
        'block5_multi_cut': 'ladder molecules with 2, 3, 4 cut bonds between one pair of fragments (single and double rungs), 2 partitions, 4 renderings',
        'block3_library': '43 larger molecules x <= 10 seeded partitions x 2 renderings',
        'block6_descriptor_behind_branch': 'pos=tail renderings whose text has a descriptor behind `)` (those behind a branch that contains a '
                                           'branch first): 10 branched molecules with 6-9 heavy atoms x all (<= 6 atoms) or 12 seeded partitions x 2; every '
                                           '4-atom carbon skeleton and ring probe x every partition x every start atom x asc/desc; 43 library molecules x 3 '
                                           'seeded partitions x 1  (1657 cases at seed 0, 302 with a descriptor behind a nested branch)',
        'block7_nh_aromatics': '8 molecules with an aromatic [nH] (pyrrole, 2-methylpyrrole, imidazole, 4-ethylimidazole, 3-ethylindole, '
                               '2,2\'-bipyrrole, 3-methyl-2-pyridone, histidine), uncut and <= 8 seeded partitions that keep the [nH] ring in one '
                               'fragment x 4 renderings (100 cases)',
        'block4_base_orders': 'molecules <= 3 heavy atoms over C N O, partitions into 2-3 fragments, every base-graph node '
                              'order, from_string and from_graph',
        'cut_bonds_between_a_pair': '0..4 (3 and 4 in blocks 3 and 5)'},
    'thorough': {
        'block1_all_renderings': 'as quick plus every C N O molecule with <= 3 heavy atoms',
        'block2_exhaustive_molecules': '<= 4 heavy atoms over the full alphabet (8 renderings up to 3 atoms, 2 for 4 atoms), 5 heavy atoms over '
                                       'C N O (1 rendering)',
        'block3_library': '43 larger molecules x <= 40 seeded partitions x 4 renderings',
        'block4_base_orders': 'molecules <= 4 heavy atoms over C N O, partitions into 2-3 fragments, every base-graph node order, both constructors',
        'block5_multi_cut': 'as quick with 12 renderings',
        'block6_descriptor_behind_branch': 'as quick with 60 seeded partitions x 12 renderings for the branched molecules, 15 partitions x 4 for the library',
        'block7_nh_aromatics': 'as quick with <= 40 admissible partitions x 8 renderings',
        'cut_bonds_between_a_pair': '0..4'},
}
EXHAUSTIVE = {'quick': False, 'thorough': False}
RULE = ('molecule x partition into connected fragments x rendering (see BOUNDS; blocks in the order 1, 6, 7, 4, 3, 5, 2); exhaustive blocks do not depend on the seed, '
        'covering renderings and library partitions are drawn from VERIF_SEED.  A case is non-trivial when the molecule is cut '
        '(>= 2 fragments, so at least one descriptor pair has to be matched, a bond created and hydrogens rebuilt across it); '
        'distinct = distinct CGsmiles text (plus node list for from_graph).')
ASSUMPTIONS = [
    'pysmiles.read_smiles / fill_valence / correct_aromatic_rings are not verified; their result is cross-checked only through '
    'the independent valence table specs/valence.py (OpenSMILES organic-subset valences, octet valences for charged centres)',
    'the fragment SMILES written by gen/g2_molecules.render_fragment denotes the intended fragment (its canonical form was '
    'compared with RDKit for all 2660 molecules <= 4 atoms over C N O Cl [N+] [O-] and the 43 library molecules when it was written)',
    'cgsmiles.read_cgsmiles is used as a precondition filter for the base-graph string only',
    'block 7: the localised structure of each [nH] molecule is typed in by hand (gen/g2_molecules.NH_AROMATIC_SMILES); that a ring with an '
    'N-H is returned localised and a benzo ring as 1.5 is CGsmiles\' documented definition of aromaticity (rebuild_h_atoms message, C01 scope)',
    'isomorphism is decided by networkx.is_isomorphic',
]

_F2 = re.compile(r'[=#](?:\d|%\d\d)+\[[$<>!]')

PROBES = ['C1=CC1', 'C1=CCC1', 'CC1=CC1', 'C=C1CC1', 'N1=CC1', 'C1=NCC1', 'OC1=CC1', 'C1=C[N+]1', 'ClC1=CC1', 'C1OC1',
          'C1CC1C', 'C1CCC1', 'C#CC=C', 'N#CC=O']


def _valid(mol):
    return None not in g2.total_h(mol)


def _block1_mols(tier):
    mols = []
    for n in (1, 2, 3, 4):
        mols += g2.small_molecules(n, g2.ALPHA_C)
    mols += [g2.parse_smiles(s) for s in PROBES]
    if tier == 'thorough':
        for n in (2, 3):
            mols += [m for m in g2.small_molecules(n, g2.ALPHA_CNO) if any(a[0] != 'C' for a in m['a'])]
    return [m for m in mols if _valid(m)]


def cases(tier, seed):
    rng = random.Random(seed * 1000003 + 17)
    quick = tier == 'quick'
    # ---- block 1: every rendering of small ring / multiple-bond skeletons (most discriminating first)
    b1 = _block1_mols(tier)
    # ring molecules first: the descriptor-behind-ring-digit renderings live there
    b1.sort(key=lambda m: (0 if len(m['b']) >= len(m['a']) else 1))
    for mol in b1:
        for part in g2.connected_partitions(mol):
            for r in g2.exhaustive_renderings(mol, part):
                yield {'fam': 'b1', 'mol': mol, 'part': part, 'r': r}
    # ---- block 6: descriptors written behind the branches of their atom (incl. nested branches)
    yield from _block6(tier, seed)
    # ---- block 7: aromatic [nH] molecules
    yield from _block7(tier, seed)
    yield from _block7n(tier, seed)
    # ---- block 4: every base-graph node order, both constructors
    for n in ((2, 3) if quick else (2, 3, 4)):
        for mol in g2.small_molecules(n, g2.ALPHA_CNO):
            for part in g2.connected_partitions(mol):
                nf = max(part) + 1
                if not 2 <= nf <= 3:
                    continue
                for perm in itertools.permutations(range(nf)):
                    for ctor in ('string', 'graph'):
                        yield {'fam': 'b4', 'mol': mol, 'part': part,
                               'r': {'base': list(perm), 'ctor': ctor, 'kind': '>' if sum(perm[:1]) else '$',
                                     'forder': list(perm)[::-1]}}
    # ---- block 3: library
    n_part, n_rend = (10, 2) if quick else (40, 4)
    for smi, mol in g2.library():
        prng = random.Random(seed * 31 + len(smi) * 7 + sum(map(ord, smi)))
        for part in g2.sampled_partitions(mol, prng, n_part):
            nf = max(part) + 1
            for i, r in enumerate(g2.covering_renderings(mol, part, n_rend if nf > 1 else 1, prng)):
                base = list(range(nf))
                if i % 2:
                    prng.shuffle(base)
                r['base'] = base
                r['ctor'] = 'graph' if i % 3 == 2 else 'string'
                yield {'fam': 'b3', 'smiles': smi, 'mol': mol, 'part': part, 'r': r}
    # ---- block 5: 2, 3 and 4 cut bonds between one pair of fragments (ladders), some of them double
    for mol, part in g2.multi_cut_descriptions():
        nf = max(part) + 1
        for i, r in enumerate(g2.covering_renderings(mol, part, 4 if quick else 12, rng)):
            r['base'] = list(range(nf)) if i % 2 == 0 else list(range(nf))[::-1]
            r['ctor'] = 'graph' if i % 4 == 3 else 'string'
            yield {'fam': 'b5', 'mol': mol, 'part': part, 'r': r}
    # ---- block 2: exhaustive molecules x all partitions x covering renderings
    plan = [(1, g2.ALPHA_FULL, 1), (2, g2.ALPHA_FULL, 3), (3, g2.ALPHA_FULL, 2), (4, g2.ALPHA_CNO, 1)] if quick else \
           [(1, g2.ALPHA_FULL, 1), (2, g2.ALPHA_FULL, 8), (3, g2.ALPHA_FULL, 8), (4, g2.ALPHA_FULL, 2), (5, g2.ALPHA_CNO, 1)]
    for n, alpha, k in plan:
        for mol in g2.small_molecules(n, alpha):
            for part in g2.connected_partitions(mol):
                nf = max(part) + 1
                for i, r in enumerate(g2.covering_renderings(mol, part, k if nf > 1 else 1, rng)):
                    base = list(range(nf))
                    if i % 2:
                        rng.shuffle(base)
                    r['base'] = base
                    r['ctor'] = 'graph' if i % 3 == 2 else 'string'
                    yield {'fam': 'b2', 'mol': mol, 'part': part, 'r': r}


TAIL_MOLS = ['OC(N)C(F)Cl', 'CC(O)C(N)C', 'OC(=O)C(N)CS', 'CC(C)(C)C(C)=O', 'NC(=O)C(C)C#N', 'CC(C(C)(F)Cl)C(O)=C', 'OC(C1CC1)C(N)=O',
             'C[N+](C)(C)C(C)C([O-])=O', 'CC(C)c1ccccc1', 'CC(N)C1=CCC1']
_DESC_BEHIND_BRANCH = re.compile(r'\)[=#]?\[[$<>]')
_DESC_BEHIND_NESTED = re.compile(r'\([^()]*\([^()]*\)[^()]*\)[=#]?\[[$<>]')


def _tail_cases(fam, mol, part, rends, quota, extra=None):
    """the renderings whose text really has a descriptor behind `)`; the ones behind a nested branch first; distinct texts"""
    seen, nested, flat = set(), [], []
    for r in rends:
        case = {'fam': fam, 'mol': mol, 'part': part, 'r': r}
        if extra:
            case.update(extra)
        t = g2.build(case)['frag_str']
        if t in seen or not _DESC_BEHIND_BRANCH.search(t):
            continue
        seen.add(t)
        (nested if _DESC_BEHIND_NESTED.search(t) else flat).append(case)
    return (nested + flat)[:quota] if quota else nested + flat


def _block6(tier, seed):
    quick = tier == 'quick'
    # (i) hand-picked branched molecules with 6-9 heavy atoms: every partition (<= 7 atoms) or seeded ones
    for smi in TAIL_MOLS:
        mol = g2.parse_smiles(smi)
        prng = random.Random(seed * 77 + sum(map(ord, smi)))
        parts = g2.connected_partitions(mol) if len(mol['a']) <= 6 else g2.sampled_partitions(mol, prng, 12 if quick else 60)
        for part in parts:
            nf = max(part) + 1
            if nf < 2:
                continue
            for i, case in enumerate(_tail_cases('b6', mol, part, g2.tail_renderings(mol, part, cap=12 if quick else 200),
                                                 2 if quick else 12, {'smiles': smi})):
                case['r']['base'] = list(range(nf)) if i % 2 == 0 else list(range(nf))[::-1]
                case['r']['ctor'] = 'string' if i % 3 < 2 else 'graph'
                yield case
    # (ii) every carbon skeleton and probe with 4 heavy atoms (block 1 molecules): all partitions, all such renderings
    for mol in _block1_mols('quick'):
        if len(mol['a']) < 4:
            continue
        for part in g2.connected_partitions(mol):
            if max(part) < 1:
                continue
            yield from _tail_cases('b6', mol, part, g2.tail_renderings(mol, part), None)
    # (iii) the library: seeded partitions, one or more renderings each
    for smi, mol in g2.library():
        prng = random.Random(seed * 13 + sum(map(ord, smi)))
        for part in g2.sampled_partitions(mol, prng, 3 if quick else 15):
            nf = max(part) + 1
            if nf < 2:
                continue
            for case in _tail_cases('b6', mol, part, g2.tail_renderings(mol, part, cap=4 if quick else 16), 1 if quick else 4,
                                    {'smiles': smi}):
                yield case


NH_RULE = ('partitions of an [nH] molecule keep every ring that is written in lower case and contains the [nH] inside one '
           'fragment (substituent bonds, the bond between the two rings of bipyrrole, bonds of side chains and of the benzo ring '
           'of indole may be cut)')


def _nh_partition_ok(mol, part):
    import networkx as nx
    g = nx.Graph()
    g.add_edges_from((u, v) for u, v, _ in mol['b'])
    for cyc in nx.minimum_cycle_basis(g):
        if any(mol['a'][a][2] == 2 for a in cyc) and len({part[a] for a in cyc}) > 1:
            return False
    return True


def _block7(tier, seed):
    quick = tier == 'quick'
    for smi, mol in g2.nh_library():
        prng = random.Random(seed * 19 + sum(map(ord, smi)))
        parts = [p for p in g2.sampled_partitions(mol, prng, 40 if quick else 200, max_blocks=4) if _nh_partition_ok(mol, p)]
        for part in parts[:8 if quick else 40]:
            nf = max(part) + 1
            for i, r in enumerate(g2.covering_renderings(mol, part, (4 if quick else 8) if nf > 1 else 2, prng)):
                base = list(range(nf))
                if i % 2:
                    prng.shuffle(base)
                r['base'] = base
                r['ctor'] = 'graph' if i % 3 == 2 else 'string'
                yield {'fam': 'b7', 'smiles': smi, 'mol': mol, 'part': part, 'r': r}


def _block7n(tier, seed):
    """N-substituted aromatic nitrogens, cut at (at least) the exocyclic N-C bonds."""
    quick = tier == 'quick'
    for smi, mol, must_cut in g2.nsub_library():
        prng = random.Random(seed * 23 + sum(map(ord, smi)))
        parts = [p for p in g2.sampled_partitions(mol, prng, 60 if quick else 300, max_blocks=4)
                 if _nh_partition_ok(mol, p) and all(p[a] != p[b] for a, b in must_cut)]
        for part in parts[:6 if quick else 30]:
            nf = max(part) + 1
            for i, r in enumerate(g2.covering_renderings(mol, part, 4 if quick else 8, prng)):
                base = list(range(nf))
                if i % 2:
                    prng.shuffle(base)
                r['base'] = base
                r['ctor'] = 'graph' if i % 3 == 2 else 'string'
                yield {'fam': 'b7', 'smiles': smi, 'mol': mol, 'part': part, 'r': r}


def classify(built, kind):
    """Narrow failure classes (only used to match known_findings.json)."""
    if _F2.search(built['frag_str']):
        return 'resolve/descriptor-behind-ring-bond-symbol-and-digit/' + kind
    return 'resolve/cut-molecule/' + kind


_REF = {}


def init_worker():
    logging.getLogger('pysmiles').setLevel(logging.ERROR)
    import cgsmiles  # noqa: F401


def quiet(fn):
    """call(fn) with stdout captured: rebuild_h_atoms print()s pysmiles' message before raising."""
    with contextlib.redirect_stdout(io.StringIO()):
        return call(fn)


def _resolve(built):
    from cgsmiles.resolve import MoleculeResolver
    if built['cg'] is not None:
        return quiet(lambda: MoleculeResolver.from_string(built['cg']).resolve())
    return quiet(lambda: MoleculeResolver.from_graph(built['frag_str'], g2.meta_graph(built['meta'])).resolve())


def base_reads_as_intended(built):
    """Precondition: the base-graph text denotes the intended graph (keys in order of appearance)."""
    if built['cg'] is None:
        return True
    import cgsmiles
    r = call(cgsmiles.read_cgsmiles, built['base_str'])
    if r[0] != 'ok':
        return False
    g = r[1]
    want_nodes = [built['names'][n] for n in built['order']]
    if [g.nodes[k].get('fragname') for k in sorted(g.nodes)] != want_nodes or sorted(g.nodes) != list(range(len(want_nodes))):
        return False
    pos = {n: k for k, n in enumerate(built['order'])}
    want_edges = {(min(pos[u], pos[v]), max(pos[u], pos[v])): o for (u, v), o in built['edges'].items()}
    got_edges = {(min(u, v), max(u, v)): d.get('order') for u, v, d in g.edges(data=True)}
    return want_edges == got_edges


def reference(mol):
    """heavy view of resolve(single-fragment string), cached per worker; None when that resolution itself fails."""
    from cgsmiles.resolve import MoleculeResolver
    k = g2.mol_key(mol)
    if k not in _REF:
        if len(_REF) > 4000:
            _REF.clear()
        s = g2.reference_string(mol)
        r = quiet(lambda: MoleculeResolver.from_string(s).resolve())
        if r[0] != 'ok':
            _REF[k] = (s, None, '%s: %s' % (r[1], r[2]))
        else:
            h, probs = cc.heavy_view(r[1][1])
            _REF[k] = (s, h if not probs else None, '; '.join(probs))
    return _REF[k]


def compare_with_molecule(built, mol, fine, fails, api):
    """clauses (a), (b), (c) on a fine graph; appends Failures."""
    h, probs = cc.heavy_view(fine)
    text = g2.describe(built)
    if probs:
        fails.append(Failure(api, 'hydrogen-topology', '%s -> %s' % (text, probs[:3]), classify(built, 'hydrogen-topology'), text=text))
        return h
    want = cc.expected_heavy(mol)
    if not cc.same_heavy(h, want, with_h=True):
        kind = 'wrong-hydrogens' if cc.same_heavy(h, want, with_h=False) else 'wrong-molecule'
        fails.append(Failure(api, kind, '%s -> %s ; expected (construction + valence table) %s' % (text, cc.summary(h), cc.summary(want)),
                             classify(built, kind), text=text))
    ref_s, ref_h, ref_err = reference(mol)
    if ref_h is not None and not cc.same_heavy(h, ref_h, with_h=True):
        fails.append(Failure(api, 'differs-from-uncut', '%s -> %s ; %s -> %s' % (text, cc.summary(h), ref_s, cc.summary(ref_h)),
                             classify(built, 'differs-from-uncut'), text=text, reference=ref_s))
    return h


def check_case(case):
    built = g2.build(case)
    text = g2.describe(built)
    nontrivial = built['nf'] >= 2
    if not base_reads_as_intended(built):
        return Outcome(text, False, [], skipped=True, note='base-graph text is not read as the intended graph (C04 subject)')
    fails = []
    api = 'MoleculeResolver.from_string(s).resolve()' if built['cg'] is not None else 'MoleculeResolver.from_graph(frags, g).resolve()'
    r = _resolve(built)
    if r[0] != 'ok':
        fails.append(Failure(api, 'resolver-exception', '%s -> %s: %s' % (text, r[1], r[2]), classify(built, 'resolver-exception'),
                             text=text, traceback=r[3]))
        return Outcome(text, nontrivial, fails)
    compare_with_molecule(built, case['mol'], r[1][1], fails, api)
    return Outcome(text, nontrivial, fails)
