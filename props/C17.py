"""
C17 — the sampler honours target weight, reactivities, terminals and seed.

Bounded tier: run-time postcondition on `MoleculeSampler.from_fragment_string(...)` + `.sample(w)` over the sampler
configurations G4 (gen/g4_sampler.py). For every returned molecule, recomputed from the returned graph alone
(copies = nodes sharing a fragid; a copy's fragment = its 'fragname'; growth bonds = edges with a 'bonding'
record (site descriptor, partner descriptor); the site atom is the endpoint in the older copy):

  target weight      S = sum of the masses of copies 1..k-1 (the fragments ADDED DURING GROWTH; the start fragment,
                     copy 0, is not counted — that is what the statement says and what `sample()` does) satisfies
                     S >= target and S - mass(copy k-1) < target. Masses: the given `fragment_masses`, else
                     `sampler.fragment_masses`; the sum is accumulated in growth order so that exact multiples are
                     compared exactly.
  derived masses     all-atom without given masses: `sampler.fragment_masses[name]` equals the sum of atomic masses of
                     the fragment incl. implicit hydrogens (independent table, 0.01 per atom tolerance). Reading: the
                     fragment's SMILES as a molecule of its own, descriptor positions hydrogen-filled
                     (specs/sampler_spec.py docstring).
  site reactivity    with a non-empty polymer_reactivities table, the site descriptor of every growth bond has a
                     positive entry (key with or without trailing '1'); an entry 0 or a missing key is never a site.
  partner reactivity with a non-empty fragment_reactivities[site] table, the partner descriptor of the bond has a
                     positive entry there.
  terminal rule      an atom that, as growth site, received a partner descriptor listed in terminal_bonds carries no
                     descriptors afterwards ('bonding' absent or empty) and is never a site again; an atom that only
                     grew through non-terminal partners keeps no terminal descriptor.
  order suffix       "'$A' means '$A1'": the same configuration with every table key and terminal descriptor spelled
                     with its order digit gives the identical molecule for the same seed (this is how the tables of
                     the docstring examples, all written without digits, are honoured at all).
  same seed          constructing a sampler with the same seed and sampling again (global `random` state scrambled in
                     between) gives the identical canonical dump (vf.util.canonical_dump); for batches of
                     configurations also in two fresh interpreters with different PYTHONHASHSEED.

Scope decisions
  * Dead-ended configurations (ValueError / IndexError / OSError / KeyError, or any other exception: no molecule)
    are outside the statement and skipped. If one history returns a molecule and another history of the same
    configuration does not, that IS a reproducibility failure.
  * Masses are positive (termination for non-positive masses is not claimed, DESIGN §10). target <= 0 adds nothing
    and is counted as trivial.
  * A missing key in a non-empty table counts as reactivity 0 (anchor "weighted choice with missing keys as 0").
  * `seed=None` (time-based) is not generated.
  * The 2^-53 event that random.choices lands exactly on the total and returns a trailing zero-weight entry is ignored.
"""
import json
import logging
import os
import random
import subprocess
import sys
import warnings

from vf.bounded import Outcome, Failure
from vf.util import canonical_dump
from gen import g4_sampler as g4
from specs import sampler_spec as sp

ID = 'C17'
LEVEL = 'other'
P_TARGETS = ['cgsmiles.sample:_set_bond_order_defaults', 'cgsmiles.sample:_select_bonding_operator', 'cgsmiles.sample:MoleculeSampler.add_fragment', 'cgsmiles.sample:MoleculeSampler.sample',
             'cgsmiles.sample:MoleculeSampler.__init__', 'cgsmiles.pysmiles_utils:compute_mass']
BUDGET = {'quick': 34.0, 'thorough': 390.0}
CHUNK = 100
N_RANDOM = {'quick': 3000, 'thorough': 150000}
XPROC = {'quick': (4, 15), 'thorough': (40, 40)}      # (batches, configurations per batch)
BOUNDS = {
    'quick': {'fragments': '1..4', 'descriptors_per_fragment': '1..4', 'kinds': ['$', '>', '<'], 'labels': ['', 'A', 'B', 'C'],
              'orders': [1, 2, 3], 'scenario_seeds': '0..7', 'systematic_family': 'as C16, seed 1 only', 'random_configurations': N_RANDOM['quick'],
              'random_seeds': '0..15', 'histories_per_configuration': '2 (+1 with explicit order digits when the spelling differs)', 'cross_process_batches': XPROC['quick'][0],
              'configurations_per_batch': XPROC['quick'][1], 'hash_seeds': [1, 4242]},
    'thorough': {'fragments': '1..4', 'descriptors_per_fragment': '1..4', 'kinds': ['$', '>', '<'], 'labels': ['', 'A', 'B', 'C'],
                 'orders': [1, 2, 3], 'scenario_seeds': '0..39', 'systematic_family': 'as C16, seeds 0..5',
                 'random_configurations': N_RANDOM['thorough'], 'random_seeds': '0..99', 'histories_per_configuration': '2 (+1 with explicit order digits when the spelling differs)',
                 'cross_process_batches': XPROC['thorough'][0], 'configurations_per_batch': XPROC['thorough'][1], 'hash_seeds': [1, 4242]},
}
EXHAUSTIVE = {'quick': False, 'thorough': False}
RULE = ('cross-process batches first (each batch: N configurations sampled in this process and in two fresh interpreters '
        'with PYTHONHASHSEED 1 and 4242, dump hashes compared), then the configurations of G4 as in C16 (scenarios x seeds x '
        'targets, systematic family, seeded random), each sampled twice from fresh samplers with the same seed; a single '
        'configuration is non-trivial when the sampler returned a molecule with at least one growth step (>= 2 copies); a batch '
        'is non-trivial when at least one of its configurations returned such a molecule; dead-ended configurations are skipped; '
        'distinct = distinct (fragment string, tables, masses, seed, target, start)')
ASSUMPTIONS = ['atomic masses H 1.008 C 12.011 N 14.007 O 15.999 S 32.06 F 18.998 Cl 35.45 Br 79.904 P 30.974 (0.01 per atom tolerance)',
               'implicit hydrogens by the usual-valence rule of specs/sampler_spec.py',
               'the endpoint of a growth bond with the lower fragid is the growth site; a copy added later has a higher fragid',
               'the fragment of a copy is identified by the fragname its nodes carry (C16 checks that attribute)',
               'vf.util.canonical_dump is injective enough: equal dumps <=> equal node keys, attributes, edges',
               'random.choices never returns an entry of weight 0 (stdlib, not verified)']


def init_worker():
    logging.getLogger('pysmiles').setLevel(logging.ERROR)
    warnings.simplefilter('ignore')


def cases(tier, seed):
    nb, per = XPROC[tier]
    # cross-process batches: scenario configurations in the first, random ones afterwards; one batch per chunk of
    # single configurations so that the batches (two interpreter starts each) spread over the workers
    batches = [{'kind': 'xproc', 'cfgs': [c for c in g4.structured_cases('quick') if c.get('label') and c['seed'] < 2][:per]}]
    batch = []
    for c in g4.random_cases(tier, seed + 7919, (nb - 1) * per):
        batch.append(c)
        if len(batch) == per:
            batches.append({'kind': 'xproc', 'cfgs': batch})
            batch = []

    def singles():
        for c in g4.structured_cases(tier, systematic_seeds=[1] if tier == 'quick' else None):
            yield {'kind': 'one', 'cfg': c}
        for c in g4.random_cases(tier, seed, N_RANDOM[tier]):
            yield {'kind': 'one', 'cfg': c}
    for text, formulas in MASS_TABLE_HAND:
        yield {'kind': 'mass-table', 'text': text, 'formulas': formulas}
    for i, c in enumerate(singles()):
        if i % CHUNK == 0 and i and batches:
            yield batches.pop(0)
        yield c
    yield from batches


def classify(cfg, kind):
    mode = 'all-atom' if cfg['all_atom'] else 'coarse'
    return 'sample/%s/%s' % (mode, kind)


def _norm_table(t):
    return {g4.norm(k): v for k, v in t.items()}


def check_molecule(sampler, mol, cfg, tpls):
    """All single-history C17 clauses -> ([(kind, detail)], number of copies) or (None, reason) when the graph
    cannot be decomposed into named copies (C16's subject)."""
    out = []
    dec = sp.Decomposition(mol)
    if dec.problems:
        return None, 'graph does not decompose into copies: %s' % (dec.problems[0],)
    k = len(dec.copies)
    if sorted(dec.copies) != list(range(k)):
        return None, 'fragids are not 0..k-1'
    names = [dec.copy_name(f) for f in range(k)]
    if any(n is None or n not in tpls for n in names):
        return None, 'a copy carries no single known fragname'
    per_new = {}
    for e in dec.bonds:
        per_new[e['new']] = per_new.get(e['new'], 0) + 1
    if len(dec.bonds) != k - 1 or any(per_new.get(f, 0) != 1 for f in range(1, k)):
        return None, 'copies are not attached by exactly one growth bond each'
    # ---- masses
    given = cfg['masses']
    smass = getattr(sampler, 'fragment_masses', None)
    if given:
        masses = given
    else:
        masses = smass
        if not isinstance(smass, dict) or any(n not in smass for n in tpls):
            out.append(('derived-mass', 'sampler.fragment_masses = %r lacks a fragment' % (smass,)))
            masses = None
        else:
            for name, tpl in tpls.items():
                want, natoms = sp.template_mass(tpl)
                if not isinstance(smass[name], (int, float)) or abs(smass[name] - want) > sp.MASS_TOL_PER_ATOM * natoms:
                    out.append(('derived-mass', 'fragment %s: sampler mass %r, sum of atomic masses incl. implicit hydrogens %.3f (%d atoms)' % (name, smass[name], want, natoms)))
    # ---- stopping rule
    if masses is not None and cfg['target'] > 0:
        total = 0
        before_last = 0
        for f in range(1, k):
            before_last = total
            total += masses[names[f]]
        if not total >= cfg['target']:
            out.append(('target-not-reached', 'masses of the %d added copies %r sum to %r < target %r' % (k - 1, names[1:], total, cfg['target'])))
        if k > 1 and not before_last < cfg['target']:
            out.append(('overshoot', 'masses of the added copies %r sum to %r; without the last one %r >= target %r' % (names[1:], total, before_last, cfg['target'])))
    if masses is not None and cfg['target'] <= 0 and k > 1:
        out.append(('overshoot', 'target %r but %d copies were added' % (cfg['target'], k - 1)))
    # ---- reactivities
    pr = _norm_table(cfg['pr'])
    fr = {g4.norm(s): _norm_table(t) for s, t in cfg['fr'].items()}
    for e in dec.bonds:
        if pr and not pr.get(e['s'], 0) > 0:
            out.append(('zero-reactivity-site', 'bond %r-%r grew at site descriptor %r whose polymer reactivity is %r (table %r)' % (
                e['site'], e['partner'], e['s'], pr.get(e['s'], 'missing'), cfg['pr'])))
        tab = fr.get(e['s'])
        if tab and not tab.get(e['p'], 0) > 0:
            out.append(('zero-reactivity-partner', 'bond %r-%r: partner %r given site %r has conditional reactivity %r (table %r)' % (
                e['site'], e['partner'], e['p'], e['s'], tab.get(e['p'], 'missing'), cfg['fr'])))
    # ---- terminal rule
    term = {g4.norm(t) for t in cfg['term']}
    if term:
        _, as_site = dec.consumed()
        for node, edges in as_site.items():
            edges = sorted(edges, key=lambda e: e['new'])
            remaining = list(mol.nodes[node].get('bonding', []) or [])
            t_edges = [e for e in edges if e['p'] in term]
            if t_edges:
                first = t_edges[0]
                if remaining:
                    out.append(('terminal-site-keeps-descriptors', 'atom %r received terminal %r (copy %d) but still offers %r' % (node, first['p'], first['new'], remaining)))
                later = [e for e in edges if e['new'] > first['new']]
                if later:
                    out.append(('terminal-site-grew-again', 'atom %r received terminal %r with copy %d and was a growth site again for copy %d' % (node, first['p'], first['new'], later[0]['new'])))
            else:
                left = [d for d in remaining if d in term]
                if left:
                    out.append(('terminal-descriptor-not-withdrawn', 'atom %r grew through %r and still offers terminal descriptor(s) %r' % (node, [(e['s'], e['p']) for e in edges], left)))
    return out, k


def _explicit(cfg):
    """The configuration with every table key / terminal descriptor spelled with its order digit; None when that
    changes nothing or when two spellings of one descriptor collide in a table."""
    pr = _norm_table(cfg['pr'])
    fr = {g4.norm(k): _norm_table(v) for k, v in cfg['fr'].items()}
    term = [g4.norm(t) for t in cfg['term']]
    if (pr, fr, term) == (cfg['pr'], cfg['fr'], cfg['term']):
        return None
    if len(pr) != len(cfg['pr']) or len(fr) != len(cfg['fr']) or any(len(fr[g4.norm(k)]) != len(v) for k, v in cfg['fr'].items()):
        return None
    return dict(cfg, pr=pr, fr=fr, term=term)


def _history(cfg, precondition=None):
    try:
        sampler, mol = g4.run(cfg)
    except Exception as e:  # noqa — no molecule
        return None, None, type(e).__name__
    return sampler, mol, None


def check_one(cfg):
    key = g4.cfg_key(cfg)
    tpls = g4.templates(cfg)
    sampler, mol, exc = _history(cfg)
    # second construct-and-sample history with the same seed, global RNG state deliberately different
    random.seed(1234567 + 31 * cfg['seed'])
    random.random()
    sampler2, mol2, exc2 = _history(cfg)
    fails = []
    if (mol is None) != (mol2 is None):
        fails.append(Failure('MoleculeSampler.sample', 'not-reproducible',
                             '%s seed=%s target=%s: first history -> %s, second history -> %s' % (
                                 cfg['text'], cfg['seed'], cfg['target'], exc or 'molecule', exc2 or 'molecule'),
                             classify(cfg, 'not-reproducible')))
    if mol is None and mol2 is None:
        return Outcome(key, False, [], skipped=True, note='no molecule: %s' % exc)
    if mol is not None and mol2 is not None:
        d1, d2 = canonical_dump(mol), canonical_dump(mol2)
        if d1 != d2:
            fails.append(Failure('MoleculeSampler.sample', 'not-reproducible',
                                 '%s seed=%s target=%s: two fresh samplers gave different molecules (%d vs %d nodes)' % (
                                     cfg['text'], cfg['seed'], cfg['target'], len(mol), len(mol2)),
                                 classify(cfg, 'not-reproducible')))
    # third history: all table keys spelled with their order digit
    full = _explicit(cfg)
    if full is not None and mol is not None and not fails:      # only when the configuration is reproducible at all
        sampler3, mol3, exc3 = _history(full)
        if mol3 is None or canonical_dump(mol3) != canonical_dump(mol):
            fails.append(Failure('MoleculeSampler.sample', 'order-suffix-spelling',
                                 '%s seed=%s target=%s: tables %r / %r / %r give %s, the same tables with explicit order digits give %s' % (
                                     cfg['text'], cfg['seed'], cfg['target'], cfg['pr'], cfg['fr'], cfg['term'],
                                     'a molecule of %d nodes' % len(mol), exc3 or 'a different molecule (%d nodes)' % len(mol3)),
                                 classify(cfg, 'order-suffix-spelling')))
    ncopies = 0
    for s, m in ((sampler, mol), (sampler2, mol2)):
        if m is None:
            continue
        problems, k = check_molecule(s, m, cfg, tpls)
        if problems is None:
            if not fails:
                return Outcome(key, False, [], skipped=True, note=k)
            break
        ncopies = max(ncopies, k)
        seen = {f['kind'] for f in fails}
        for kind, detail in problems:
            if kind in seen:
                continue
            seen.add(kind)
            fails.append(Failure('MoleculeSampler.sample', kind, '%s seed=%s target=%s: %s' % (cfg['text'], cfg['seed'], cfg['target'], detail),
                                 classify(cfg, kind)))
    return Outcome(key, ncopies >= 2, fails)


HASH_SEEDS = ('1', '4242')


def check_xproc(cfgs):
    key = 'xproc:' + json.dumps([g4.cfg_key(c) for c in cfgs])
    here = []
    for c in cfgs:
        random.seed(99)
        here.append(g4.run_hash(c))
    fails = []
    nontrivial = False
    for hs in HASH_SEEDS:
        env = dict(os.environ)
        env['PYTHONHASHSEED'] = hs
        try:
            p = subprocess.run([sys.executable, '-m', 'gen.g4_sampler'], input=json.dumps(cfgs), capture_output=True,
                               text=True, env=env, timeout=300, cwd=os.path.dirname(os.path.dirname(os.path.abspath(__file__))))
            there = json.loads(p.stdout)
            assert len(there) == len(cfgs)
        except Exception as e:  # harness problem, never a verdict
            return Outcome(key, False, [], skipped=True, note='subprocess failed: %r' % (e,))
        for c, a, b in zip(cfgs, here, there):
            if a.startswith('EXC:') and b.startswith('EXC:'):
                continue
            if c['target'] > 0:
                nontrivial = True
            if a != b:
                fails.append(Failure('MoleculeSampler.sample', 'not-reproducible-across-processes',
                                     '%s seed=%s target=%s: this process -> %s, fresh interpreter with PYTHONHASHSEED=%s -> %s' % (
                                         c['text'], c['seed'], c['target'], a, hs, b),
                                     classify(c, 'not-reproducible-across-processes')))
    return Outcome(key, nontrivial, fails[:10])


# derived masses of fragments whose hydrogen count needs more than a valence table (aromatic N-H, charged centres, ring
# hetero atoms): (fragment block, {name: sum formula}); the formulas are written by hand from the structures
MASS_TABLE_HAND = [
    ('{#PYR=[>]CC[<]c1ccc[nH]1}', {'PYR': {'C': 6, 'H': 9, 'N': 1}}),                       # 2-ethylpyrrole
    ('{#TRP=[>]NC(Cc1c[nH]c2ccccc12)C(=O)[<]}', {'TRP': {'C': 11, 'H': 12, 'N': 2, 'O': 1}}),
    ('{#HIS=[$]Cc1c[nH]cn1,#PY=[$]Cc1ccccn1}', {'HIS': {'C': 4, 'H': 6, 'N': 2}, 'PY': {'C': 6, 'H': 7, 'N': 1}}),
    ('{#THI=[$]CC1=CC=C([$])S1}', {'THI': {'C': 5, 'H': 6, 'S': 1}}),          # thiophene, written with localised bonds
    ('{#QA=[$]C[N+](C)(C)C,#AC=[$]CC(=O)[O-]}', {'QA': {'C': 4, 'H': 12, 'N': 1}, 'AC': {'C': 2, 'H': 3, 'O': 2}}),
    ('{#PS=[>]CC[<]c1ccccc1,#IND=[$]c1ccc2[nH]ccc2c1}', {'PS': {'C': 8, 'H': 10}, 'IND': {'C': 8, 'H': 7, 'N': 1}}),
    ('{#XH=[$]C([H])([H])N}', {'XH': {'C': 1, 'H': 5, 'N': 1}}),                              # written-out hydrogens count once
]


def check_mass_table(case):
    from cgsmiles.sample import MoleculeSampler
    text, formulas = case['text'], case['formulas']
    key = 'mass-table %s' % text
    descs = sorted({d for d in ('$', '>', '<') if '[' + d + ']' in text})
    try:
        sampler = MoleculeSampler.from_fragment_string(text, polymer_reactivities={d: 1.0 / len(descs) for d in descs}, all_atom=True, seed=1)
    except Exception as e:    # noqa
        return Outcome(key, True, [Failure('MoleculeSampler.from_fragment_string', 'exception', '%s: %s: %s' % (text, type(e).__name__, str(e)[:200]),
                                           'sample/all-atom/exception/%s' % type(e).__name__)])
    fails = []
    smass = getattr(sampler, 'fragment_masses', None)
    for name, formula in formulas.items():
        want = sum(sp.ATOMIC_MASS[el] * n for el, n in formula.items())
        natoms = sum(formula.values())
        got = smass.get(name) if isinstance(smass, dict) else None
        if not isinstance(got, (int, float)) or abs(got - want) > sp.MASS_TOL_PER_ATOM * natoms:
            fails.append(Failure('MoleculeSampler.__init__ -> fragment_masses', 'derived-mass',
                                 '%s: fragment %s: sampler mass %r, sum formula %r weighs %.3f' % (text, name, got, formula, want),
                                 'sample/all-atom/derived-mass'))
    return Outcome(key, True, fails)


def check_case(case):
    if case.get('kind') == 'xproc':
        return check_xproc(case['cfgs'])
    if case.get('kind') == 'mass-table':
        return check_mass_table(case)
    return check_one(case['cfg'])
