#!/bin/sh
# Build the overlay interpreter used by every check (offline, from the local wheelhouse).
# Python 3.12 (same minor as /venv, whose site-packages carry the repository's own deps:
# networkx, pysmiles, numpy, scipy, rdkit) + z3-solver + cvc5 wheels for the verifier.
set -e
HERE="$(cd "$(dirname "$0")" && pwd)"
VENV="$HERE/.venv"
if [ -x "$VENV/bin/python" ] && "$VENV/bin/python" -c "import z3, networkx, pysmiles" 2>/dev/null; then
    exit 0
fi
rm -rf "$VENV"
PY=/root/.pyenv/versions/3.12.1/bin/python3.12
[ -x "$PY" ] || PY=/venv/bin/python
"$PY" -m venv "$VENV"
PIP_NO_INDEX=1 "$VENV/bin/pip" install -q --no-index --find-links /opt/veriftools/wheels z3-solver cvc5 >/dev/null
SP=$("$VENV/bin/python" -c "import sysconfig; print(sysconfig.get_paths()['purelib'])")
echo "import site; site.addsitedir('/venv/lib/python3.12/site-packages')" > "$SP/_repo_deps.pth"
"$VENV/bin/python" -c "import z3, cvc5, networkx, pysmiles, numpy; print('verif venv ok: z3', z3.get_version_string())"
